import sys, subprocess, os, shutil, tempfile
muts = {
 'r1': [('''    bit_writer.write_number(gate_type_id, GATE_TYPE_BIT_SIZE)
    for operand_label in gate_.operands:
        bit_writer.write_number(gate_identifiers[operand_label], word_size)
''','''    bit_writer.write_number(gate_type_id, GATE_TYPE_BIT_SIZE)
    operand_labels = gate_.operands
    for operand_label in operand_labels:
        operand_id = gate_identifiers[operand_label]
        bit_writer.write_number(operand_id, word_size)
''')],
 'r2': [('''    for input_label in circuit.inputs:
        result[input_label] = len(result)
''','''    next_id = 0
    for input_label in circuit.inputs:
        result[input_label] = next_id
        next_id += 1
''')],
 'r3': [('''    operands: tp.List[Label] = []
    gate_id = len(gates)
    label = _generate_label(gate_id)
''','''    gate_id = len(gates)
    label = _generate_label(gate_id)
    operands: tp.List[Label] = []
''')],
 'r4': [('''    for label in gate_identifiers.keys():
        _encode_gate(bit_writer, circuit.get_gate(label), gate_identifiers, word_size)
''','''    for gate_label in gate_identifiers.keys():
        current_gate = circuit.get_gate(gate_label)
        _encode_gate(bit_writer, current_gate, gate_identifiers, word_size)
''')],
 'r5': [('''    for i in range(inputs_count):
        gate_ = Gate(_generate_label(i), gate.INPUT)
        gates[i] = gate_
        circuit.add_gate(gate_)
''','''    for input_index in range(inputs_count):
        input_label = _generate_label(input_index)
        input_gate = Gate(input_label, gate.INPUT)
        gates[input_index] = input_gate
        circuit.add_gate(input_gate)
'''), ('''    for _ in range(outputs_count):
        output_id = bit_reader.read_number(word_size)
        circuit.mark_as_output(_generate_label(output_id))
''','''    for _ in range(outputs_count):
        output_label = _generate_label(bit_reader.read_number(word_size))
        circuit.mark_as_output(output_label)
''')],
}
for name, edits in muts.items():
    d = tempfile.mkdtemp(prefix='hrepo.', dir='/tmp')
    subprocess.run(['rsync', '-a', '--exclude', '.git', '--exclude', '__pycache__', '/repo/', d + '/'], check=True)
    p = d + '/cirbo/circuits_db/circuits_encoding.py'
    s = open(p).read()
    for a, b in edits:
        assert a in s, (name, a)
        s = s.replace(a, b, 1)
    open(p, 'w').write(s)
    # native sanity: the repository's own codec tests
    t = subprocess.run(['/venv/bin/python', '-m', 'pytest', '-q', '-p', 'no:cacheprovider', 'tests/cirbo/circuits_db', '-x', '-q'], cwd=d, capture_output=True, text=True)
    out = subprocess.run(['/verif/bin/check', 'C16', '--tier', 'quick'], cwd='/verif', env=dict(os.environ, VERIF_REPO=d, VERIF_EVIDENCE_DIR=d + '/.ev'), capture_output=True, text=True)
    last = [l for l in out.stdout.splitlines() if l.startswith('[C16]')]
    viol = sum(1 for l in out.stdout.splitlines() if l.startswith('VIOLATION'))
    print(name, 'tests:', t.stdout.strip().splitlines()[-1] if t.stdout.strip() else t.stderr[-100:], '| exit', out.returncode, 'violations', viol, last[-1][:120] if last else out.stdout[-200:])
    shutil.rmtree(d)

#!/usr/bin/env python3
"""usage: touched_functions.py <patched tree> <patch.diff>  ->  prints the qualnames (file::Class.func) of the functions whose
lines the patch changes (new-file line numbers mapped through the AST of the patched tree)."""
import ast, re, sys, os
tree, patch = sys.argv[1:3]
cur, lines = None, {}
new = 0
for l in open(patch):
    if l.startswith('+++ '):
        cur = re.sub(r'^(b/|[^/]+/)', '', l[4:].split('\t')[0].strip(), count=1) if not l[4:].startswith('/dev/null') else None
        continue
    m = re.match(r'@@ -\d+(?:,\d+)? \+(\d+)(?:,\d+)? @@', l)
    if m:
        new = int(m.group(1)); continue
    if cur is None or l.startswith('---') or l.startswith('diff '):
        continue
    if l.startswith('+'):
        lines.setdefault(cur, set()).add(new); new += 1
    elif l.startswith('-'):
        lines.setdefault(cur, set()).add(new)
    else:
        new += 1
out = set()
for f, ls in lines.items():
    p = os.path.join(tree, f)
    if not (f.endswith('.py') and os.path.exists(p)):
        continue
    t = ast.parse(open(p).read())
    def walk(n, q):
        for c in ast.iter_child_nodes(n):
            if isinstance(c, (ast.FunctionDef, ast.AsyncFunctionDef, ast.ClassDef)):
                q2 = q + [c.name]
                if not isinstance(c, ast.ClassDef) and any(c.lineno <= x <= c.end_lineno for x in ls):
                    out.add(f + '::' + '.'.join(q2))
                walk(c, q2)
            else:
                walk(c, q)
    walk(t, [])
print('\n'.join(sorted(out)))

#!/bin/sh
# usage: tools/p_audit.sh C05-d:C05 ...
# Audit of the deductive layer against filed seeds: for each (seed, property) run the quick check on a scratch copy and
# report  exit / violations / P refuted / P undecided / the functions the patch touches / which of them are under contract
# in that check.  A seed that touches a function under contract, is refuted by the bounded layer, and leaves P with no
# refuted and no undecided obligation deserves a look: either the contracts of that function do not speak about the broken
# behaviour (say so in DESIGN) or a proof rule is unsound.
for spec in "$@"; do
  seed=${spec%%:*}; props=$(echo ${spec#*:} | tr ',' ' ')
  d=$(mktemp -d /tmp/arepo.XXXXXX)
  rsync -a --exclude .git --exclude '__pycache__' /repo/ "$d/"
  (cd "$d" && patch -s -p1 < /verif/seeded/$seed/patch.diff) || { echo "$seed: patch does not apply"; rm -rf "$d"; continue; }
  for p in $props; do
    ev=$(mktemp -d /tmp/aev.XXXXXX)
    out=$(cd /verif && VERIF_REPO="$d" VERIF_EVIDENCE_DIR="$ev" bin/check $p --tier quick 2>&1)
    rc=$?
    /verif/tools/touched_functions.py "$d" /verif/seeded/$seed/patch.diff > "$ev/touched.txt"
    /verif/.venv/bin/python - "$seed" "$p" "$rc" "$ev/$p.json" "$ev/touched.txt" <<'PY'
import json, sys
seed, p, rc, evp, tf = sys.argv[1:]
try:
    e = json.load(open(evp))
except Exception as x:
    print(seed, p, 'exit=' + rc, 'no evidence', x); sys.exit()
cov = e['coverage']
touched = [l.strip() for l in open(tf) if l.strip()]
names = list(cov.get('functions_under_contract', {}))
hit = sorted({n.split('::')[-1] for t in touched for n in names if t == n or t.startswith(n + '.')})
print(seed, p, 'exit=' + rc, 'violations=%s' % e.get('violations'), 'P_refuted=%s' % cov.get('refuted'), 'P_undecided=%s' % cov.get('undecided'),
      'touched=%s' % [t.split('::')[-1] for t in touched], 'under_contract=%s' % hit)
PY
    rm -rf "$ev"
  done
  rm -rf "$d"
done

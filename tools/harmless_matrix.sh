#!/bin/sh
# usage: tools/harmless_matrix.sh h01:C01,C14 h02:C02 ...   (semantics-preserving refactorings under seeded/harmless/)
# Every check must stay free of VIOLATION lines on these patches (exit 0, or 2 = undecided, never 1).
# Works on scratch copies (VERIF_REPO), /repo is not touched.
for spec in "$@"; do
  h=${spec%%:*}; props=$(echo ${spec#*:} | tr ',' ' ')
  d=$(mktemp -d /tmp/hrepo.XXXXXX)
  rsync -a --exclude .git --exclude '__pycache__' /repo/ "$d/"
  (cd "$d" && patch -s -p1 < /verif/seeded/harmless/$h.diff) || { echo "$h: patch does not apply"; rm -rf "$d"; continue; }
  for p in $props; do
    out=$(cd /verif && VERIF_REPO="$d" VERIF_EVIDENCE_DIR="$d/.evidence" bin/check $p --tier quick 2>&1)
    rc=$?
    nv=$(echo "$out" | grep -c '^VIOLATION')
    und=$(echo "$out" | grep -o 'undecided=[0-9]*' | head -1)
    first=$(echo "$out" | grep -A1 '^VIOLATION' | grep 'obligation=' | head -1 | sed 's/ ::.*//' | cut -c1-150)
    echo "$h $p exit=$rc violations=$nv $und $first"
  done
  rm -rf "$d"
done

#!/bin/sh
# usage: tools/seed_matrix.sh C01-a:C01,C14 C02-b:C02,C19 ...
# Runs every listed filed seed (seeded/<seed>/patch.diff) against the quick check of the listed properties on a scratch
# copy of /repo (VERIF_REPO); /repo itself is not touched. One line per (seed, property).
for spec in "$@"; do
  seed=${spec%%:*}; props=$(echo ${spec#*:} | tr ',' ' ')
  d=$(mktemp -d /tmp/srepo.XXXXXX)
  rsync -a --exclude .git --exclude '__pycache__' /repo/ "$d/"
  (cd "$d" && patch -s -p1 < /verif/seeded/$seed/patch.diff) || { echo "$seed: patch does not apply"; rm -rf "$d"; continue; }
  for p in $props; do
    out=$(cd /verif && VERIF_REPO="$d" VERIF_EVIDENCE_DIR="$d/.evidence" bin/check $p --tier quick 2>&1)
    rc=$?
    nv=$(echo "$out" | grep -c '^VIOLATION')
    first=$(echo "$out" | grep 'obligation=' | sed 's/ witness=.*//; s/ *obligation=//' | head -3 | tr '\n' ' ' | cut -c1-260)
    echo "$seed $p exit=$rc violations=$nv $first"
  done
  rm -rf "$d"
done

#!/bin/sh
# runs every filed seed against the quick check of the listed properties; prints one line per (seed, property)
for spec in "$@"; do
  seed=${spec%%:*}; props=$(echo ${spec#*:} | tr ',' ' ')
  cd /repo && git diff --quiet || { echo "dirty /repo"; exit 3; }
  git apply /verif/seeded/$seed/patch.diff || { echo "$seed: patch does not apply"; continue; }
  for p in $props; do
    out=$(cd /verif && bin/check $p --tier quick 2>&1)
    rc=$?
    nv=$(echo "$out" | grep -c '^VIOLATION')
    first=$(echo "$out" | grep -A1 '^VIOLATION' | grep 'obligation=' | head -1 | sed 's/ ::.*//' | cut -c1-150)
    echo "$seed $p exit=$rc violations=$nv $first"
  done
  cd /repo && git checkout -- .
done

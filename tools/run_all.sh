#!/bin/sh
# runs the quick (or given tier) command of every claimed check on the current tree, 4 at a time; prints one line each
T="${1:-quick}"
cd /verif
IDS=$(.venv/bin/python -c "import json; print(' '.join(c['property_id'] for c in json.load(open('MANIFEST.json'))['checks']))")
echo $IDS | tr ' ' '\n' | xargs -P 4 -I{} sh -c 'out=$(bin/check {} --tier '"$T"' 2>&1); rc=$?; echo "{} exit=$rc $(echo "$out" | grep "^\[C" | tail -1)"; echo "$out" | grep -E "^VIOLATION|UNDECIDED|CHECKER-ERROR" | head -3'

#!/bin/sh
# usage: tools/run_seed.sh <seed dir containing patch.diff, demo.py> <property id> [tier]
# Applies the seeded change to /repo, runs the demo and the registered check, and undoes the change.
D="$1"; P="$2"; T="${3:-quick}"
cd /repo || exit 3
git diff --quiet || { echo "/repo has uncommitted changes"; exit 3; }
git apply "$D/patch.diff" || { echo "patch does not apply"; exit 3; }
echo "--- demo on changed tree:"; /verif/.venv/bin/python "$D/demo.py" /repo >/tmp/seed_demo.out 2>&1; echo "demo exit=$? ($(tail -1 /tmp/seed_demo.out | cut -c1-150))"
echo "--- check $P ($T):"; cd /verif && bin/check "$P" --tier "$T" 2>&1 | grep -E "^VIOLATION|^\[C|^KNOWN|CHECKER|UNDECIDED" | cut -c1-260
cd /repo && git checkout -- . && git status --short | head -3

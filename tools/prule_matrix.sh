#!/bin/sh
# usage: tools/prule_matrix.sh pr01:C05 pr02:C20,C01 ...   (hand-written mutants aimed at the PROOF RULES, seeded/prule/)
# Each adds loop-carried state / an attribute that the specification of the cut does not describe.  The deductive layer must
# answer undecided (frame condition) or refuted for the touched contract - never "all discharged" - whatever the bounded layer says.
for spec in "$@"; do
  h=${spec%%:*}; props=$(echo ${spec#*:} | tr ',' ' ')
  d=$(mktemp -d /tmp/prepo.XXXXXX)
  rsync -a --exclude .git --exclude '__pycache__' /repo/ "$d/"
  (cd "$d" && patch -s -p1 < /verif/seeded/prule/$h.diff) || { echo "$h: patch does not apply"; rm -rf "$d"; continue; }
  for p in $props; do
    out=$(cd /verif && VERIF_REPO="$d" VERIF_EVIDENCE_DIR="$d/.evidence" bin/check $p --tier quick 2>&1)
    rc=$?
    nv=$(echo "$out" | grep -c '^VIOLATION')
    und=$(echo "$out" | grep -o 'undecided=[0-9]*' | head -1)
    why=$(echo "$out" | grep -o 'frame condition[^;]*' | sort | uniq -c | sort -rn | head -1 | cut -c1-200)
    fr=$(echo "$out" | grep -c '^UNDECIDED:.*/frame/')
    echo "$h $p exit=$rc violations=$nv $und frame-clause-obligations=$fr $why"
  done
  rm -rf "$d"
done

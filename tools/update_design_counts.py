#!/usr/bin/env python3
"""rewrites the obligation counts of the verdict table in DESIGN.md §0 from the committed evidence files"""
import json, os, re
HERE = os.path.dirname(os.path.dirname(os.path.abspath(__file__)))
p = os.path.join(HERE, 'DESIGN.md')
s = open(p).read()
for f in sorted(os.listdir(os.path.join(HERE, 'evidence'))):
    pid = f[:-5]
    n = json.load(open(os.path.join(HERE, 'evidence', f)))['coverage']['obligations']
    fmt = f'{n:,}'.replace(',', ' ')
    s, k = re.subn(r'(\| %s \|[^\n]*? — )[0-9][0-9 ]*( \|)' % pid, lambda m: m.group(1) + fmt + m.group(2), s, count=1)
    print(pid, n, 'updated' if k else 'NOT FOUND')
open(p, 'w').write(s)

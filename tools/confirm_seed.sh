#!/bin/sh
# usage: tools/confirm_seed.sh <seed out dir> <name>   -> confirms a seeded change in a scratch worktree and files it under /verif/seeded/<name>
D="$1"; N="$2"
W=/tmp/confirm_$N
rm -rf "$W"; git -C /repo worktree add -q --detach "$W" HEAD || exit 3
cd "$W"
/verif/.venv/bin/python "$D/demo.py" "$W" >/tmp/confirm_demo0.out 2>&1; E0=$?
git apply "$D/patch.diff" || { echo "patch does not apply"; git -C /repo worktree remove --force "$W"; exit 3; }
/verif/.venv/bin/python "$D/demo.py" "$W" >/tmp/confirm_demo1.out 2>&1; E1=$?
T=$(/venv/bin/python -m pytest -q -p no:cacheprovider --timeout=900 --continue-on-collection-errors -n 8 2>&1 | tail -1)
cd /verif; git -C /repo worktree remove --force "$W"
echo "$N: demo pristine exit=$E0, demo changed exit=$E1, suite on changed tree: $T"
if [ "$E0" = 0 ] && [ "$E1" != 0 ] && echo "$T" | grep -q "2129 passed, 8 errors"; then
  mkdir -p /verif/seeded/$N && cp "$D/patch.diff" "$D/demo.py" /verif/seeded/$N/ && cp "$D/meta.json" /verif/seeded/$N/meta_author.json
  echo "CONFIRMED $N"
else
  echo "REJECTED $N"
fi

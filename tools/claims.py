# Edited by hand; read by tools/gen_manifest.py.
T_ASSUME = 'Trusted: pyvc encoder (tested by canaries/mutants/differential runs), z3, cvc5, CPython semantics as modelled in vlib/pyvc/lib.py; partial correctness only. '

claim('C01', 'other', 'contract-based deductive verification: VCs generated from the real source by symbolic execution (pyvc), discharged by z3/cvc5; fold induction for n-ary operators',
      'Unbounded proof that every operator, every GateType constant and every foreign gate table (synthesis codes, arithmetic codes) denotes the one fixed OP(t) for all Boolean arguments and all arities; '
      'the evaluation entry points are additionally exercised by a bounded stand-in against an independent evaluator. Not `proof` because the entry-point loops are bounded-only in this build.',
      T_ASSUME + 'Bounded part: circuits with <=2 gates exhaustive, seeded random up to 7 gates.', 'DESIGN.md §6 C01')
claim('C05', 'other', 'contract-based deductive verification of the Tseytin templates (loop invariants over a CNF view), dispatch proved on one-gate circuits; bounded brute force for whole circuits',
      'Every _process_* template is proved equivalent to top = OP(t)(lits) for all literals (and/nand/or/nor for every arity by loop invariant, xor/nxor for arities 2..5); '
      'tseytin_transformation is symbolically executed on one-gate circuits of every type; whole-circuit exactness is bounded.',
      T_ASSUME + 'SAT solver soundness/completeness assumed (python-sat absent; z3-backed shim in the bounded layer).', 'DESIGN.md §6 C05')
claim('C14', 'other', 'contract-based deductive verification on an abstract heap (state as substitution): convert_gate with all callees inlined, WF/frame/local-equation obligations, loop invariant by prefix-count view',
      'For an arbitrary well-formed circuit and an arbitrary gate of each of the 18 types, convert_gate preserves WF (users multiset, inputs, outputs, acyclicity via ghost rank, blocks), '
      'changes only that gate plus one fresh helper, keeps the local gate equation, leaves only bench types and puts the helper into the blocks of the gate — proved for all circuits; into_bench as a whole is bounded.',
      T_ASSUME + 'Proof rule R2 (DAG induction) lifts the local equation to truth-table preservation; ARITY precondition on the converted gate.', 'DESIGN.md §6 C14')
claim('C15', 'other', 'contract-based deductive verification of the three-valued operator tables (monotonicity/totality VCs, fold induction); bounded stand-in for circuit-level evaluation',
      'Every operator is proved monotone w.r.t. the information order and total on total arguments for all argument values; n-ary operators are proved to be folds of their binary case for every arity; '
      'circuit-level soundness/monotonicity is checked by the bounded stand-in over all 3^n partial assignments of enumerated circuits.',
      T_ASSUME + 'Background lemma: folds of monotone steps are monotone.', 'DESIGN.md §6 C15')
NA['C02'] = 'no deductive obligation built yet for this property in this build (a bounded stand-in driver exists under vlib/bounded but is not registered, because a bounded-only check would be a different technique)'
NA['C03'] = 'no deductive obligation built yet for this property in this build (a bounded stand-in driver exists under vlib/bounded but is not registered, because a bounded-only check would be a different technique)'
NA['C04'] = 'no deductive obligation built yet for this property in this build (a bounded stand-in driver exists under vlib/bounded but is not registered, because a bounded-only check would be a different technique)'
NA['C06'] = 'no deductive obligation built yet for this property in this build (a bounded stand-in driver exists under vlib/bounded but is not registered, because a bounded-only check would be a different technique)'
NA['C07'] = 'no deductive obligation built yet for this property in this build (a bounded stand-in driver exists under vlib/bounded but is not registered, because a bounded-only check would be a different technique)'
NA['C08'] = 'no deductive obligation built yet for this property in this build (a bounded stand-in driver exists under vlib/bounded but is not registered, because a bounded-only check would be a different technique)'
NA['C09'] = 'no deductive obligation built yet for this property in this build (a bounded stand-in driver exists under vlib/bounded but is not registered, because a bounded-only check would be a different technique)'
NA['C10'] = 'no deductive obligation built yet for this property in this build (a bounded stand-in driver exists under vlib/bounded but is not registered, because a bounded-only check would be a different technique)'
NA['C11'] = 'no deductive obligation built yet for this property in this build (a bounded stand-in driver exists under vlib/bounded but is not registered, because a bounded-only check would be a different technique)'
NA['C12'] = 'no deductive obligation built yet for this property in this build (a bounded stand-in driver exists under vlib/bounded but is not registered, because a bounded-only check would be a different technique)'
NA['C13'] = 'no deductive obligation built yet for this property in this build (a bounded stand-in driver exists under vlib/bounded but is not registered, because a bounded-only check would be a different technique)'
NA['C16'] = 'no deductive obligation built yet for this property in this build (a bounded stand-in driver exists under vlib/bounded but is not registered, because a bounded-only check would be a different technique)'
NA['C17'] = 'no deductive obligation built yet for this property in this build (a bounded stand-in driver exists under vlib/bounded but is not registered, because a bounded-only check would be a different technique)'
NA['C18'] = 'no deductive obligation built yet for this property in this build (a bounded stand-in driver exists under vlib/bounded but is not registered, because a bounded-only check would be a different technique)'
NA['C19'] = 'no deductive obligation built yet for this property in this build (a bounded stand-in driver exists under vlib/bounded but is not registered, because a bounded-only check would be a different technique)'
NA['C20'] = 'no deductive obligation built yet for this property in this build (a bounded stand-in driver exists under vlib/bounded but is not registered, because a bounded-only check would be a different technique)'

# Edited by hand; read by tools/gen_manifest.py.
T_ASSUME = 'Trusted: pyvc encoder (tested by canaries/mutants/differential runs), z3, cvc5, CPython semantics as modelled in vlib/pyvc/lib.py; partial correctness only. '

claim('C01', 'other', 'contract-based deductive verification: VCs generated from the real source by symbolic execution (pyvc), discharged by z3/cvc5; fold induction for n-ary operators; loop invariants for both evaluators over the contract of top_sort; bounded stand-in for the thin wrappers',
      'Unbounded proof that every operator, every GateType constant and every foreign gate table (synthesis codes, arithmetic codes) denotes the one fixed OP(t) for all Boolean arguments and all arities; '
      'bench conversion and pattern simulation likewise; evaluate_full_circuit AND the stack-based evaluate_circuit are proved to return den for every gate / requested output of every well-formed circuit (loop invariants; top_sort by its contract, proved under C20). The public entry points Circuit.evaluate(inputs) and Circuit.evaluate_at(inputs, j) are proved against the contract of evaluate_circuit: value j is den of output j with input i read from inputs[i]. The truth-table builders (2^n loops) are exercised by the bounded stand-in, so the claim is not `proof`.',
      T_ASSUME + 'Bounded part: circuits with <=2 gates exhaustive, seeded random up to 7 gates.', 'DESIGN.md §6 C01')
claim('C05', 'other', 'contract-based deductive verification of the Tseytin transformation: templates (loop invariants over a CNF view), both loops of tseytin_transformation by invariants and the memoised recursion process_gate by its contract on an arbitrary circuit; bounded brute force for whole circuits',
      'Every _process_* template is proved equivalent to top = OP(t)(lits) for all literals (and/nand/or/nor for every arity by loop invariant, xor/nxor for arities 2..5). tseytin_transformation is proved on an ARBITRARY well-formed circuit and any selection of outputs '
      '(gate arities under contract: fixed-arity types, n-ary types with 2 or 3 operands, constants without operands): the i-th input is variable i+1, literals are injective, encoded gates are closed under operands, and for every valuation the CNF is satisfied exactly when every encoded gate '
      'obeys its gate equation and every selected output is true (invariants of both loops; process_gate verified against its contract per gate type/arity, recursive calls by the contract). Rule R2 lifts this to the statement about evaluation. '
      'The solver hand-back (is_circuit_satisfiable), larger arities inside whole circuits and the end-to-end statement are exercised by the bounded stand-in, so the claim is not `proof`.',
      T_ASSUME + 'SAT solver soundness/completeness assumed (python-sat absent; z3-backed shim in the bounded layer); proof rule for recursive procedures (partial correctness); rule R2.', 'DESIGN.md §6 C05')
claim('C14', 'other', 'contract-based deductive verification on an abstract heap (state as substitution): convert_gate with all callees inlined (WF/frame/local-equation obligations, loop invariant by prefix-count view) and into_bench as a whole by a loop invariant with convert_gate used through its contract; bounded stand-in end to end',
      'For an arbitrary well-formed circuit and an arbitrary gate of each of the 18 types, convert_gate preserves WF (users multiset, inputs, outputs, acyclicity via ghost rank, blocks), '
      'changes only that gate plus one fresh helper, keeps the local gate equation, leaves only bench types and puts the helper into the blocks of the gate — proved for all circuits. '
      'into_bench as a whole is proved on an arbitrary circuit by a loop invariant with convert_gate used through that contract: WF kept, only bench types remain, original gates, inputs and outputs kept, '
      'and every valuation satisfying the new gate equations satisfies the original ones (rule R2 turns this into truth-table preservation). The end-to-end statement is additionally exercised by the bounded stand-in.',
      T_ASSUME + 'Proof rule R2 (DAG induction) lifts the local equation to truth-table preservation; ARITY precondition on the converted gate.', 'DESIGN.md §6 C14')
claim('C15', 'other', 'contract-based deductive verification of the three-valued operator tables (monotonicity/totality VCs, fold induction) and of both evaluation loops under partial assignments (loop invariants: totality, soundness w.r.t. every completion); bounded stand-in for circuit-level monotonicity',
      'Every operator is proved monotone w.r.t. the information order and total on total arguments for all argument values; n-ary operators are proved to be folds of their binary case for every arity; '
      'the totality clause is proved at circuit level for every well-formed circuit: under a total Boolean assignment evaluate_full_circuit leaves no gate Undefined and evaluate_circuit leaves no requested output Undefined (the C01 loop invariants). '
      'Soundness at circuit level is proved for evaluate_full_circuit and for the stack-based evaluate_circuit: for every well-formed circuit, every PARTIAL assignment (inputs missing or Undefined) and every completion of it, each returned value is Undefined or equals the value under the completion. '
      'Monotonicity in the assignment at circuit level is checked by the bounded stand-in over all 3^n partial assignments of enumerated circuits.',
      T_ASSUME + 'Background lemma: folds of monotone steps are monotone.', 'DESIGN.md §6 C15')
NA['C02'] = 'no deductive obligation built yet for this property in this build (a bounded stand-in driver exists under vlib/bounded but is not registered, because a bounded-only check would be a different technique)'
NA['C03'] = 'no deductive obligation built yet for this property in this build (a bounded stand-in driver exists under vlib/bounded but is not registered, because a bounded-only check would be a different technique)'
NA['C04'] = 'no deductive obligation built yet for this property in this build (a bounded stand-in driver exists under vlib/bounded but is not registered, because a bounded-only check would be a different technique)'
NA['C06'] = 'no deductive obligation built yet for this property in this build (a bounded stand-in driver exists under vlib/bounded but is not registered, because a bounded-only check would be a different technique)'
NA['C07'] = 'no deductive obligation built yet for this property in this build (a bounded stand-in driver exists under vlib/bounded but is not registered, because a bounded-only check would be a different technique)'
NA['C08'] = 'no deductive obligation built yet for this property in this build (a bounded stand-in driver exists under vlib/bounded but is not registered, because a bounded-only check would be a different technique)'
NA['C09'] = 'no deductive obligation built yet for this property in this build (a bounded stand-in driver exists under vlib/bounded but is not registered, because a bounded-only check would be a different technique)'
NA['C10'] = 'no deductive obligation built yet for this property in this build (a bounded stand-in driver exists under vlib/bounded but is not registered, because a bounded-only check would be a different technique)'
NA['C11'] = 'no deductive obligation built yet for this property in this build (a bounded stand-in driver exists under vlib/bounded but is not registered, because a bounded-only check would be a different technique)'
NA['C12'] = 'no deductive obligation built yet for this property in this build (a bounded stand-in driver exists under vlib/bounded but is not registered, because a bounded-only check would be a different technique)'
NA['C13'] = 'no deductive obligation built yet for this property in this build (a bounded stand-in driver exists under vlib/bounded but is not registered, because a bounded-only check would be a different technique)'
NA['C16'] = 'no deductive obligation built yet for this property in this build (a bounded stand-in driver exists under vlib/bounded but is not registered, because a bounded-only check would be a different technique)'
NA['C17'] = 'no deductive obligation built yet for this property in this build (a bounded stand-in driver exists under vlib/bounded but is not registered, because a bounded-only check would be a different technique)'
NA['C18'] = 'no deductive obligation built yet for this property in this build (a bounded stand-in driver exists under vlib/bounded but is not registered, because a bounded-only check would be a different technique)'
NA['C19'] = 'no deductive obligation built yet for this property in this build (a bounded stand-in driver exists under vlib/bounded but is not registered, because a bounded-only check would be a different technique)'
NA['C20'] = 'no deductive obligation built yet for this property in this build (a bounded stand-in driver exists under vlib/bounded but is not registered, because a bounded-only check would be a different technique)'

# ---- added after the heap model landed
import re as _re
for _k in ('C02', 'C07', 'C09'):
    NA.pop(_k, None)
claim('C02', 'other', 'contract-based deductive verification (class-invariant rule R5) on an abstract heap: real mutator bodies symbolically executed, WF clauses discharged by z3/cvc5; prefix-count / closed-form / havoc loop invariants (arbitrary arity, lists of any length, top_sort through its contract for copy), modular call rule for the users-index primitives and convert_gate',
      'For an arbitrary well-formed circuit: _add_user/_remove_user meet the contracts used at their call sites; _emplace_gate, _add_gate, emplace_gate, add_gate (gate of any type and ANY arity), remove_gate/_remove_gate (incl. blocks and outputs), '
      'rename_gate (arbitrary arity, any number of users, repeated outputs, blocks; three loops cut by closed-form invariants), into_bench (loop invariant, convert_gate through its contract proved under C14), set_inputs (lists of any length), add_inputs (<=2 labels), copy.copy / __copy__ (the copy has the same gates, inputs, outputs and generic block, is well formed, shares no container with the original, which stays untouched), order_inputs / order_outputs with utils.order_list (lists of any length, requested prefix <=3), make_block with given lists (<=2 labels each), mark_as_output, set_outputs, delete_block preserve every WF clause, with exact raise conditions and untouched state on raise — proved for all circuits; converters: see C14. '
      'The other public mutators (replace_inputs: C19, make_block with collected inputs, make_block_from_slice, remove_block, connect_circuit family, replace_subcircuit) and whole histories are exercised by the bounded stand-in, so the claim is not `proof`.',
      T_ASSUME + 'Abstract model of the five Circuit containers (count/positional views); background lemmas on tuple counts; histories: bounded (<=2 calls exhaustive + random <=6).', 'DESIGN.md §6 C02')
claim('C07', 'other', 'contract-based deductive verification on an abstract host circuit: generator + circuit code symbolically executed, value equation / freshness frame / WF / basis obligations discharged by z3',
      'Leaf gadgets (sum2/3, aig variants, stockmeyer, mdfa, simplified mdfa) proved for all operand values, all hosts and operand aliasing; add_sum_n_bits (n<=5 quick / 7 thorough, both bases, several spellings), add_sum_two_numbers and _with_shift '
      'proved per width (width-bounded, universal in values and hosts); weighted-sum generators (SortedList work lists), pow2_m1 and size bounds are bounded-only.',
      T_ASSUME + 'uuid4 draws are pairwise distinct; retry loops cut with the trivial invariant.', 'DESIGN.md §6 C07')
claim('C09', 'other', 'contract-based deductive verification on an abstract host circuit (as C07)',
      'add_sub2/3, add_sub_two_numbers, add_subtract_with_compare (widths <=3, both endiannesses), add_equal (n<=3, all constants incl. negative / too large), add_plus_one (outputs only when asked), add_if_then_else, pairwise xor / ite: '
      'value equations, freshness frame and WF proved for all operand values and hosts (width-bounded); div-mod, sqrt and larger widths bounded-only.',
      T_ASSUME + 'callee contract of order_inputs/order_outputs (permutation, requested labels first; bodies verified under C02 for short requests); uuid4 draws pairwise distinct.', 'DESIGN.md §6 C07/C08/C09')

for _k in ('C03', 'C06', 'C13', 'C18', 'C19'):
    NA.pop(_k, None)
claim('C03', 'other', 'contract-based deductive verification of RemoveRedundantGates on an arbitrary circuit (dfs through its contract, hook calls cut by an invariant, filter views for the input comprehensions) and of the merge keys: MergeDuplicateGates._build_signature (nested function extracted from the AST), MergeUnaryOperators operand getter; bounded stand-in for the other passes',
      'RemoveRedundantGates._transform, both settings of allow_inputs_removal, proved for every well-formed circuit whose INPUT gates carry no operands: the result is a new circuit whose gates are exactly the gates reachable from the outputs (plus every input unless removal was requested) with unchanged types and operand tuples, '
      'the same outputs in the same order, the kept inputs in their original order (all of them without removal), well formed, and the argument is not modified (rule R2 then gives the identical truth table). '
      'Merge keys, proved for every gate type, arities <=3 and every aliasing of operands: equal signatures imply equal type and equal value of OP on the operand lists (what makes merging sound), different types never share a signature; the unary operand getter reads exactly the operand OP depends on. '
      'The rebuilds of the other passes, pipelines, cleanup, "never more gates" and the public transform() wrapper are bounded-only.',
      T_ASSUME + 'axiom of sorted() on labels; contract of Circuit.dfs (proved under C20); semantics of the filter comprehension (order-preserving sub-list); rule R2.', 'DESIGN.md §6 C03/C18')
claim('C18', 'other', 'contract-based deductive verification of RemoveRedundantGates (exactly the reachable gates) and of the duplicate-detection key (normal-form direction); bounded stand-in for the other normal forms and the pipeline algebra',
      'Proved for every well-formed circuit: RemoveRedundantGates returns exactly the gates reachable from the outputs, plus all inputs unless their removal was requested, with unchanged definitions (so applying it twice changes nothing more). '
      'Proved: gates of equal type with equal operand lists, or equal up to order for symmetric types, get equal signatures (arities <=3, all aliasing), the local fact behind the MergeDuplicateGates normal form. '
      'MEG/MUO normal forms, idempotence runs and pipeline = sequencing are bounded-only.',
      T_ASSUME + 'axiom of sorted() on labels; contract of Circuit.dfs (proved under C20).', 'DESIGN.md §6 C03/C18')
claim('C06', 'other', 'contract-based deductive verification of clause families of the SAT encoding (real methods run on a CNF view, all valuations); bounded brute force for global soundness/completeness',
      'Proved from the real source: _add_exactly_one_of is "exactly one" for 1..5 literals; fix_gate(gate_type=t) forces the table of OP(t) for every binary gate type; fix_gate with a single predecessor and forbid_wire exclude exactly the documented predecessor pairs. '
      'The global theorem (model exists iff circuit exists, under constraints) is bounded: brute force over small shapes with the z3-backed solver shim.',
      T_ASSUME + 'IDPool injective; SAT solver sound and complete.', 'DESIGN.md §6 C06')
claim('C13', 'other', 'contract-based deductive verification of the comparison stage (add_pairwise_xor on an abstract host) and of the shape check of build_miter; bounded stand-in for composed miters',
      'Proved: add_pairwise_xor adds fresh XOR gates computing the pointwise difference (n<=3, all aliasing, WF kept); build_miter raises MiterDifferentShapesError exactly for mismatched shapes before touching its operands. '
      'The composition steps and the evaluated miter are bounded-only.',
      T_ASSUME, 'DESIGN.md §6 C13')
claim('C19', 'other', 'contract-based deductive verification on the abstract heap: remove_gate, replace_inputs (incl. order of the remaining inputs) and rename_gate (closed-form loop invariants, ghost lemmas); bounded stand-in for replace_subcircuit',
      'Proved for an arbitrary well-formed circuit: remove_gate succeeds exactly for an existing unused gate, removes it from gates/users/inputs/outputs, drops blocks naming it and keeps WF; replace_inputs (<=2 labels per list) retypes exactly the listed inputs to the constants, '
      'removes them from the input list keeping the other inputs in their original order, leaves every other gate, the users index, outputs and blocks untouched, keeps WF, with exact raise conditions; rename_gate maps the whole state to its image under old -> new (gates, operand tuples position-wise, users counts, inputs and outputs position-wise, block lists), keeps WF, '
      'raises exactly for an absent old / present new label and then leaves the state untouched. replace_subcircuit is bounded-only (the cofactor statement follows from the retyping by rule R2); Block._rename_gate is proved position-wise for lists up to (2,3,2) and used by a count-level summary at its call site.',
      T_ASSUME + 'proof rule R2 for the cofactor claim; representation lemmas of lists (lean/Background.lean).', 'DESIGN.md §6 C19')

for _k in ('C08', 'C16'):
    NA.pop(_k, None)
claim('C08', 'other', 'contract-based deductive verification on an abstract host circuit (as C07), including a model of the sorted work lists with all tie-breaking orders; bounded stand-in for every larger width',
      'All seven multiplier entry points (default, alter, both Karatsuba forms, Dadda, Wallace, pow2_m1) and add_square are proved exact for operands of 1..2 bits (3 in thorough): product value, result length, fresh gates only, WF — for all operand values, all hosts and operand aliasing. '
      'Everything wider, in particular the Karatsuba / squarer recursion, is bounded-only (exhaustive values up to 16 bits total, corner and random values at the recursion widths).',
      T_ASSUME + 'operand labels are not the generators\' sentinel strings; uuid4 draws pairwise distinct.', 'DESIGN.md §6 C07/C08/C09')
claim('C16', 'other', 'contract-based deductive verification of the bit-level codec (single-step contracts over a byte-array model, loop invariants over an abstract bit-stream view for numbers of every width, Lean-checked round-trip lemma) and of the code tables; bounded stand-in for records and circuits',
      'Proved for all byte contents and positions: BitWriter.write appends exactly the given bit and keeps the writer invariant; BitReader.read returns the bit at the position, advances by one and raises BitIOError exactly at the end; '
      'write_number(n, k) on an arbitrary writer state accepts exactly 0 <= n < 2^k and appends the k little-endian bits, read_number(k) on an arbitrary reader state returns the next k bits as a little-endian number, advances by k and raises exactly when fewer than k bits are left — '
      'both for EVERY width k >= 0 (loop invariants over the abstract bit-stream view; write() through its proved stream contract) and again for the widths {0,1,2,3,7,8,9,12} with unrolled loops (stated on the bytes, which gives counter-models for broken variants); read_number(write_number(n,k)) = n (Lean lemma for every k, SMT for the listed widths); '
      'gate-type codes are injective/inverse and _get_arity is the table the format defines. Dictionary records, circuit encodings and database files are bounded-only.',
      T_ASSUME + 'background lemma on disjoint-bit OR (side condition proved).', 'DESIGN.md §6 C16')

for _k in ('C10', 'C12'):
    NA.pop(_k, None)
claim('C10', 'other', 'contract-based deductive verification of connect_circuit in left mode without a block name on two arbitrary circuits (loop invariant over the contract of top_sort, name map, filter / mapped / concatenated list views) and of the five composition wrappers against the callee contract of connect_circuit (argument forwarding); bounded stand-in for the other modes',
      'connect_circuit(other, this_connectors, other_connectors) with right_connect=False and name=\'\', up to 2 connector pairs, self and other arbitrary well-formed circuits (other without blocks), proved: the gates of other are copied under their own labels except the connector inputs; '
      'a copied gate keeps type and arity and operand j is operand j of the original with every connector replaced by the chosen gate of self; gates of self are unchanged; outputs = outputs of self not among the this-connectors plus outputs of other not among the other-connectors; '
      'inputs = the inputs of self in their order followed by the unconnected inputs of other; WF is kept; other is not modified; only CircuitValidationError (block named \'\' exists, connector missing, label clash — with the clashing label as witness) or CreateBlockError (repeated / non-input connector) can be raised. '
      'Rule R2 turns the copied definitions into the composed function. The five wrappers (connect_left, connect_right, connect_inputs, extend_circuit in all eight given/defaulted combinations and both directions, add_circuit) are proved to call connect_circuit exactly once with the documented arguments. '
      'Right-connect mode (one known finding is listed for it), named blocks with prefixes, blocks of the attached circuit and more connector pairs are bounded-only (enumerated pairs against the composition oracle).',
      T_ASSUME + 'contract of top_sort (proved under C20); ghost rank bound of the base circuit; semantics of filter / map comprehensions and list concatenation as order-preserving views.', 'DESIGN.md §6 C10')
claim('C12', 'other', 'contract-based deductive verification of the canonical-index helpers (digit-string and power-of-two models); bounded stand-in (exhaustive small functions) for the protocol queries',
      'Proved for all values: input_to_canonical_index is the big-endian value of 0..5 input bits; get_bit_value(v, i, n) is bit n-1-i of v. The twelve protocol queries of the three representations, model completion and integer wrappers are bounded-only '
      '(all functions with n<=2, m<=2 quick; n<=3, m<=2 thorough, exhaustive).',
      T_ASSUME + 'background lemmas on shifts by powers of two.', 'DESIGN.md §6 C12')

for _k in ('C11', 'C17'):
    NA.pop(_k, None)
claim('C11', 'other', 'contract-based deductive verification in the string theories of z3/cvc5: line classification and name/label extraction of the bench parser for every identifier label; operator dispatch against the results of the two string parsers; bounded stand-in for operand splitting and whole texts',
      'Proved for EVERY identifier label (incl. labels beginning with input/output/vdd/buff): printed gate lines are classified as gate definitions, INPUT(..)/OUTPUT(..) lines as declarations, comments and blanks ignored; _parse_name_gate returns exactly (label, body) for several separator layouts; '
      'the declaration handlers recover exactly the label; the operator dispatch stores, for every operator name incl. the BUFF / vdd aliases, exactly one gate with the label, the denoted gate type and the operands in textual order. '
      'Operand splitting (_parse_operator_gate) and whole-text round trips / free layouts are bounded-only.',
      T_ASSUME + 'axioms of str.strip/find/slicing/upper as encoded.', 'DESIGN.md §6 C11')
claim('C17', 'other', 'contract-based deductive verification of the normalise/denormalise pair (real code incl. list.sort(key) symbolically executed on an interpreted Circuit, all comparison outcomes); bounded/exhaustive stand-in for the stored data and lookups',
      'Proved for every truth table of the shapes 1x2, 1x4, 2x2, 2x4, 3x2 (3x4 in thorough), all entry values: if a circuit computes the normalised rows then after denormalize() its outputs compute the original rows in the original order; normalised rows start with 0. '
      'Database contents (thorough: all 699,448 entries, exhaustive) and the lookup functions incl. don\'t-cares are bounded-only.',
      T_ASSUME + 'model of list.sort as a stable sort.', 'DESIGN.md §6 C17')
NA['C04'] = ('no contract within reach can decide it: minimize_subcircuits needs the absent C++ cut enumerator, a SAT solver in a forked process pool, uuid, deepcopy and hash-order dependent set iteration; its gate-interpreting component '
             '_PatternOperations.eval_pattern is proved under C01 (c01_extra), circuit_search clause families under C06, replace_subcircuit is bounded under C19. A bounded driver with stand-in shims exists (vlib/bounded/C04.py) but is not registered: it would be a different technique resting on a guessed cut enumerator.')
NA['C20'] = ('no deductive obligation built: Kahn-style top_sort (multiset in-degree bookkeeping over users lists, generator) and the three-state work-list traversal with hooks need inductive invariants that were not completed; '
             'the top_sort contract is ASSUMED by the C01 proof of evaluate_full_circuit and exercised by the unregistered bounded driver vlib/bounded/C20.py (all multigraph DAGs up to 3 nodes + random, both directions, all hook combinations).')

NA.pop('C20', None)
claim('C20', 'other', 'contract-based deductive verification of Kahn-style top_sort in both directions (inductive loop invariants with ghost yielded set, counting function and prefix counts; rule R2 for completeness) and of dfs / bfs (three-state map and work-list multiset invariants, reachability as least closed set); bounded stand-in for hooks, visiting order and the cycle check',
      'Proved from the real generator source for an arbitrary well-formed circuit. top_sort, both values of `inverse`: every yielded element is a gate, none is yielded twice, each is yielded strictly after all of its predecessors (operands, resp. users), '
      'the work list never holds a gate twice, no KeyError/IndexError, CircuitIsCyclicalError only if no predecessor-free gate exists, and the completeness step (an unyielded gate has an unyielded predecessor), which rule R2 lifts to "every gate is yielded". '
      'dfs and bfs, both directions, from an arbitrary start sequence of gates or the default one, default hooks: every yielded gate lies in every set that contains the start gates and is closed under successors, the yielded set contains the start gates and is closed under successors '
      '(so it is exactly the reachable set), no gate is yielded twice, nothing raises, the circuit is untouched. '
      'DFS hook discipline, both directions, arbitrary start gates (positional stack model, recording ghost hooks): every gate gets at most one enter hook and one exit hook, the exit hook after the enter hook, exit hooks fire in post-order (all successors have exited), and every entered gate has exited when the generator stops. '
      'The unvisited hook, the other hooks, the BFS visiting order and check_circuit_has_no_cycles are bounded-only (all multigraph DAGs up to 3 nodes + random, all start sets, hooks that read the state map).',
      T_ASSUME + 'background lemmas on finite counting; rule R2; work lists modelled as bags / multisets with arbitrary pop order (sound for the stated clauses).', 'DESIGN.md §6 C20')

#!/usr/bin/env python3
"""Regenerates MANIFEST.json from the table below (kept here so that the file stays valid and consistent)."""
import json, os, subprocess
HERE = os.path.dirname(os.path.dirname(os.path.abspath(__file__)))
props = [json.loads(l) for l in open(os.path.join(HERE, 'properties.jsonl'))]
TITLE = {p['id']: p['title'] for p in props}

# id -> (category, technique, level text, level note, design_ref)   or   id -> reason (not applicable)
CLAIMS = {}
NA = {}

def claim(pid, cat, technique, text, note, ref):
    CLAIMS[pid] = (cat, technique, text, note, ref)

exec(open(os.path.join(HERE, 'tools', 'claims.py')).read())

fixes = []
try:
    out = subprocess.run(['git', '-C', '/repo', 'log', '--format=%h %s', '26433d8..HEAD'], capture_output=True, text=True).stdout
    fixes = [l for l in out.splitlines() if l.split(' ', 1)[1].startswith('fix:')]
except Exception:
    pass
m = {
    'version': 1,
    'setup_cmd': 'bin/setup',
    'hooks': {'guard': 'CIRBO_VERIF', 'enable': 'no hooks: contracts are sidecar files under /verif/vlib (props/, pyvc/); /repo is parsed, never instrumented',
              'baseline_off_cmd': 'cd /repo && /venv/bin/python -m pytest -ra -q -p no:cacheprovider --timeout=900 --continue-on-collection-errors',
              'source_commits': [], 'add_only': True},
    'engines': [
        {'name': 'pyvc', 'path': 'vlib/pyvc', 'serves_properties': sorted(CLAIMS),
         'kind_free_text': 'verification-condition generator: symbolic execution of the real Python AST of /repo (re-read every run) against sidecar contracts; obligations discharged by z3 then cvc5; counter-models replayed on the real code'},
        {'name': 'bounded', 'path': 'vlib/bounded', 'serves_properties': sorted(CLAIMS),
         'kind_free_text': 'bounded stand-in: run-time contract checks of the real functions against the independent spec evaluator over enumerated / seeded inputs; labelled bounded, never counted as proved'},
    ],
    'checks': [],
    'not_applicable': [{'property_id': k, 'reason': v} for k, v in sorted(NA.items())],
    'notes': 'Repairs of genuine defects found by the checks are unguarded "fix:" commits in /repo: ' + '; '.join(fixes) + '. See known_findings.txt and DESIGN.md §7.',
}
for pid in sorted(CLAIMS):
    cat, technique, text, note, ref = CLAIMS[pid]
    m['checks'].append({
        'property_id': pid,
        'quick_cmd': f'bin/check {pid} --tier quick',
        'thorough_cmd': f'bin/check {pid} --tier thorough',
        'evidence_file': f'evidence/{pid}.json',
        'replay_cmd_template': 'bin/replay {path}',
        'engine': 'pyvc',
        'level_claimed': {'category': cat, 'text': text, 'design_ref': ref},
        'level_note': note,
        'technique': technique,
    })
json.dump(m, open(os.path.join(HERE, 'MANIFEST.json'), 'w'), indent=1)
print('claimed', sorted(CLAIMS), 'n/a', sorted(NA))

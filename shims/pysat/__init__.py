"""Minimal stand-in for python-sat (absent from this sandbox). ASSUMPTION, listed in evidence:
only the API surface cirbo uses; the solver is z3's SAT core (sound and complete for CNF)."""
__version__ = 'verif-shim'

import z3


class SolverNames:
    pass


class Solver:
    """z3-backed CNF solver exposing the subset of pysat.solvers.Solver that cirbo calls."""

    def __init__(self, name='cadical195', bootstrap_with=None, **_):
        self._clauses = []
        self._model = None
        self._status = None
        if bootstrap_with is not None:
            self.append_formula(bootstrap_with)

    def __enter__(self):
        return self

    def __exit__(self, *a):
        self.delete()
        return False

    def add_clause(self, clause, **_):
        self._clauses.append(list(clause))

    def append_formula(self, formula, **_):
        for c in (formula.clauses if hasattr(formula, 'clauses') else formula):
            self._clauses.append(list(c))

    def solve(self, assumptions=()):
        nv = max((abs(l) for c in self._clauses for l in c), default=0)
        nv = max([nv] + [abs(a) for a in assumptions])
        xs = [None] + [z3.Bool('x%d' % i) for i in range(1, nv + 1)]
        s = z3.Solver()
        for c in self._clauses:
            s.add(z3.Or([xs[l] if l > 0 else z3.Not(xs[-l]) for l in c]) if c else z3.BoolVal(False))
        for a in assumptions:
            s.add(xs[a] if a > 0 else z3.Not(xs[-a]))
        r = s.check()
        if r == z3.sat:
            m = s.model()
            self._model = [i if z3.is_true(m.eval(xs[i], model_completion=True)) else -i for i in range(1, nv + 1)]
            self._status = True
        elif r == z3.unsat:
            self._model = None
            self._status = False
        else:
            raise RuntimeError('shim solver: unknown')
        return self._status

    def get_model(self):
        return self._model

    def delete(self):
        self._clauses = []

class CNF:
    def __init__(self, from_clauses=None, **_):
        self.clauses = [list(c) for c in (from_clauses or [])]
        self.nv = max((abs(l) for c in self.clauses for l in c), default=0)

    def append(self, clause, **_):
        clause = list(clause)
        self.clauses.append(clause)
        for l in clause:
            if abs(l) > self.nv:
                self.nv = abs(l)

    def extend(self, clauses):
        for c in clauses:
            self.append(c)

    def __iter__(self):
        return iter(self.clauses)

    def __len__(self):
        return len(self.clauses)


class IDPool:
    def __init__(self, start_from=1, occupied=()):
        self.top = start_from - 1
        self.obj2id = {}
        self.id2obj = {}

    def id(self, obj=None):
        if obj is None:
            self.top += 1
            return self.top
        if obj not in self.obj2id:
            self.top += 1
            self.obj2id[obj] = self.top
            self.id2obj[self.top] = obj
        return self.obj2id[obj]

    def obj(self, vid):
        return self.id2obj.get(vid)

"""Stand-in for the absent C++ extension `mockturtle_wrapper`. ASSUMPTION, listed in evidence.

enumerate_cuts(bench_text, cut_size, cut_limit, fanin_limit) -> dict[node_label, list[list[leaf_label]]]
A plain bottom-up k-feasible cut enumeration over the bench netlist. The family can be
perturbed through VERIF_CUT_MODE (all | shuffled:<seed> | thinned:<seed>) because C04
quantifies over whatever valid family the enumerator supplies."""
import os
import random
import re


def _parse(text):
    inputs, gates, order = [], {}, []
    for line in text.splitlines():
        line = line.strip()
        if not line or line.startswith('#'):
            continue
        m = re.match(r'^INPUT\((.*)\)$', line)
        if m and '=' not in line:
            inputs.append(m.group(1).strip())
            continue
        if re.match(r'^OUTPUT\((.*)\)$', line) and '=' not in line:
            continue
        name, rhs = line.split('=', 1)
        name = name.strip()
        m = re.match(r'^\s*([A-Za-z0-9_]+)\((.*)\)\s*$', rhs)
        ops = [o.strip() for o in m.group(2).split(',') if o.strip()]
        gates[name] = ops
        order.append(name)
    return inputs, gates, order


def enumerate_cuts(bench_text, cut_size=5, cut_limit=20, fanin_limit=10, *a, **k):
    inputs, gates, order = _parse(bench_text)
    done = {}
    cuts = {i: [frozenset([i])] for i in inputs}

    def visit(n):
        if n in cuts:
            return
        stack = [n]
        while stack:
            x = stack[-1]
            if x in cuts:
                stack.pop()
                continue
            pend = [o for o in gates.get(x, []) if o not in cuts]
            if pend:
                stack.extend(pend)
                continue
            ops = gates.get(x, [])
            acc = [frozenset()]
            for o in ops:
                acc = list({a | c for a in acc for c in cuts[o] if len(a | c) <= cut_size})
            res = [frozenset([x])] + sorted((c for c in set(acc) if c and c != frozenset([x])), key=lambda c: (len(c), sorted(c)))
            cuts[x] = res[: cut_limit + 1]
            stack.pop()

    for g in order:
        visit(g)
    mode = os.environ.get('VERIF_CUT_MODE', 'all')
    out = {}
    for g in order:
        fam = [sorted(c) for c in cuts[g] if c != frozenset([g])]
        if mode.startswith('shuffled:'):
            random.Random(int(mode.split(':')[1]) ^ hash(g) & 0xffff).shuffle(fam)
        elif mode.startswith('thinned:'):
            r = random.Random(int(mode.split(':')[1]) ^ hash(g) & 0xffff)
            fam = [c for c in fam if r.random() < 0.6]
        out[g] = fam
    return out

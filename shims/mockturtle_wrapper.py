"""Stand-in for the absent C++ extension `mockturtle_wrapper`. ASSUMPTION, listed in evidence.

enumerate_cuts(bench_text, cut_size, cut_limit, fanin_limit) -> dict[node_label, list[list[leaf_label]]]

The return format follows the repository's own test of the real extension
(/repo/tests/extensions/mockturtle_wrapper/test_cuts.py) and its C++ source
(/repo/extensions/mockturtle_wrapper/src/cut_enumerates.hpp):
  * one key per node INCLUDING the primary inputs (an input has exactly its unit cut [[x]]);
  * every gate's list ends with its unit (trivial) cut [g];
  * leaves inside a cut are ordered by node index (inputs in INPUT order, then gates in definition order);
  * the non-trivial cuts of a gate are the unions of one cut per fan-in (unit cuts included), at most
    `cut_size` leaves, dominated cuts removed, kept sorted by size (a new cut is placed before the
    existing cuts of the same size) -- this reproduces the expected value of test_cuts.py exactly;
  * at most cut_limit-1 non-trivial cuts per node are kept (priority-cut limit), and the cuts of a node are
    built only from the cuts its fan-ins KEPT.  Hence every family returned here is closed: for every cut C
    of n, each fan-in of n is a leaf of C or has itself a kept cut inside C.  `minimize_subcircuits` relies
    on this closure (it simulates a cone from the node sets of the sub-cuts of C).
The structural hashing of mockturtle's klut network (two gates with equal function and fan-ins share a
node, so one label vanishes from the result) is NOT emulated.

C04 quantifies over whatever valid family the enumerator supplies, so the family can be perturbed through
VERIF_CUT_MODE:
  all               the family described above
  shuffled:<seed>   same family, the list of every node in a seeded random order (unit cut anywhere)
  thinned:<seed>    every node keeps each non-trivial cut only with probability 0.6 BEFORE its fan-outs are
                    processed (what a smaller cut_limit does), so the family stays closed
"""
import itertools
import os
import random
import re
import zlib


def _parse(text):
    inputs, gates, order = [], {}, []
    for line in text.splitlines():
        line = line.strip()
        if not line or line.startswith('#'):
            continue
        m = re.match(r'^INPUT\((.*)\)$', line)
        if m and '=' not in line:
            inputs.append(m.group(1).strip())
            continue
        if re.match(r'^OUTPUT\((.*)\)$', line) and '=' not in line:
            continue
        name, rhs = line.split('=', 1)
        name = name.strip()
        m = re.match(r'^\s*([A-Za-z0-9_]+)\((.*)\)\s*$', rhs)
        ops = [o.strip() for o in m.group(2).split(',') if o.strip()]
        gates[name] = ops
        order.append(name)
    return inputs, gates, order


def _rng(mode_seed, label):
    return random.Random((int(mode_seed) << 32) ^ zlib.crc32(label.encode('utf-8')))


def enumerate_cuts(bench_text, cut_size=5, cut_limit=20, fanin_limit=10, *a, **k):
    inputs, gates, order = _parse(bench_text)
    mode = os.environ.get('VERIF_CUT_MODE', 'all')
    kind, _, seed = mode.partition(':')
    seed = seed or '0'

    # processing order: a gate is created once all its operands exist (what lorina's reader does)
    index = {x: i for i, x in enumerate(inputs)}
    topo, pending = [], list(order)
    while pending:
        rest = []
        for g in pending:
            if all(o in index for o in gates[g]):
                index[g] = len(index)
                topo.append(g)
            else:
                rest.append(g)
        if len(rest) == len(pending):
            raise ValueError('bench text is cyclic or uses undefined signals: %r' % rest)
        pending = rest

    kept = {x: [frozenset([x])] for x in inputs}        # cuts a node offers to its fan-outs (unit cut last)
    for g in topo:
        ops = gates[g]
        found = []
        if 0 < len(ops) <= fanin_limit:
            for combo in itertools.product(*[kept[o] for o in ops]):
                new = frozenset().union(*combo)
                if len(new) > cut_size:
                    continue
                if any(c <= new for c in found):
                    continue                              # dominated by an existing cut
                found = [c for c in found if not new <= c]
                pos = next((i for i, c in enumerate(found) if len(c) >= len(new)), len(found))
                found.insert(pos, new)
        found = found[: max(cut_limit - 1, 0)]
        if kind == 'thinned':
            r = _rng(seed, g)
            found = [c for c in found if r.random() < 0.6]
        kept[g] = found + [frozenset([g])]

    out = {}
    for n in inputs + topo:
        fam = [sorted(c, key=index.__getitem__) for c in kept[n]]
        if kind == 'shuffled':
            _rng(seed, n).shuffle(fam)
        out[n] = fam
    return out

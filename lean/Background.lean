/-
Background lemmas assumed by the SMT encodings of pyvc (DESIGN §3.5), checked by Lean 4 (core library only,
no Mathlib import, so the file compiles in seconds).  `lean Background.lean` must succeed with no error.
-/
set_option linter.unusedSimpArgs false

-- (2^s * t) >> s = t
theorem shiftRight_mul_pow (s t : Nat) : (2 ^ s * t) >>> s = t := by
  rw [Nat.shiftRight_eq_div_pow]
  exact Nat.mul_div_cancel_left t (Nat.two_pow_pos s)

-- testing bit s of x through  x / 2^s % 2
theorem testBit_eq_div_mod (x s : Nat) : x.testBit s = ((x / 2 ^ s) % 2 == 1) := by
  simp [Nat.testBit, Nat.shiftRight_eq_div_pow, Nat.and_one_is_mod, bne_iff_ne]

-- a fold of a monotone step is monotone (relation `le` on accumulators, `lea` on elements, lists of equal length)
inductive Rel2 {α : Type} (r : α → α → Prop) : List α → List α → Prop
  | nil : Rel2 r [] []
  | cons {x y xs ys} : r x y → Rel2 r xs ys → Rel2 r (x :: xs) (y :: ys)

theorem foldl_mono {α β : Type} (le : β → β → Prop) (f : β → α → β) (lea : α → α → Prop)
    (hf : ∀ a a' x x', le a a' → lea x x' → le (f a x) (f a' x')) :
    ∀ (xs ys : List α), Rel2 lea xs ys → ∀ (a a' : β), le a a' → le (xs.foldl f a) (ys.foldl f a') := by
  intro xs ys h
  induction h with
  | nil => intro a a' h; simpa using h
  | cons hxy _ ih => intro a a' h; simp only [List.foldl]; exact ih _ _ (hf a a' _ _ h hxy)

-- count view of a list: the count over a prefix never exceeds the full count …
theorem count_take_le {α : Type} [DecidableEq α] (l : List α) (k : Nat) (x : α) :
    (l.take k).count x ≤ l.count x :=
  (List.take_sublist k l).count_le x

-- … it is the full count at the end …
theorem count_take_length {α : Type} [DecidableEq α] (l : List α) (x : α) :
    (l.take l.length).count x = l.count x := by simp

-- … and grows by one exactly at a hit (the recursion of the prefix-count view pc(k+1, x))
theorem count_take_succ {α : Type} [DecidableEq α] (l : List α) (k : Nat) (x : α) (h : k < l.length) :
    (l.take (k + 1)).count x = (l.take k).count x + (if l[k] = x then 1 else 0) := by
  rw [List.take_add_one, List.count_append]
  simp [List.getElem?_eq_getElem h, List.count_singleton]

-- counting the positions of a list that are NOT in a set P (the ghost counting function of the top_sort proof)
def cntNotIn {α : Type} (P : α → Bool) : List α → Nat
  | [] => 0
  | a :: l => (if P a then 0 else 1) + cntNotIn P l

theorem cntNotIn_le {α : Type} (P : α → Bool) (l : List α) : cntNotIn P l ≤ l.length := by
  induction l with
  | nil => simp [cntNotIn]
  | cons a l ih => simp only [cntNotIn, List.length_cons]; split <;> omega

theorem cntNotIn_empty {α : Type} (l : List α) : cntNotIn (fun _ => false) l = l.length := by
  induction l with
  | nil => simp [cntNotIn]
  | cons a l ih => simp [cntNotIn, ih]; omega

theorem cntNotIn_zero_iff {α : Type} (P : α → Bool) (l : List α) : cntNotIn P l = 0 ↔ ∀ a ∈ l, P a = true := by
  induction l with
  | nil => simp [cntNotIn]
  | cons a l ih =>
    simp only [cntNotIn, List.mem_cons, forall_eq_or_imp]
    by_cases h : P a = true
    · simp [h, ih]
    · simp [h]

-- adding p ∉ P to P lowers the count by the number of occurrences of p
theorem cntNotIn_insert {α : Type} [DecidableEq α] (P : α → Bool) (p : α) (hp : P p = false) (l : List α) :
    cntNotIn (fun a => decide (a = p) || P a) l + l.count p = cntNotIn P l := by
  induction l with
  | nil => simp [cntNotIn]
  | cons a l ih =>
    by_cases h : a = p
    · subst h
      simp only [cntNotIn, List.count_cons_self, decide_true, Bool.true_or, hp]
      simp
      omega
    · have h' : (a == p) = false := by simp [h]
      simp only [cntNotIn, List.count_cons, h', decide_eq_false h, Bool.false_or]
      simp
      omega

-- hence an element outside P occurs at most cntNotIn times
theorem count_le_cntNotIn {α : Type} [DecidableEq α] (P : α → Bool) (p : α) (hp : P p = false) (l : List α) :
    l.count p ≤ cntNotIn P l := by
  have := cntNotIn_insert P p hp l
  omega

-- disjoint-bit OR is addition:  x ||| (b * 2^k) = x + b * 2^k  for x < 2^k, b ∈ {0,1}
theorem or_pow_eq_add (x k : Nat) (h : x < 2 ^ k) : x ||| 2 ^ k = x + 2 ^ k := by
  have := Nat.two_pow_add_eq_or_of_lt h 1
  simp at this
  rw [Nat.or_comm]
  omega

/-
Background lemmas assumed by the SMT encodings of pyvc (DESIGN §3.5), checked by Lean 4 (core library only,
no Mathlib import, so the file compiles in seconds).  `lean Background.lean` must succeed with no error.
-/
set_option linter.unusedSimpArgs false

-- (2^s * t) >> s = t
theorem shiftRight_mul_pow (s t : Nat) : (2 ^ s * t) >>> s = t := by
  rw [Nat.shiftRight_eq_div_pow]
  exact Nat.mul_div_cancel_left t (Nat.two_pow_pos s)

-- testing bit s of x through  x / 2^s % 2
theorem testBit_eq_div_mod (x s : Nat) : x.testBit s = ((x / 2 ^ s) % 2 == 1) := by
  simp [Nat.testBit, Nat.shiftRight_eq_div_pow, Nat.and_one_is_mod, bne_iff_ne]

-- a fold of a monotone step is monotone (relation `le` on accumulators, `lea` on elements, lists of equal length)
inductive Rel2 {α : Type} (r : α → α → Prop) : List α → List α → Prop
  | nil : Rel2 r [] []
  | cons {x y xs ys} : r x y → Rel2 r xs ys → Rel2 r (x :: xs) (y :: ys)

theorem foldl_mono {α β : Type} (le : β → β → Prop) (f : β → α → β) (lea : α → α → Prop)
    (hf : ∀ a a' x x', le a a' → lea x x' → le (f a x) (f a' x')) :
    ∀ (xs ys : List α), Rel2 lea xs ys → ∀ (a a' : β), le a a' → le (xs.foldl f a) (ys.foldl f a') := by
  intro xs ys h
  induction h with
  | nil => intro a a' h; simpa using h
  | cons hxy _ ih => intro a a' h; simp only [List.foldl]; exact ih _ _ (hf a a' _ _ h hxy)

-- count view of a list: the count over a prefix never exceeds the full count …
theorem count_take_le {α : Type} [DecidableEq α] (l : List α) (k : Nat) (x : α) :
    (l.take k).count x ≤ l.count x :=
  (List.take_sublist k l).count_le x

-- … it is the full count at the end …
theorem count_take_length {α : Type} [DecidableEq α] (l : List α) (x : α) :
    (l.take l.length).count x = l.count x := by simp

-- … and grows by one exactly at a hit (the recursion of the prefix-count view pc(k+1, x))
theorem count_take_succ {α : Type} [DecidableEq α] (l : List α) (k : Nat) (x : α) (h : k < l.length) :
    (l.take (k + 1)).count x = (l.take k).count x + (if l[k] = x then 1 else 0) := by
  rw [List.take_add_one, List.count_append]
  simp [List.getElem?_eq_getElem h, List.count_singleton]

-- counting the positions of a list that are NOT in a set P (the ghost counting function of the top_sort proof)
def cntNotIn {α : Type} (P : α → Bool) : List α → Nat
  | [] => 0
  | a :: l => (if P a then 0 else 1) + cntNotIn P l

theorem cntNotIn_le {α : Type} (P : α → Bool) (l : List α) : cntNotIn P l ≤ l.length := by
  induction l with
  | nil => simp [cntNotIn]
  | cons a l ih => simp only [cntNotIn, List.length_cons]; split <;> omega

theorem cntNotIn_empty {α : Type} (l : List α) : cntNotIn (fun _ => false) l = l.length := by
  induction l with
  | nil => simp [cntNotIn]
  | cons a l ih => simp [cntNotIn, ih]; omega

theorem cntNotIn_zero_iff {α : Type} (P : α → Bool) (l : List α) : cntNotIn P l = 0 ↔ ∀ a ∈ l, P a = true := by
  induction l with
  | nil => simp [cntNotIn]
  | cons a l ih =>
    simp only [cntNotIn, List.mem_cons, forall_eq_or_imp]
    by_cases h : P a = true
    · simp [h, ih]
    · simp [h]

-- adding p ∉ P to P lowers the count by the number of occurrences of p
theorem cntNotIn_insert {α : Type} [DecidableEq α] (P : α → Bool) (p : α) (hp : P p = false) (l : List α) :
    cntNotIn (fun a => decide (a = p) || P a) l + l.count p = cntNotIn P l := by
  induction l with
  | nil => simp [cntNotIn]
  | cons a l ih =>
    by_cases h : a = p
    · subst h
      simp only [cntNotIn, List.count_cons_self, decide_true, Bool.true_or, hp]
      simp
      omega
    · have h' : (a == p) = false := by simp [h]
      simp only [cntNotIn, List.count_cons, h', decide_eq_false h, Bool.false_or]
      simp
      omega

-- hence an element outside P occurs at most cntNotIn times
theorem count_le_cntNotIn {α : Type} [DecidableEq α] (P : α → Bool) (p : α) (hp : P p = false) (l : List α) :
    l.count p ≤ cntNotIn P l := by
  have := cntNotIn_insert P p hp l
  omega

-- disjoint-bit OR is addition:  x ||| (b * 2^k) = x + b * 2^k  for x < 2^k, b ∈ {0,1}
theorem or_pow_eq_add (x k : Nat) (h : x < 2 ^ k) : x ||| 2 ^ k = x + 2 ^ k := by
  have := Nat.two_pow_add_eq_or_of_lt h 1
  simp at this
  rw [Nat.or_comm]
  omega

-- ---------------- representation lemmas used by the rename_gate proof (count view vs positional view) ----------------
-- a counted element occurs at some position (witness function of the operand/users count views)
theorem count_pos_witness {α : Type} [DecidableEq α] (l : List α) (x : α) (h : 0 < l.count x) :
    ∃ i, ∃ (hi : i < l.length), l[i] = x := by
  have hm : x ∈ l := List.count_pos_iff.mp h
  obtain ⟨i, hi, e⟩ := List.getElem_of_mem hm
  exact ⟨i, hi, e⟩

-- an element at some position is counted
theorem count_pos_of_getElem {α : Type} [DecidableEq α] (l : List α) (i : Nat) (hi : i < l.length) :
    0 < l.count l[i] := List.count_pos_iff.mpr (List.getElem_mem hi)

-- x occurs in the prefix of length k  <->  some position below k holds x   (prefix membership view pm(k, x))
theorem mem_take_iff {α : Type} (l : List α) (k : Nat) (x : α) :
    x ∈ l.take k ↔ ∃ i, ∃ (hi : i < l.length), i < k ∧ l[i] = x := by
  constructor
  · intro h
    obtain ⟨i, hi, e⟩ := List.getElem_of_mem h
    have hk : i < k := by
      have := hi; simp [List.length_take] at this; omega
    have hl : i < l.length := by
      have := hi; simp [List.length_take] at this; omega
    refine ⟨i, hl, hk, ?_⟩
    simpa [List.getElem_take] using e
  · rintro ⟨i, hi, hk, e⟩
    have : i < (l.take k).length := by simp [List.length_take]; omega
    have h2 : (l.take k)[i] = x := by simpa [List.getElem_take] using e
    exact h2 ▸ List.getElem_mem this

theorem mem_take_succ {α : Type} (l : List α) (k : Nat) (x : α) (h : k < l.length) :
    x ∈ l.take (k + 1) ↔ (x ∈ l.take k ∨ l[k] = x) := by
  rw [List.take_add_one]
  simp only [List.getElem?_eq_getElem h, Option.toList_some, List.mem_append, List.mem_singleton]
  constructor
  · rintro (h1 | h1)
    · exact Or.inl h1
    · exact Or.inr h1.symm
  · rintro (h1 | h1)
    · exact Or.inl h1
    · exact Or.inr h1.symm

theorem mem_take_length_iff_count {α : Type} [DecidableEq α] (l : List α) (x : α) :
    x ∈ l.take l.length ↔ 0 < l.count x := by
  simp [List.count_pos_iff]

-- two different positions holding the same element: it is counted at least twice
theorem two_positions_count {α : Type} [DecidableEq α] (l : List α) (i j : Nat) (hij : i < j) (hj : j < l.length)
    (h : l[i]'(by omega) = l[j]) : 2 ≤ l.count l[j] := by
  induction l generalizing i j with
  | nil => simp at hj
  | cons a l ih =>
    cases j with
    | zero => omega
    | succ j =>
      simp only [List.length_cons] at hj
      have hj' : j < l.length := by omega
      cases i with
      | zero =>
        simp only [List.getElem_cons_zero, List.getElem_cons_succ] at h ⊢
        rw [List.count_cons]
        have := count_pos_of_getElem l j hj'
        simp [h]
      | succ i =>
        simp only [List.getElem_cons_succ] at h ⊢
        have := ih i j (by omega) hj' h
        rw [List.count_cons]; omega

-- the python comprehension  [i for i, y in enumerate(l, o) if y == x]
def posFrom {α : Type} [DecidableEq α] (x : α) : Nat → List α → List Nat
  | _, [] => []
  | o, a :: l => (if a = x then [o] else []) ++ posFrom x (o + 1) l

theorem posFrom_length {α : Type} [DecidableEq α] (x : α) (o : Nat) (l : List α) :
    (posFrom x o l).length = l.count x := by
  induction l generalizing o with
  | nil => simp [posFrom]
  | cons a l ih =>
    simp only [posFrom, List.length_append, ih, List.count_cons]
    by_cases h : a = x <;> simp [h] <;> omega

theorem posFrom_mem {α : Type} [DecidableEq α] (x : α) (o : Nat) (l : List α) (i : Nat) :
    i ∈ posFrom x o l ↔ ∃ j, ∃ (hj : j < l.length), i = o + j ∧ l[j] = x := by
  induction l generalizing o with
  | nil => simp [posFrom]
  | cons a l ih =>
    simp only [posFrom, List.mem_append, ih]
    constructor
    · rintro (h | ⟨j, hj, e, hx⟩)
      · by_cases hax : a = x
        · simp [hax] at h
          exact ⟨0, by simp, by omega, by simpa using hax⟩
        · simp [hax] at h
      · exact ⟨j + 1, by simp; omega, by omega, by simpa using hx⟩
    · rintro ⟨j, hj, e, hx⟩
      cases j with
      | zero =>
        left
        simp only [List.getElem_cons_zero] at hx
        simp [hx, e]
      | succ j =>
        right
        simp only [List.length_cons] at hj
        exact ⟨j, by omega, by omega, by simpa using hx⟩

theorem posFrom_ge {α : Type} [DecidableEq α] (x : α) (o : Nat) (l : List α) (i : Nat) (h : i ∈ posFrom x o l) : o ≤ i := by
  obtain ⟨j, _, e, _⟩ := (posFrom_mem x o l i).mp h
  omega

-- the enumeration is strictly increasing
theorem posFrom_sorted {α : Type} [DecidableEq α] (x : α) (o : Nat) (l : List α) :
    (posFrom x o l).Pairwise (· < ·) := by
  induction l generalizing o with
  | nil => simp [posFrom]
  | cons a l ih =>
    simp only [posFrom]
    rw [List.pairwise_append]
    refine ⟨?_, ih (o + 1), ?_⟩
    · by_cases h : a = x <;> simp [h]
    · intro p hp q hq
      have := posFrom_ge x (o + 1) l q hq
      by_cases h : a = x
      · simp [h] at hp; omega
      · simp [h] at hp

-- C16: the number codec.  RS b k = sum_{j<k} b j * 2^j  is what read_number(k) returns (ghost spec function RS of the
-- SMT contract); write_number(n, k) stores b j = n / 2^j % 2.  Reading back gives n % 2^k, i.e. n when n < 2^k.
def RS (b : Nat → Nat) : Nat → Nat
  | 0 => 0
  | j + 1 => RS b j + b j * 2 ^ j

theorem RS_bits (n k : Nat) : RS (fun j => n / 2 ^ j % 2) k = n % 2 ^ k := by
  induction k with
  | zero => simp [RS, Nat.mod_one]
  | succ k ih =>
    simp only [RS, ih]
    rw [Nat.mod_pow_succ, Nat.mul_comm]

theorem read_write_number (n k : Nat) (h : n < 2 ^ k) : RS (fun j => n / 2 ^ j % 2) k = n := by
  rw [RS_bits, Nat.mod_eq_of_lt h]

-- the range test of write_number: (n >> k) = 0  <->  n < 2^k
theorem shiftRight_eq_zero_iff (n k : Nat) : n >>> k = 0 ↔ n < 2 ^ k := by
  rw [Nat.shiftRight_eq_div_pow, Nat.div_eq_zero_iff]
  simp [Nat.pos_iff_ne_zero.mp (Nat.two_pow_pos k)]

-- ---------------- list views used by RemoveRedundantGates / connect_circuit / order_list proofs ----------------
-- the order-preserving filter view: positions of the elements satisfying p (python: [i for i, y in enumerate(l, o) if p(y)])
def posP {α : Type} (p : α → Bool) : Nat → List α → List Nat
  | _, [] => []
  | o, a :: l => (if p a then [o] else []) ++ posP p (o + 1) l

theorem posP_mem {α : Type} (p : α → Bool) (o : Nat) (l : List α) (i : Nat) :
    i ∈ posP p o l ↔ ∃ j, ∃ (hj : j < l.length), i = o + j ∧ p l[j] = true := by
  induction l generalizing o with
  | nil => simp [posP]
  | cons a l ih =>
    simp only [posP, List.mem_append, ih]
    constructor
    · rintro (h | ⟨j, hj, e, hx⟩)
      · by_cases hpa : p a = true
        · simp [hpa] at h
          exact ⟨0, by simp, by omega, by simpa using hpa⟩
        · simp [hpa] at h
      · exact ⟨j + 1, by simp; omega, by omega, by simpa using hx⟩
    · rintro ⟨j, hj, e, hx⟩
      cases j with
      | zero =>
        left
        simp only [List.getElem_cons_zero] at hx
        simp [hx, e]
      | succ j =>
        right
        simp only [List.length_cons] at hj
        exact ⟨j, by omega, by omega, by simpa using hx⟩

theorem posP_ge {α : Type} (p : α → Bool) (o : Nat) (l : List α) (i : Nat) (h : i ∈ posP p o l) : o ≤ i := by
  obtain ⟨j, _, e, _⟩ := (posP_mem p o l i).mp h
  omega

-- the embedding is strictly increasing
theorem posP_sorted {α : Type} (p : α → Bool) (o : Nat) (l : List α) : (posP p o l).Pairwise (· < ·) := by
  induction l generalizing o with
  | nil => simp [posP]
  | cons a l ih =>
    simp only [posP]
    rw [List.pairwise_append]
    refine ⟨?_, ih (o + 1), ?_⟩
    · by_cases h : p a = true <;> simp [h]
    · intro x hx q hq
      have := posP_ge p (o + 1) l q hq
      by_cases h : p a = true
      · simp [h] at hx; omega
      · simp [h] at hx

-- reading the list at the embedded positions gives exactly the filtered list (same length, same elements, same order)
theorem posP_filter {α : Type} (p : α → Bool) (o : Nat) (l : List α) :
    (posP p o l).map (fun i => l[i - o]?) = (l.filter p).map some := by
  induction l generalizing o with
  | nil => simp [posP]
  | cons a l ih =>
    simp only [posP, List.map_append, List.filter_cons]
    have hrest : (posP p (o + 1) l).map (fun i => (a :: l)[i - o]?) = (posP p (o + 1) l).map (fun i => l[i - (o + 1)]?) := by
      apply List.map_congr_left
      intro i hi
      have := posP_ge p (o + 1) l i hi
      have e : i - o = (i - (o + 1)) + 1 := by omega
      rw [e, List.getElem?_cons_succ]
    rw [hrest, ih (o + 1)]
    by_cases h : p a = true <;> simp [h]

-- a filter whose predicate holds everywhere is the identity
theorem filter_all {α : Type} (p : α → Bool) (l : List α) (h : ∀ a ∈ l, p a = true) : l.filter p = l :=
  List.filter_eq_self.mpr h

-- concatenation: counts add up, positions of the first list then of the second
theorem count_append' {α : Type} [DecidableEq α] (a b : List α) (x : α) : (a ++ b).count x = a.count x + b.count x :=
  List.count_append

-- a label counted at least twice occurs at two different positions
theorem two_le_count_positions {α : Type} [DecidableEq α] (l : List α) (x : α) (h : 2 ≤ l.count x) :
    ∃ i j, ∃ (hi : i < l.length) (hj : j < l.length), i < j ∧ l[i] = x ∧ l[j] = x := by
  induction l with
  | nil => simp at h
  | cons a l ih =>
    by_cases hax : a = x
    · subst hax
      have h1 : 1 ≤ l.count a := by
        rw [List.count_cons_self] at h
        omega
      have hm : a ∈ l := List.count_pos_iff.mp (by omega)
      obtain ⟨j, hj, e⟩ := List.getElem_of_mem hm
      exact ⟨0, j + 1, by simp, by simp; omega, by omega, by simp, by simpa using e⟩
    · have h2 : 2 ≤ l.count x := by
        rw [List.count_cons_of_ne (by simpa [eq_comm] using hax)] at h
        exact h
      obtain ⟨i, j, hi, hj, hij, ei, ej⟩ := ih h2
      exact ⟨i + 1, j + 1, by simp; omega, by simp; omega, by omega, by simpa using ei, by simpa using ej⟩

-- counting function of a 0/1 sequence (ids handed out by _enumerate_gates: c(0) = 0, c(j+1) = c(j) + b(j)): monotone,
-- strictly increasing across a position that counts, and bounded by the number of positions
theorem cnt_mono (b f : Nat → Nat) (hs : ∀ j, f (j + 1) = f j + b j) : ∀ i j, i ≤ j → f i ≤ f j := by
  intro i j hij
  induction j with
  | zero =>
    have : i = 0 := by omega
    subst this
    exact Nat.le_refl _
  | succ j ih =>
    by_cases h : i = j + 1
    · subst h
      exact Nat.le_refl _
    · have : i ≤ j := by omega
      have := ih this
      rw [hs j]
      omega

theorem cnt_strict (b f : Nat → Nat) (hs : ∀ j, f (j + 1) = f j + b j) (i j : Nat) (hij : i < j) (hb : b i = 1) : f i < f j := by
  have h1 : f (i + 1) = f i + 1 := by rw [hs i, hb]
  have h2 : f (i + 1) ≤ f j := cnt_mono b f hs (i + 1) j (by omega)
  omega

theorem cnt_le (b f : Nat → Nat) (h0 : f 0 = 0) (hs : ∀ j, f (j + 1) = f j + b j) (hb : ∀ j, b j ≤ 1) : ∀ j, f j ≤ j := by
  intro j
  induction j with
  | zero => omega
  | succ j ih =>
    rw [hs j]
    have := hb j
    omega

"""Small-scope circuit enumeration and seeded random circuits (plain Nets; no repository code)."""
import itertools
import random
from .net import Net
from .ops import NARY, BINARY, UNARY, CONST

ALL_TYPES = list(NARY) + list(BINARY) + list(UNARY) + list(CONST)


def arities(t, max_nary=3):
    if t in NARY:
        return list(range(2, max_nary + 1))
    if t in BINARY:
        return [2]
    if t in UNARY:
        return [1]
    return [0]


def enum_nets(n_inputs, k_gates, alphabet=ALL_TYPES, max_nary=3, outputs='std'):
    """All circuits with inputs x0.. and gates g0..g{k-1} in topological storage order, every
    gate type from `alphabet`, every operand tuple over earlier nodes (repetition allowed)."""
    ins = [f'x{i}' for i in range(n_inputs)]

    def rec(i, gates):
        if i == k_gates:
            yield dict(gates)
            return
        avail = ins + [f'g{j}' for j in range(i)]
        for t in alphabet:
            for a in arities(t, max_nary):
                if a > 0 and not avail:
                    continue
                for ops in itertools.product(avail, repeat=a):
                    gates.append((f'g{i}', (t, ops)))
                    yield from rec(i + 1, gates)
                    gates.pop()

    for gl in rec(0, []):
        g = {x: ('INPUT', ()) for x in ins}
        g.update(gl)
        nodes = list(g)
        if outputs == 'std':
            outs_list = [nodes[-1:]] if nodes else [[]]
        elif outputs == 'all':
            outs_list = [nodes]
        else:
            outs_list = outputs(nodes)
        for outs in outs_list:
            yield Net(ins, outs, g)


_LARGE = [0]


def random_net(rng, n_inputs=None, k_gates=None, alphabet=ALL_TYPES, max_nary=4, max_outputs=3,
               permute_storage=True, allow_no_outputs=False, prefix='', large_every=None):
    """`large_every=m`: every m-th call (per process, per caller stream) returns a LARGE circuit (15..40 gates, same number
    of inputs) drawn from a separate generator - behaviour that only changes beyond some size (a counter, a threshold, a
    fast path) is invisible on circuits of <= 8 gates.  The main stream `rng` is consumed exactly as without the option,
    so all the other circuits of a run are unchanged."""
    if large_every:
        _LARGE[0] += 1
        if _LARGE[0] % large_every == 0:
            random_net(rng, n_inputs, k_gates, alphabet, max_nary, max_outputs, permute_storage, allow_no_outputs, prefix)   # keep the stream
            r2 = rng_for('large', _LARGE[0], n_inputs, max_nary)
            return random_net(r2, n_inputs if n_inputs is not None else r2.randint(1, 5), r2.randint(15, 40), alphabet, max_nary, max_outputs,
                              permute_storage, allow_no_outputs, prefix)
    n = rng.randint(0, 4) if n_inputs is None else n_inputs
    k = rng.randint(0, 7) if k_gates is None else k_gates
    ins = [f'{prefix}x{i}' for i in range(n)]
    gates = [(x, ('INPUT', ())) for x in ins]
    nodes = list(ins)
    for i in range(k):
        cand = [t for t in alphabet if nodes or t in CONST]
        if not cand:
            break
        t = rng.choice(cand)
        a = rng.choice(arities(t, max_nary))
        if rng.random() < 0.25 and a >= 2:
            o = rng.choice(nodes)
            ops = tuple([o] * a)
        else:
            ops = tuple(rng.choice(nodes) for _ in range(a))
        lab = f'{prefix}g{i}'
        gates.append((lab, (t, ops)))
        nodes.append(lab)
    lo = 0 if allow_no_outputs else 1
    m = rng.randint(lo, max_outputs) if nodes else 0
    outs = [rng.choice(nodes) for _ in range(m)]
    if permute_storage:
        rng.shuffle(gates)
    return Net(ins, outs, dict(gates))


def rng_for(seed, *salt):
    import hashlib
    h = hashlib.sha256(repr((seed,) + tuple(salt)).encode()).digest()
    return random.Random(int.from_bytes(h[:8], 'big'))

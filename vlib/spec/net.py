"""Plain netlist model + denotational semantics + run-time WF predicate.

`Net` is an immutable snapshot taken from a real cirbo Circuit by reading its private fields
(never through cirbo's own evaluation / traversal code), so it is an independent oracle."""
from collections import Counter
from .ops import OP, arity_ok


class Net:
    __slots__ = ('inputs', 'outputs', 'gates', 'order', 'users', 'blocks')

    def __init__(self, inputs, outputs, gates, users=None, blocks=None):
        self.inputs = list(inputs)
        self.outputs = list(outputs)
        self.gates = dict(gates)            # label -> (type_name, tuple(operands)), insertion order kept
        self.order = list(self.gates)
        self.users = None if users is None else {k: list(v) for k, v in users.items()}
        self.blocks = blocks or {}

    def key(self):
        return (tuple(self.inputs), tuple(self.outputs), tuple((k,) + v for k, v in self.gates.items()))

    def to_json(self):
        return {'inputs': self.inputs, 'outputs': self.outputs,
                'gates': [[k, t, list(o)] for k, (t, o) in self.gates.items()],
                'blocks': {n: {k: list(v) for k, v in b.items()} for n, b in self.blocks.items()}}

    @staticmethod
    def from_json(j):
        return Net(j['inputs'], j['outputs'], {k: (t, tuple(o)) for k, t, o in j['gates']}, blocks=j.get('blocks'))


def snapshot(c):
    """Read a real Circuit into a Net (gates, order, users index, blocks)."""
    gates = {}
    for k, g in c._gates.items():
        gates[k] = (g._gate_type._name, tuple(g._operands))
    blocks = {n: {'inputs': list(b._inputs), 'gates': list(b._gates), 'outputs': list(b._outputs)}
              for n, b in c._blocks.items()}
    return Net(c._inputs, c._outputs, gates, users={k: list(v) for k, v in c._gate_to_users.items()}, blocks=blocks)


def build(net, Circuit=None, gate=None, checked=False):
    """Build a real Circuit from a Net through the unchecked internal constructor, in storage order."""
    if Circuit is None:
        from cirbo.core.circuit import Circuit, gate
    c = Circuit()
    for k in net.order:
        t, ops = net.gates[k]
        gt = getattr(gate, t)
        if checked:
            c.emplace_gate(k, gt, tuple(ops))
        else:
            c._emplace_gate(k, gt, tuple(ops))
    if set(c._inputs) == set(net.inputs) and len(net.inputs) == len(c._inputs):
        c._inputs = list(net.inputs)
    c._outputs = list(net.outputs)
    for n, b in (net.blocks or {}).items():
        from cirbo.core.circuit.circuit import Block
        c._blocks[n] = Block(n, c, list(b['inputs']), list(b['gates']), list(b['outputs']))
    return c


def rank(net):
    """Topological rank by operands (None if cyclic or dangling)."""
    r, state = {}, {}
    for s in net.gates:
        if s in r:
            continue
        stack = [(s, 0)]
        while stack:
            g, i = stack.pop()
            if g in r:
                continue
            if g not in net.gates:
                return None
            ops = net.gates[g][1]
            if i == 0:
                state[g] = 1
            if i < len(ops):
                stack.append((g, i + 1))
                o = ops[i]
                if o not in r:
                    if state.get(o) == 1:
                        return None
                    stack.append((o, 0))
            else:
                r[g] = 1 + max((r[o] for o in ops), default=-1)
                state[g] = 2
    return r


def den_all(net, assignment):
    """Boolean value of every gate (dict) under a total assignment of the inputs (dict label->bool)."""
    r = rank(net)
    if r is None:
        raise ValueError('not a DAG')
    val = {}
    for g in sorted(net.gates, key=lambda x: r[x]):
        t, ops = net.gates[g]
        if t == 'INPUT':
            val[g] = bool(assignment[g])
        else:
            val[g] = bool(OP(t, [val[o] for o in ops]))
    return val


def assignments(n):
    """X_0 .. X_{2^n-1}: big-endian canonical order (first input = most significant bit)."""
    for j in range(1 << n):
        yield [bool((j >> (n - 1 - k)) & 1) for k in range(n)]


def tt(net):
    """tt[o][j] = den(X_j, outputs[o])."""
    n = len(net.inputs)
    cols = []
    for x in assignments(n):
        v = den_all(net, dict(zip(net.inputs, x)))
        cols.append([v[o] for o in net.outputs])
    return [[col[i] for col in cols] for i in range(len(net.outputs))]


def gates_tt(net):
    n = len(net.inputs)
    res = {g: [] for g in net.gates}
    for x in assignments(n):
        v = den_all(net, dict(zip(net.inputs, x)))
        for g in net.gates:
            res[g].append(v[g])
    return res


def arity(net):
    return [g for g, (t, ops) in net.gates.items() if not arity_ok(t, len(ops))]


def wf_violations(net):
    """Clauses W1..W5, W7 of DESIGN §4 on a snapshot; returns list of (clause, detail)."""
    bad = []
    G = net.gates
    for g, (t, ops) in G.items():
        for o in ops:
            if o not in G:
                bad.append(('W1', f'operand {o!r} of {g!r} is not a gate'))
    for o in net.outputs:
        if o not in G:
            bad.append(('W2', f'output {o!r} is not a gate'))
    if net.users is not None:
        want = {}
        for g, (t, ops) in G.items():
            for o in ops:
                want.setdefault(o, Counter())[g] += 1
        keys = set(want) | set(net.users)
        for k in keys:
            have = Counter(net.users.get(k, []))
            if have != want.get(k, Counter()):
                bad.append(('W3', f'users[{k!r}]={sorted(have.elements())} but operand occurrences={sorted(want.get(k, Counter()).elements())}'))
    ins = [g for g, (t, _) in G.items() if t == 'INPUT']
    if Counter(net.inputs) != Counter(ins):
        bad.append(('W4', f'inputs list {net.inputs} vs INPUT gates {ins}'))
    if not any(c == 'W1' for c, _ in bad) and rank(net) is None:
        bad.append(('W5', 'operand graph has a cycle'))
    for n, b in (net.blocks or {}).items():
        for fld in ('inputs', 'gates', 'outputs'):
            for l in b[fld]:
                if l not in G:
                    bad.append(('W7', f'block {n!r}.{fld} names missing gate {l!r}'))
    return bad


def topsort_ok(c, net):
    """Run the real top_sort in both directions and check it against the snapshot (C02/C20 clause)."""
    bad = []
    for inverse in (False, True):
        try:
            seq = [g.label for g in c.top_sort(inverse=inverse)]
        except Exception as e:  # noqa
            bad.append(('TS', f'top_sort(inverse={inverse}) raised {type(e).__name__}: {e}'))
            continue
        if Counter(seq) != Counter(net.gates.keys()):
            bad.append(('TS', f'top_sort(inverse={inverse}) yields {seq}, gates {list(net.gates)}'))
            continue
        pos = {l: i for i, l in enumerate(seq)}
        for g, (t, ops) in net.gates.items():
            for o in ops:
                if o in pos and ((pos[o] > pos[g]) if inverse else (pos[o] < pos[g])):
                    bad.append(('TS', f'top_sort(inverse={inverse}): {g} vs operand {o} out of order'))
    return bad


def iso_equal(a, b):
    """Structural equality up to gate renaming that fixes positions of inputs/outputs: compare
    canonical forms obtained by numbering gates from the interface."""
    def canon(n):
        ta = tt(n)
        return (len(n.inputs), len(n.outputs), ta)
    return canon(a) == canon(b)

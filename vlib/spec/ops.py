"""OP(t): the one fixed Boolean function of every gate type, written from the statement of C01
(not from the repository). Independent executable definition used by the bounded layer, by
the native replay and cross-checked against the SMT definition (vlib/pyvc/theory.py)."""
from functools import reduce

GATE_TYPES = ['INPUT', 'ALWAYS_TRUE', 'ALWAYS_FALSE', 'AND', 'GEQ', 'GT', 'IFF', 'LEQ', 'LIFF', 'LNOT', 'LT',
              'NAND', 'NOR', 'NOT', 'NXOR', 'OR', 'RIFF', 'RNOT', 'XOR']
NARY = ('AND', 'OR', 'XOR', 'NAND', 'NOR', 'NXOR')
BINARY = ('GT', 'LT', 'GEQ', 'LEQ', 'LNOT', 'RNOT', 'LIFF', 'RIFF')
UNARY = ('NOT', 'IFF')
CONST = ('ALWAYS_TRUE', 'ALWAYS_FALSE')
SYMMETRIC = {t: (t in NARY or t in UNARY or t in CONST or t == 'INPUT') for t in GATE_TYPES}
BENCH_TYPES = ('INPUT', 'NOT', 'AND', 'OR', 'NAND', 'NOR', 'XOR', 'NXOR', 'IFF')


def OP(t, args):
    a = list(args)
    if t == 'AND':
        return reduce(lambda p, q: p and q, a)
    if t == 'OR':
        return reduce(lambda p, q: p or q, a)
    if t == 'XOR':
        return reduce(lambda p, q: p != q, a)
    if t == 'NAND':
        return not reduce(lambda p, q: p and q, a)
    if t == 'NOR':
        return not reduce(lambda p, q: p or q, a)
    if t == 'NXOR':
        return not reduce(lambda p, q: p != q, a)
    if t == 'GT':
        return a[0] and not a[1]
    if t == 'LT':
        return (not a[0]) and a[1]
    if t == 'GEQ':
        return a[0] or not a[1]
    if t == 'LEQ':
        return (not a[0]) or a[1]
    if t == 'LNOT':
        return not a[0]
    if t == 'RNOT':
        return not a[1]
    if t == 'LIFF':
        return a[0]
    if t == 'RIFF':
        return a[1]
    if t == 'NOT':
        return not a[0]
    if t == 'IFF':
        return a[0]
    if t == 'ALWAYS_TRUE':
        return True
    if t == 'ALWAYS_FALSE':
        return False
    raise ValueError(t)


def arity_ok(t, n):
    if t == 'INPUT':
        return n == 0
    if t in CONST:
        return True
    if t in UNARY:
        return n == 1
    if t in BINARY:
        return n == 2
    return n >= 2


# Kleene (strongest monotone) three-valued extension; None = undefined.
def OP3(t, args):
    import itertools
    a = list(args)
    idx = [i for i, v in enumerate(a) if v is None]
    res = set()
    for comp in itertools.product((False, True), repeat=len(idx)):
        b = list(a)
        for i, v in zip(idx, comp):
            b[i] = v
        res.add(bool(OP(t, b)))
    return res.pop() if len(res) == 1 else None

"""Re-run a replay file: re-executes the check of the property it belongs to and reports whether the same
(obligation, witness class) is still observed on the current tree."""
import json
import os
import subprocess
import sys


def main(argv):
    d = json.load(open(argv[0]))
    prop, obl, wc = d.get('property'), d.get('obligation'), d.get('witness_class')
    print(f'replay of {obl} [{wc}] (property {prop})')
    for k in ('detail', 'native_replay', 'counter_model_inputs'):
        if k in d:
            print(f'  {k}: {str(d[k])[:600]}')
    here = os.path.dirname(os.path.dirname(os.path.abspath(__file__)))
    r = subprocess.run([os.path.join(here, 'bin', 'check'), prop], capture_output=True, text=True)
    hit = [l for l in r.stdout.splitlines() if obl and obl in l]
    print('\n'.join(hit) if hit else 'not observed on the current tree')
    return 1 if any(l.strip().startswith('obligation=') or 'VIOLATION' in l for l in hit) else 0


if __name__ == '__main__':
    sys.exit(main(sys.argv[1:]))

"""Entry point: python -m vlib.main <ID> [--tier quick|thorough]"""
import importlib
import os
import sys
import traceback


def main(argv):
    if not argv:
        print('usage: check <property id> [--tier quick|thorough]')
        return 3
    prop = argv[0]
    if '--tier' in argv:
        os.environ['VERIF_TIER'] = argv[argv.index('--tier') + 1]
    from . import env
    env.TIER = os.environ.get('VERIF_TIER', 'quick') or 'quick'
    env.setup_import_paths()
    sys.setrecursionlimit(20000)
    try:
        mod = importlib.import_module(f'vlib.props.{prop}')
    except ModuleNotFoundError:
        print(f'CHECKER-ERROR: no check for {prop}')
        return 3
    from .report import Report
    rep = Report(prop, mod.LEVEL)
    try:
        mod.run(rep)
    except Exception:
        rep.error('check crashed: ' + traceback.format_exc()[-3000:])
    return rep.finish(f'bin/check {prop} --tier {env.TIER}')


if __name__ == '__main__':
    sys.exit(main(sys.argv[1:]))

"""Entry point: python -m vlib.main <ID> [--tier quick|thorough]"""
import importlib
import os
import sys
import traceback


def main(argv):
    if not argv:
        print('usage: check <property id> [--tier quick|thorough]')
        return 3
    prop = argv[0]
    if '--tier' in argv:
        os.environ['VERIF_TIER'] = argv[argv.index('--tier') + 1]
    from . import env
    env.TIER = os.environ.get('VERIF_TIER', 'quick') or 'quick'
    env.setup_import_paths()
    sys.setrecursionlimit(20000)
    try:
        mod = importlib.import_module(f'vlib.props.{prop}')
    except ModuleNotFoundError:
        print(f'CHECKER-ERROR: no check for {prop}')
        return 3
    from .report import Report
    level = mod.LEVEL
    try:        # the evidence level always equals the level claimed in MANIFEST.json
        import json
        for c in json.load(open(os.path.join(env.VERIF, 'MANIFEST.json')))['checks']:
            if c['property_id'] == prop:
                level = c['level_claimed']['category']
    except Exception:
        pass
    rep = Report(prop, level)
    try:
        mod.run(rep)
    except Exception:
        rep.error('check crashed: ' + traceback.format_exc()[-3000:])
    return rep.finish(f'bin/check {prop} --tier {env.TIER}')


if __name__ == '__main__':
    sys.exit(main(sys.argv[1:]))

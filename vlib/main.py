"""Entry point: python -m vlib.main <ID> [--tier quick|thorough]"""
import importlib
import os
import sys
import traceback


# checks whose contracts run on the abstract circuit heap of pyvc/circuit_model.py
HEAP_PROPS = {'C01', 'C02', 'C03', 'C05', 'C10', 'C14', 'C15', 'C18', 'C19', 'C20'}


def main(argv):
    if not argv:
        print('usage: check <property id> [--tier quick|thorough]')
        return 3
    prop = argv[0]
    if '--tier' in argv:
        os.environ['VERIF_TIER'] = argv[argv.index('--tier') + 1]
    from . import env
    env.TIER = os.environ.get('VERIF_TIER', 'quick') or 'quick'
    env.setup_import_paths()
    sys.setrecursionlimit(20000)
    try:
        mod = importlib.import_module(f'vlib.props.{prop}')
    except ModuleNotFoundError:
        print(f'CHECKER-ERROR: no check for {prop}')
        return 3
    from .report import Report
    level = mod.LEVEL
    try:        # the evidence level always equals the level claimed in MANIFEST.json
        import json
        for c in json.load(open(os.path.join(env.VERIF, 'MANIFEST.json')))['checks']:
            if c['property_id'] == prop:
                level = c['level_claimed']['category']
    except Exception:
        pass
    rep = Report(prop, level)
    # The guards run in SEPARATE PROCESSES and concurrently with the check: they create thousands of z3 terms, and the order in
    # which z3 prints declarations (and with it the running time of the string queries in cvc5: 7 s vs 75 s was observed)
    # depends on what the process has allocated before.  The verification conditions are thus generated in a pristine process.
    import subprocess
    import json as _json
    penv = dict(os.environ, PYTHONPATH=env.VERIF + os.pathsep + os.environ.get('PYTHONPATH', ''))
    guards = {}
    try:
        guards['selftest'] = subprocess.Popen([sys.executable, '-m', 'vlib.pyvc.selftest', '--json'], cwd=env.VERIF, env=penv, stdout=subprocess.PIPE, stderr=subprocess.PIPE, text=True)
        if prop in HEAP_PROPS:
            guards['conformance'] = subprocess.Popen([sys.executable, '-m', 'vlib.pyvc.conformance_cases', '--json'] + (['--quick'] if env.TIER != 'thorough' else []),
                                                     cwd=env.VERIF, env=penv, stdout=subprocess.PIPE, stderr=subprocess.PIPE, text=True)
    except Exception:
        rep.error('could not start the guard processes: ' + traceback.format_exc()[-800:])

    def collect_guards():
        for name, proc in guards.items():
            try:
                out, err = proc.communicate(timeout=1800)
                line = [x for x in out.splitlines() if x.startswith('JSON ')]
                if not line:
                    rep.error(f'{name} guard gave no result (exit {proc.returncode}): ' + (out + err)[-800:])
                    continue
                res = _json.loads(line[-1][5:])
                for msg in res.get('problems', []):
                    rep.error(msg)
                if name == 'selftest':
                    rep.extra['encoder_selftest'] = dict(res.get('info', {}), result='agree' if not res.get('problems') else 'DISAGREE')
                else:
                    rep.extra['heap_conformance'] = dict(res.get('info', {}), result='conforms' if not res.get('problems') else 'DEVIATES')
            except Exception:
                rep.error(f'{name} guard crashed: ' + traceback.format_exc()[-800:])
    try:
        import subprocess
        r = subprocess.run([os.path.join(env.VERIF, 'bin', 'lemmas')], capture_output=True, text=True, timeout=120)
        ok = r.returncode == 0 and 'error' not in (r.stdout + r.stderr)
        rep.extra['background_lemmas_lean'] = 'checked (lean/Background.lean)' if ok else 'NOT checked: ' + (r.stdout + r.stderr)[:300]
        if not ok:
            rep.assume('lean/Background.lean could not be re-checked in this run: the background lemmas are assumptions')
    except Exception as e:
        rep.extra['background_lemmas_lean'] = 'NOT checked: %r' % (e,)
        rep.assume('lean not available: the background lemmas of lean/Background.lean are assumptions in this run')
    try:
        mod.run(rep)
    except Exception:
        rep.error('check crashed: ' + traceback.format_exc()[-3000:])
        # a crash of the deductive part (e.g. a function under contract that no longer exists in a shape the setup code
        # expects) must not silence the bounded stand-in: a violation found there still decides the run (exit 1 wins)
        if not getattr(rep, 'bounded_started', False):
            try:
                from .props.common import run_bounded
                run_bounded(rep, prop, env.TIER != 'thorough')
            except Exception:
                rep.error('bounded driver crashed: ' + traceback.format_exc()[-1500:])
    collect_guards()
    return rep.finish(f'bin/check {prop} --tier {env.TIER}')


if __name__ == '__main__':
    sys.exit(main(sys.argv[1:]))

"""Entry point: python -m vlib.main <ID> [--tier quick|thorough]"""
import importlib
import os
import sys
import traceback


# checks whose contracts run on the abstract circuit heap of pyvc/circuit_model.py
HEAP_PROPS = {'C01', 'C02', 'C03', 'C05', 'C10', 'C14', 'C15', 'C18', 'C19', 'C20'}


def main(argv):
    if not argv:
        print('usage: check <property id> [--tier quick|thorough]')
        return 3
    prop = argv[0]
    if '--tier' in argv:
        os.environ['VERIF_TIER'] = argv[argv.index('--tier') + 1]
    from . import env
    env.TIER = os.environ.get('VERIF_TIER', 'quick') or 'quick'
    env.setup_import_paths()
    sys.setrecursionlimit(20000)
    try:
        mod = importlib.import_module(f'vlib.props.{prop}')
    except ModuleNotFoundError:
        print(f'CHECKER-ERROR: no check for {prop}')
        return 3
    from .report import Report
    level = mod.LEVEL
    try:        # the evidence level always equals the level claimed in MANIFEST.json
        import json
        for c in json.load(open(os.path.join(env.VERIF, 'MANIFEST.json')))['checks']:
            if c['property_id'] == prop:
                level = c['level_claimed']['category']
    except Exception:
        pass
    rep = Report(prop, level)
    try:
        # guard of the guard: the interpreter must agree with CPython on the concrete self-test scripts (2-3 s)
        from .pyvc import selftest
        for msg in selftest.main(env.REPO, verbose=False):
            rep.error(msg)
        rep.extra['encoder_selftest'] = {'scripts': len(selftest.SCRIPTS), 'frame_rule_cases': len(selftest.FRAME_CASES),
                                         'symbolic_differential_cases': len(selftest.SYM_CASES) + len(selftest.LABEL_CASES),
                                         'result': 'agree' if not rep.errors else 'DISAGREE'}
    except Exception:
        rep.error('encoder self-test crashed: ' + traceback.format_exc()[-1500:])
    if prop in HEAP_PROPS:
        # guard of the abstract circuit heap: the contracts of a few mutators, run on a CONCRETE small circuit, must describe
        # exactly what CPython does (pyvc/conformance.py); quick: 2 cases, thorough: 12
        try:
            from .pyvc import conformance_cases
            n, probs = conformance_cases.run(env.TIER != 'thorough')
            for msg in probs:
                rep.error(msg)
            rep.extra['heap_conformance'] = {'cases': n, 'result': 'conforms' if not probs else 'DEVIATES',
                                             'over_approximations': list(getattr(conformance_cases.run, 'imprecise', []))[:10]}
        except Exception:
            rep.error('heap conformance test crashed: ' + traceback.format_exc()[-1500:])
    try:
        import subprocess
        r = subprocess.run([os.path.join(env.VERIF, 'bin', 'lemmas')], capture_output=True, text=True, timeout=120)
        ok = r.returncode == 0 and 'error' not in (r.stdout + r.stderr)
        rep.extra['background_lemmas_lean'] = 'checked (lean/Background.lean)' if ok else 'NOT checked: ' + (r.stdout + r.stderr)[:300]
        if not ok:
            rep.assume('lean/Background.lean could not be re-checked in this run: the background lemmas are assumptions')
    except Exception as e:
        rep.extra['background_lemmas_lean'] = 'NOT checked: %r' % (e,)
        rep.assume('lean not available: the background lemmas of lean/Background.lean are assumptions in this run')
    try:
        mod.run(rep)
    except Exception:
        rep.error('check crashed: ' + traceback.format_exc()[-3000:])
    return rep.finish(f'bin/check {prop} --tier {env.TIER}')


if __name__ == '__main__':
    sys.exit(main(sys.argv[1:]))

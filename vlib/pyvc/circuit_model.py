"""Abstract model of a cirbo Circuit for heap reasoning (DESIGN §3.3 'State as substitution').

A circuit in an arbitrary state is an interpreted `Obj(Circuit)` whose five fields are model objects
sharing one functional state `CState`. Every state component is a python closure over z3 terms built
from the pre-state's uninterpreted symbols; an update replaces the closure (no arrays, no lambdas in
the SMT problem). The real methods of circuit.py / converters.py / validation.py run on it unchanged.

Views: gates  dom(l) typ(l) nops(l) op(l,i) opc(u,g)=#occurrences of g among operands of u
       users  udom(g) cnt(g,u)=#occurrences of u in users[g]  tot(g)=len(users[g])
       inputs/outputs  length, elem(i), count(l)
       blocks one *generic* block (arbitrary member or non-member): member, name, bg(l) bi(l) bo(l)
"""
import z3

from .interp import Model, _simp
from .values import (Sym, Unsupported, VList, VDict, Obj, Native, LabelSort, GTypeSort, GT, NOTFOUND, PyRaise)

I = z3.IntSort()
B = z3.BoolSort()


def bump2(f, cond, delta):
    """g,u -> f(g,u) + delta where cond(g,u) (f evaluated once: closures nest, so never call `old` twice)"""
    def r(g, u):
        c = f(g, u)
        return z3.If(cond(g, u), c + delta, c)
    return r


def bump1(f, cond, delta):
    def r(g):
        c = f(g)
        return z3.If(cond(g), c + delta, c)
    return r


class CState:
    FIELDS = ('dom', 'typ', 'nops', 'op', 'opc', 'udom', 'cnt', 'tot', 'uelem', 'in_n', 'in_elem', 'in_cnt', 'out_n', 'out_elem',
              'out_cnt', 'b_member', 'b_name', 'bg', 'bi', 'bo', 'size', 'rank')

    def copy(self):
        s = CState()
        for f in self.FIELDS:
            setattr(s, f, getattr(self, f))
        return s


def fresh_state(tag):
    """An arbitrary circuit state: every component an uninterpreted symbol."""
    L = LabelSort
    f = lambda n, *sorts: z3.Function(f'{n}@{tag}', *sorts)
    s = CState()
    dom, typ, nops, op, opc = f('dom', L, B), f('typ', L, GTypeSort), f('nops', L, I), f('op', L, I, L), f('opc', L, L, I)
    udom, cnt, tot = f('udom', L, B), f('cnt', L, L, I), f('tot', L, I)
    uelem = f('uelem', L, I, L)
    s.uelem = lambda g, j: uelem(g, j)
    in_elem, in_cnt, out_elem, out_cnt = f('in_elem', I, L), f('in_cnt', L, I), f('out_elem', I, L), f('out_cnt', L, I)
    bg, bi, bo = f('bg', L, I), f('bi', L, I), f('bo', L, I)
    rank = f('rank', L, I)
    s.dom, s.typ, s.nops, s.op, s.opc = (lambda l: dom(l)), (lambda l: typ(l)), (lambda l: nops(l)), (lambda l, i: op(l, i)), (lambda u, g: opc(u, g))
    s.udom, s.cnt, s.tot = (lambda l: udom(l)), (lambda g, u: cnt(g, u)), (lambda g: tot(g))
    s.in_n, s.out_n = z3.Int(f'in_n@{tag}'), z3.Int(f'out_n@{tag}')
    s.in_elem, s.in_cnt, s.out_elem, s.out_cnt = (lambda i: in_elem(i)), (lambda l: in_cnt(l)), (lambda i: out_elem(i)), (lambda l: out_cnt(l))
    s.b_member, s.b_name = z3.Bool(f'b_member@{tag}'), z3.Const(f'b_name@{tag}', L)
    s.bg, s.bi, s.bo = (lambda l: bg(l)), (lambda l: bi(l)), (lambda l: bo(l))
    s.size = z3.Int(f'size@{tag}')
    s.rank = lambda l: rank(l)
    return s


def empty_state():
    s = CState()
    z, f = z3.IntVal(0), z3.BoolVal(False)
    s.dom, s.typ, s.nops = (lambda l: f), (lambda l: GT['INPUT']), (lambda l: z)
    s.op = lambda l, i: l
    s.opc = lambda u, g: z
    s.udom, s.cnt, s.tot = (lambda l: f), (lambda g, u: z), (lambda g: z)
    s.uelem = lambda g, j: g
    s.in_n = s.out_n = z
    s.in_elem = s.out_elem = (lambda i: z3.Const('nolabel', LabelSort))
    s.in_cnt = s.out_cnt = (lambda l: z)
    s.b_member, s.b_name = f, z3.Const('noblock', LabelSort)
    s.bg = s.bi = s.bo = (lambda l: z)
    s.size = z
    s.rank = lambda l: z
    return s


# ------------------------------------------------------------------ WF -----------------------
def wf_clauses(S, g, u, i):
    """Clauses of WF (DESIGN §4) as formulas over the free label variables g, u and int variable i.
    Includes the representation facts that link the views of one data structure."""
    c = {}
    c['W1'] = z3.Implies(z3.And(S.dom(u), S.opc(u, g) > 0), S.dom(g))
    c['W1pos'] = z3.Implies(z3.And(S.dom(u), i >= 0, i < S.nops(u)), z3.And(S.dom(S.op(u, i)), S.opc(u, S.op(u, i)) >= 1))
    c['W2'] = z3.Implies(S.out_cnt(g) > 0, S.dom(g))
    c['W3'] = S.cnt(g, u) == z3.If(S.dom(u), S.opc(u, g), 0)
    c['W4'] = S.in_cnt(g) == z3.If(z3.And(S.dom(g), S.typ(g) == GT['INPUT']), 1, 0)
    c['W5'] = z3.Implies(z3.And(S.dom(u), i >= 0, i < S.nops(u)), S.rank(S.op(u, i)) < S.rank(u))
    c['W7'] = z3.Implies(z3.And(S.b_member, z3.Or(S.bg(g) > 0, S.bi(g) > 0, S.bo(g) > 0)), S.dom(g))
    return c


def rep_clauses(S, g, u, i):
    """Representation invariants of the python containers (always true of real lists/dicts; not part of WF)."""
    c = {}
    c['R-opc-nonneg'] = z3.And(S.opc(u, g) >= 0, S.nops(u) >= 0, S.opc(u, g) <= S.nops(u))
    c['R-cnt-nonneg'] = z3.And(S.cnt(g, u) >= 0, S.tot(g) >= 0, S.cnt(g, u) <= S.tot(g))
    c['R-absent-empty'] = z3.Implies(z3.Not(S.udom(g)), z3.And(S.cnt(g, u) == 0, S.tot(g) == 0))
    c['R-users-positions'] = z3.Implies(z3.And(i >= 0, i < S.tot(g)), S.cnt(g, S.uelem(g, i)) >= 1)
    c['R-tot-zero'] = z3.Implies(z3.And(S.tot(g) > 0, S.cnt(g, u) == 0), z3.BoolVal(True))
    c['R-inout-nonneg'] = z3.And(S.in_cnt(g) >= 0, S.out_cnt(g) >= 0, S.in_n >= 0, S.out_n >= 0, S.in_cnt(g) <= S.in_n, S.out_cnt(g) <= S.out_n)
    c['R-in-elem'] = z3.Implies(z3.And(i >= 0, i < S.in_n), S.in_cnt(S.in_elem(i)) >= 1)
    c['R-out-elem'] = z3.Implies(z3.And(i >= 0, i < S.out_n), S.out_cnt(S.out_elem(i)) >= 1)
    c['R-block-nonneg'] = z3.And(S.bg(g) >= 0, S.bi(g) >= 0, S.bo(g) >= 0)
    c['R-size'] = z3.And(S.size >= 0, z3.Implies(S.dom(g), S.size >= 1))
    return c


def assume_state(ctx, S, wf=True, tag='pre'):
    g, u = z3.Consts(f'G!{tag} U!{tag}', LabelSort)
    i = z3.Int(f'I!{tag}')
    cl = dict(rep_clauses(S, g, u, i))
    if wf:
        cl.update(wf_clauses(S, g, u, i))
    for nm, f in cl.items():
        ctx.assume(z3.ForAll([g, u, i], f))
    # tot(g)=0 => no user at all (needs its own quantifier shape)
    ctx.assume(z3.ForAll([g, u], z3.Implies(S.tot(g) == 0, S.cnt(g, u) == 0)))


def wf_goals(ctx, S, which=None, tag='post'):
    """Skolemised WF of a (post-)state: list of (clause, formula)."""
    g, u = ctx.fresh(LabelSort, 'gsk'), ctx.fresh(LabelSort, 'usk')
    i = ctx.fresh(I, 'isk')
    cl = wf_clauses(S, g, u, i)
    return [(nm, f) for nm, f in cl.items() if which is None or nm in which]


# ------------------------------------------------------------------ models -------------------
class Holder:
    """shared mutable cell holding the current functional state of one circuit"""

    def __init__(self, S, name):
        self.S = S
        self.name = name
        self.events = []


class OpsSeq(Model):
    """operand tuple of a gate read from the abstract gate map (immutable snapshot)"""

    immutable_tuple = True

    def __init__(self, n, elem, count):
        self.n, self.elem, self.count = n, elem, count

    def concrete_len(self, it=None):
        n = z3.simplify(self.n)
        if z3.is_int_value(n):
            return n.as_long()
        if it is not None and it.ctx is not None:
            # the path condition may force the arity (e.g. typ(g) = GT and the arity precondition)
            for k in range(0, 6):
                if not it.ctx.feasible(self.n != k):
                    return k
        return None

    def m_len(self, it):
        k = self.concrete_len(it)
        return k if k is not None else Sym(self.n)

    def m_getitem(self, it, k):
        if isinstance(k, slice):
            raise Unsupported('slice of abstract operands')
        kt = it.int_term(k)
        ok = _simp(z3.And(kt >= -self.n, kt < self.n))
        if not it.ctx.choose(ok):
            it.raise_('IndexError', 'tuple index out of range')
        idx = z3.simplify(z3.If(kt < 0, kt + self.n, kt))
        return Sym(self.elem(idx))

    def m_iter(self, it):
        k = self.concrete_len(it)
        if k is None:
            raise Unsupported('iteration over operands of symbolic arity needs a loop invariant')
        for j in range(k):
            yield Sym(self.elem(z3.IntVal(j)))

    def m_contains(self, it, x):
        return _simp(self.count(it.label_term(x)) > 0)

    def m_copy(self, it):
        return self

    def m_subst(self, it, a, b):
        """tuple(b if x == a else x for x in self): every occurrence of a replaced by b (count under substitution)"""
        at, bt = it.label_term(a), it.label_term(b)
        el, cn = self.elem, self.count

        def elem(i):
            e = el(i)
            return z3.If(e == at, bt, e)

        def count(g):
            return z3.If(at == bt, cn(g), z3.If(g == bt, cn(bt) + cn(at), z3.If(g == at, 0, cn(g))))
        o = OpsSeq(self.n, elem, count)
        o.prefix = []
        return o

    def m_eq(self, it, other):
        if other is self:
            return True
        raise Unsupported('comparison of abstract operand tuples')


def ops_views(it, ops):
    """(n term, elem closure, count closure) of an operands value: python tuple of labels or OpsSeq"""
    if isinstance(ops, OpsSeq):
        return ops.n, ops.elem, ops.count
    if isinstance(ops, (tuple, VList)):
        items = [it.label_term(x) for x in (ops if isinstance(ops, tuple) else ops.items)]

        def elem(i, items=items):
            r = items[-1] if items else z3.Const('nolabel', LabelSort)
            for j in range(len(items) - 2, -1, -1):
                r = z3.If(i == j, items[j], r)
            return r

        def count(g, items=items):
            return z3.Sum([z3.If(x == g, 1, 0) for x in items]) if items else z3.IntVal(0)
        return z3.IntVal(len(items)), elem, count
    raise Unsupported(f'operands of type {type(ops).__name__}')


class GatesMap(Model):
    def __init__(self, h):
        self.h = h

    def m_contains(self, it, k):
        try:
            return _simp(self.h.S.dom(it.label_term(k)))
        except Unsupported:
            return False

    def m_len(self, it):
        return Sym(self.h.S.size)

    def m_getitem(self, it, k):
        S = self.h.S
        kt = it.label_term(k)
        if not it.ctx.choose(_simp(S.dom(kt))):
            it.raise_('KeyError', 'gate')
        return make_gate_obj(it, S, kt)

    def m_setitem(self, it, k, v):
        S = self.h.S.copy()
        old = self.h.S
        kt = it.label_term(k)
        if not (isinstance(v, Obj) and v.cls.name == 'Gate'):
            raise Unsupported('non-Gate stored in _gates')
        lab = it.label_term(v.fields['_label'])
        n, elem, count = ops_views(it, v.fields['_operands'])
        ty = it.gtype_term(v.fields['_gate_type'])
        self.h.events.append(('gate-write', kt, old.dom(kt), lab))
        S.dom = lambda l: z3.Or(l == kt, old.dom(l))
        S.typ = lambda l: z3.If(l == kt, ty, old.typ(l))
        S.nops = lambda l: z3.If(l == kt, n, old.nops(l))
        S.op = lambda l, i: z3.If(l == kt, elem(i), old.op(l, i))
        S.opc = lambda u, g: z3.If(u == kt, count(g), old.opc(u, g))
        S.size = z3.If(old.dom(kt), old.size, old.size + 1)
        self.h.S = S
        it.ctx.check('gate-key-equals-label', kt == lab, {'witness': 'key!=label'})
        if getattr(self.h, 'V', None) is not None and not it.ctx.feasible(old.dom(kt)):
            # a fresh gate: its value under the ghost valuation V is defined by its equation (sound: V(kt) was unconstrained)
            nn = z3.simplify(n)
            from .theory import OPz
            tname = None
            tt = z3.simplify(ty)
            for name, const in GT.items():
                if tt.eq(const):
                    tname = name
            if tname is not None and z3.is_int_value(nn) and tname != 'INPUT':
                vals = [self.h.V(elem(z3.IntVal(j))) for j in range(nn.as_long())]
                from ..spec.ops import arity_ok
                if arity_ok(tname, len(vals)):
                    it.ctx.assume(self.h.V(kt) == OPz(tname, vals))
                    self.h.events.append(('gate-defined', kt, tname, len(vals)))

    def m_delitem(self, it, k):
        old = self.h.S
        kt = it.label_term(k)
        if not it.ctx.choose(_simp(old.dom(kt))):
            it.raise_('KeyError', 'gate')
        S = old.copy()
        self.h.events.append(('gate-del', kt))
        S.dom = lambda l: z3.And(l != kt, old.dom(l))
        S.size = old.size - 1
        self.h.S = S

    def m_getattr(self, it, name):
        if name == 'values':
            return Native('gates.values', lambda: GateValues(self.h))
        raise Unsupported(f'_gates.{name} (whole-map operation) on an abstract circuit')

    def m_iter(self, it):
        raise Unsupported('iteration over all gates of an abstract circuit needs an invariant')

    # iteration over the keys (for g in self.gates) by a loop invariant: an arbitrary enumeration of the keys,
    # each exactly once (library axiom of dict iteration)
    prefix = []

    @property
    def n(self):
        return self.h.S.size

    def enumeration(self, ctx):
        if getattr(self, '_enum', None) is None:
            S = self.h.S
            tag = self.h.name
            y = z3.Function(f'keyenum@{tag}', I, LabelSort)
            pos = z3.Function(f'keypos@{tag}', LabelSort, I)
            i, l = z3.Int('i!ke'), z3.Const('l!ke', LabelSort)
            ctx.assume(z3.ForAll([i], z3.Implies(z3.And(i >= 0, i < S.size), z3.And(S.dom(y(i)), pos(y(i)) == i))))
            ctx.assume(z3.ForAll([l], z3.Implies(S.dom(l), z3.And(pos(l) >= 0, pos(l) < S.size, y(pos(l)) == l))))
            self._enum = (y, pos)
        return self._enum

    def elem(self, i):
        return self._enum[0](i)

    def concrete_len(self, it=None):
        return None


class AbsStack(Model):
    """a python list of labels used as a stack: length n, positional view elem(i) (functional)"""

    def __init__(self, n, elem):
        self.n, self.elem = n, elem

    def m_truth_term(self):
        return self.n > 0

    def m_len(self, it):
        return Sym(self.n)

    def m_getitem(self, it, k):
        if isinstance(k, slice):
            raise Unsupported('slice of abstract stack')
        kt = it.int_term(k)
        if not it.ctx.choose(_simp(z3.And(kt >= -self.n, kt < self.n))):
            it.raise_('IndexError', 'list index out of range')
        return Sym(self.elem(z3.simplify(z3.If(kt < 0, kt + self.n, kt))))

    def m_getattr(self, it, name):
        if name == 'append':
            def append(x):
                xt, n, e = it.label_term(x), self.n, self.elem
                self.elem = lambda i: z3.If(i == n, xt, e(i))
                self.n = n + 1
            return Native('stack.append', append)
        if name == 'pop':
            def pop(*a):
                if a:
                    raise Unsupported('pop(index)')
                if not it.ctx.choose(_simp(self.n > 0)):
                    it.raise_('IndexError', 'pop from empty list')
                top = self.elem(self.n - 1)
                self.n = self.n - 1
                return Sym(top)
            return Native('stack.pop', pop)
        raise Unsupported('stack method ' + name)


class GateValues(Model):
    """circuit._gates.values(): only comprehension patterns that abstract over ALL gates are supported"""

    def __init__(self, h):
        self.h = h

    def m_dictcomp(self, it, e, env, module):
        """{x.label: F(x) for x in gates.values()}  ->  abstract int map  l |-> F(gate l)  on dom"""
        import ast as _ast
        g = e.generators[0]
        if not (isinstance(g.target, _ast.Name) and isinstance(e.key, _ast.Attribute) and e.key.attr == 'label'
                and isinstance(e.key.value, _ast.Name) and e.key.value.id == g.target.id):
            raise Unsupported('dict comprehension shape over gates')
        S = self.h.S
        lam = it.ctx.fresh(LabelSort, 'lam')
        env2 = {'__parent__': env, '__qualname__': env.get('__qualname__', '')}
        env2[g.target.id] = make_gate_obj(it, S, lam)
        before = it.ctx.decisions
        npc = len(it.ctx.pc)
        it.ctx.assume(S.dom(lam))
        v = it.eval(e.value, env2, module)
        if it.ctx.decisions != before:
            raise Unsupported('value of the comprehension branches on the gate')
        vt = it.int_term(v)
        return IntMap(lambda l: S.dom(l), lambda l, vt=vt, lam=lam: z3.substitute(vt, (lam, l)))

    def m_iter(self, it):
        raise Unsupported('iteration over all gates of an abstract circuit needs an invariant')

    # for g in gates.values() under a loop invariant: the Gate objects of an arbitrary enumeration of the keys
    prefix = []

    def enumeration(self, it):
        self._it = it
        self._gm = self.h.obj.fields['_gates']
        self._S = self.h.S
        return self._gm.enumeration(it.ctx)

    @property
    def n(self):
        return self._S.size

    def elem(self, i):
        return make_gate_obj(self._it, self._S, self._gm._enum[0](i))

    def concrete_len(self, it=None):
        return None


class IntMap(Model):
    """dict[label -> int] in functional form (in-degree map of top_sort)"""

    def __init__(self, dom, val):
        self.dom, self.val = dom, val

    def m_getitem(self, it, k):
        kt = it.label_term(k)
        if not it.ctx.choose(_simp(self.dom(kt))):
            it.raise_('KeyError', 'int map')
        return Sym(self.val(kt))

    def m_setitem(self, it, k, v):
        kt, vt = it.label_term(k), it.int_term(v)
        d, f = self.dom, self.val
        self.dom = lambda l: z3.Or(l == kt, d(l))

        def val(l, f=f):
            c = f(l)
            return z3.If(l == kt, vt, c)
        self.val = val

    def m_contains(self, it, k):
        return _simp(self.dom(it.label_term(k)))

    def m_getattr(self, it, name):
        raise Unsupported('int map method ' + name)

    def m_listcomp_items(self, it, e, env, module):
        """[k for k, v in self.items() if C(v)]  ->  bag of the keys whose value satisfies C (each once)"""
        import ast as _ast
        g = e.generators[0]
        a, b = g.target.elts
        if not (isinstance(a, _ast.Name) and isinstance(b, _ast.Name) and isinstance(e.elt, _ast.Name) and e.elt.id == a.id and len(g.ifs) == 1):
            raise Unsupported('list comprehension shape over items()')
        lam = it.ctx.fresh(LabelSort, 'lam')
        env2 = {'__parent__': env, '__qualname__': env.get('__qualname__', ''), a.id: Sym(lam), b.id: Sym(self.val(lam))}
        before = it.ctx.decisions
        c = it.truth(it.eval(g.ifs[0], env2, module))
        if it.ctx.decisions != before:
            raise Unsupported('filter of the comprehension branches')
        ct = it.as_bool_term(c) if not isinstance(c, bool) else z3.BoolVal(c)
        dom = self.dom
        return LabelBag(lambda l, ct=ct, lam=lam, dom=dom: z3.And(dom(l), z3.substitute(ct, (lam, l))))


class LabelBag(Model):
    """a python list used as a work list of pairwise distinct labels: membership predicate only. pop() returns an
    arbitrary member (the proof holds for every choice, so LIFO order is irrelevant); append() of a label that is
    already a member would break the no-duplicates reading and is an obligation."""

    def __init__(self, member):
        self.member = member

    def m_truth_term(self):
        l = z3.Const('l!bag', LabelSort)
        return z3.Exists([l], self.member(l))

    def m_len(self, it):
        # only used for truthiness: a non-negative int that is zero iff the bag is empty
        n = it.ctx.fresh(I, 'baglen')
        it.ctx.assume(n >= 0)
        it.ctx.assume((n > 0) == self.m_truth_term())
        return Sym(n)

    def m_getattr(self, it, name):
        if name == 'pop':
            def pop(*a):
                if a:
                    raise Unsupported('pop(index) on a label bag')
                if not it.ctx.choose(self.m_truth_term()):
                    it.raise_('IndexError', 'pop from empty list')
                x = it.ctx.fresh(LabelSort, 'popped')
                it.ctx.assume(self.member(x))
                m = self.member
                self.member = lambda l: z3.And(l != x, m(l))
                return Sym(x)
            return Native('bag.pop', pop)
        if name == 'append':
            def append(v):
                vt = it.label_term(v)
                it.ctx.check('worklist-has-no-duplicates', z3.Not(self.member(vt)), {'witness': 'duplicate-in-queue'})
                m = self.member
                self.member = lambda l: z3.Or(l == vt, m(l))
            return Native('bag.append', append)
        raise Unsupported('label bag method ' + name)


def make_gate_obj(it, S, kt):
    gm = it.load_module('cirbo.core.circuit.gate')
    cls = gm.env['Gate']
    n, op, opc = S.nops(kt), S.op, S.opc
    ops = OpsSeq(n, (lambda i, kt=kt, op=op: op(kt, i)), (lambda g, kt=kt, opc=opc: opc(kt, g)))
    ops.owner = kt
    ops.prefix = []
    o = Obj(cls, {'_label': Sym(kt), '_gate_type': Sym(S.typ(kt)), '_operands': ops})
    return o


def make_gate_obj_i(it, S, kt):
    return make_gate_obj(it, S, kt)


class UsersRef(Model):
    """reference to the list users[key] (alias semantics: reads the current state on every access)"""

    def __init__(self, h, kt):
        self.h, self.kt = h, kt

    def m_contains(self, it, x):
        return _simp(self.h.S.cnt(self.kt, it.label_term(x)) > 0)

    def m_len(self, it):
        return Sym(self.h.S.tot(self.kt))

    def m_getattr(self, it, name):
        h, kt = self.h, self.kt
        if name == 'append':
            def append(x):
                old, xt = h.S, it.label_term(x)
                S = old.copy()
                S.cnt = bump2(old.cnt, lambda g, u: z3.And(g == kt, u == xt), 1)
                S.tot = bump1(old.tot, lambda g: g == kt, 1)
                h.S = S
            return Native('users.append', append)
        if name == 'remove':
            def remove(x):
                old, xt = h.S, it.label_term(x)
                if not it.ctx.choose(_simp(old.cnt(kt, xt) > 0)):
                    it.raise_('ValueError', 'list.remove(x): x not in list')
                S = old.copy()
                S.cnt = bump2(old.cnt, lambda g, u: z3.And(g == kt, u == xt), -1)
                S.tot = bump1(old.tot, lambda g: g == kt, -1)
                h.S = S
            return Native('users.remove', remove)
        if name == 'index':
            def index(x):
                xt = it.label_term(x)
                if not it.ctx.choose(_simp(h.S.cnt(kt, xt) > 0)):
                    it.raise_('ValueError', 'x not in list')
                return UsersIndex(kt, xt)
            return Native('users.index', index)
        if name == 'extend':
            raise Unsupported('users.extend')
        raise Unsupported('users list method ' + name)

    def m_setitem(self, it, k, v):
        # operand_users[operand_users.index(old)] = new   ->  one occurrence of old replaced by new
        if not isinstance(k, UsersIndex):
            raise Unsupported('positional write into a users list')
        old, h, kt = self.h.S, self.h, self.kt
        a, b = k.xt, it.label_term(v)
        S = old.copy()
        def cnt2(g, u, oc=old.cnt):
            c = oc(g, u)
            return z3.If(z3.And(g == kt, a != b), z3.If(u == a, c - 1, z3.If(u == b, c + 1, c)), c)
        S.cnt = cnt2
        h.S = S

    prefix = []

    @property
    def n(self):
        return self.h.S.tot(self.kt)

    def elem(self, j):
        return self.h.S.uelem(self.kt, j)

    def concrete_len(self, it=None):
        return None

    def m_iter(self, it):
        raise Unsupported('iteration over a users list of an abstract circuit needs an invariant')

    def m_truth(self, it):
        return self.h.S.tot(self.kt) > 0


class UsersIndex:
    def __init__(self, kt, xt):
        self.kt, self.xt = kt, xt


class UsersMap(Model):
    def __init__(self, h):
        self.h = h

    def m_contains(self, it, k):
        try:
            return _simp(self.h.S.udom(it.label_term(k)))
        except Unsupported:
            return False

    def m_getitem(self, it, k):
        kt = it.label_term(k)
        if not it.ctx.choose(_simp(self.h.S.udom(kt))):
            it.raise_('KeyError', 'users')
        return UsersRef(self.h, kt)

    def m_getattr(self, it, name):
        if name == 'pop':
            def pop(k, *default):
                kt = it.label_term(k)
                if it.ctx.choose(_simp(self.h.S.udom(kt))):
                    snap = self.h.S
                    self.m_delitem(it, k)
                    h2 = Holder(snap, self.h.name + '!popped')       # the removed list, as it was
                    return UsersRef(h2, kt)
                if not default:
                    it.raise_('KeyError', 'users')
                return default[0]
            return Native('users.pop', pop)
        if name == 'get':
            def get(k, default=None):
                kt = it.label_term(k)
                if it.ctx.choose(_simp(self.h.S.udom(kt))):
                    return UsersRef(self.h, kt)
                return default
            return Native('users.get', get)
        raise Unsupported(f'_gate_to_users.{name} on an abstract circuit')

    def m_setitem(self, it, k, v):
        old = self.h.S
        kt = it.label_term(k)
        S = old.copy()
        if isinstance(v, VList):
            items = [it.label_term(x) for x in v.items]
            S.cnt = lambda g, u: z3.If(g == kt, z3.Sum([z3.If(x == u, 1, 0) for x in items]) if items else z3.IntVal(0), old.cnt(g, u))
            S.tot = lambda g: z3.If(g == kt, z3.IntVal(len(items)), old.tot(g))
        elif isinstance(v, UsersRef):
            src = v.kt
            self.h.events.append(('users-alias', kt, src))
            S.cnt = lambda g, u: z3.If(g == kt, old.cnt(src, u), old.cnt(g, u))
            S.tot = lambda g: z3.If(g == kt, old.tot(src), old.tot(g))
            S.uelem = lambda g, j: z3.If(g == kt, old.uelem(src, j), old.uelem(g, j))
        else:
            raise Unsupported('users[...] = ' + type(v).__name__)
        S.udom = lambda l: z3.Or(l == kt, old.udom(l))
        self.h.S = S

    def m_delitem(self, it, k):
        old = self.h.S
        kt = it.label_term(k)
        if not it.ctx.choose(_simp(old.udom(kt))):
            it.raise_('KeyError', 'users')
        S = old.copy()
        self.h.events.append(('users-del', kt))
        S.udom = lambda l: z3.And(l != kt, old.udom(l))
        S.cnt = lambda g, u: z3.If(g == kt, 0, old.cnt(g, u))
        S.tot = lambda g: z3.If(g == kt, 0, old.tot(g))
        self.h.S = S


class LabelList(Model):
    """circuit._inputs / circuit._outputs: length, positional view and count view.
    Only the operations whose effect on both views is simple are modelled."""

    def __init__(self, h, which):
        self.h, self.w = h, which      # which: 'in' | 'out'

    def _get(self, S):
        return getattr(S, self.w + '_n'), getattr(S, self.w + '_elem'), getattr(S, self.w + '_cnt')

    prefix = []

    @property
    def n(self):
        return self._get(self.h.S)[0]

    def elem(self, i):
        return self._get(self.h.S)[1](i)

    def concrete_len(self, it=None):
        return None

    def m_len(self, it):
        return Sym(self._get(self.h.S)[0])

    def m_contains(self, it, x):
        try:
            return _simp(self._get(self.h.S)[2](it.label_term(x)) > 0)
        except Unsupported:
            return False

    def m_getitem(self, it, k):
        n, elem, cnt = self._get(self.h.S)
        if isinstance(k, slice):
            raise Unsupported('slice of abstract label list')
        kt = it.int_term(k)
        if not it.ctx.choose(_simp(z3.And(kt >= -n, kt < n))):
            it.raise_('IndexError', 'list index out of range')
        return Sym(elem(z3.simplify(z3.If(kt < 0, kt + n, kt))))

    def m_positions_eq(self, it, x):
        """[i for i, y in enumerate(self) if y == x]: the strictly increasing enumeration pos(0..m-1) of ALL positions
        holding x, m = count(x) (semantics of the filter comprehension; inv is the inverse enumeration)"""
        from .models import SymSeq
        n, elem, cnt = self._get(self.h.S)
        xt = it.label_term(x)
        LabelList._np = getattr(LabelList, '_np', 0) + 1
        pos = z3.Function(f'pos!{LabelList._np}', I, I)
        inv = z3.Function(f'posinv!{LabelList._np}', I, I)
        m = cnt(xt)
        j, i = z3.Int('j!ps'), z3.Int('i!ps')
        ctx = it.ctx
        ctx.assume(z3.ForAll([j], z3.Implies(z3.And(j >= 0, j < m), z3.And(pos(j) >= 0, pos(j) < n, elem(pos(j)) == xt, inv(pos(j)) == j)), patterns=[pos(j)]))
        ctx.assume(z3.ForAll([j], z3.Implies(z3.And(j >= 0, j + 1 < m), pos(j) < pos(j + 1)), patterns=[pos(j + 1)]))
        ctx.assume(z3.ForAll([i], z3.Implies(z3.And(i >= 0, i < n, elem(i) == xt), z3.And(inv(i) >= 0, inv(i) < m, pos(inv(i)) == i)), patterns=[inv(i)]))
        seq = SymSeq([], m, lambda jj: pos(jj), 'list')
        seq.positions_of = (self, xt, pos, inv, (n, elem, cnt))
        return seq

    def m_setitem(self, it, k, v):
        """self[k] = v  for an int position k (symbolic) or the token returned by .index(x)"""
        old = self.h.S
        n, elem, cnt = self._get(old)
        vt = it.label_term(v)
        if isinstance(k, ListIndex):
            p = it.ctx.fresh(I, 'firstpos')
            j = z3.Int('j!fp')
            it.ctx.assume(z3.And(p >= 0, p < n, elem(p) == k.xt))
            it.ctx.assume(z3.ForAll([j], z3.Implies(z3.And(j >= 0, j < p), elem(j) != k.xt)))
            pt = p
        else:
            pt = it.int_term(k)
            if not it.ctx.choose(_simp(z3.And(pt >= -n, pt < n))):
                it.raise_('IndexError', 'list assignment index out of range')
            pt = z3.simplify(z3.If(pt < 0, pt + n, pt))
        was = elem(pt)
        S = old.copy()
        w = self.w
        setattr(S, w + '_elem', lambda i: z3.If(i == pt, vt, elem(i)))

        def c2(l, cnt=cnt):
            c = cnt(l)
            return c - z3.If(l == was, 1, 0) + z3.If(l == vt, 1, 0)
        setattr(S, w + '_cnt', c2)
        self.h.S = S

    def m_getattr(self, it, name):
        h, w = self.h, self.w
        if name == 'index':
            def index(x, *a):
                if a:
                    raise Unsupported('index with bounds')
                xt = it.label_term(x)
                if not it.ctx.choose(_simp(self._get(h.S)[2](xt) > 0)):
                    it.raise_('ValueError', 'x not in list')
                return ListIndex(xt)
            return Native('labels.index', index)
        if name == 'append':
            def append(x):
                old, xt = h.S, it.label_term(x)
                n, elem, cnt = self._get(old)
                S = old.copy()
                setattr(S, w + '_n', n + 1)
                setattr(S, w + '_elem', lambda i: z3.If(i == n, xt, elem(i)))
                setattr(S, w + '_cnt', bump1(cnt, lambda l: l == xt, 1))
                h.S = S
            return Native('labels.append', append)
        if name == 'remove':
            def remove(x):
                old, xt = h.S, it.label_term(x)
                n, elem, cnt = self._get(old)
                if not it.ctx.choose(_simp(cnt(xt) > 0)):
                    it.raise_('ValueError', 'list.remove(x): x not in list')
                S = old.copy()
                # list.remove(x): the FIRST occurrence (position p) disappears, later positions shift left by one
                p = it.ctx.fresh(I, w + '_rmpos')
                j = z3.Int('j!rm')
                it.ctx.assume(z3.And(p >= 0, p < n, elem(p) == xt))
                it.ctx.assume(z3.ForAll([j], z3.Implies(z3.And(j >= 0, j < p), elem(j) != xt)))
                c2 = bump1(cnt, lambda l: l == xt, -1)
                e2 = lambda i, elem=elem, p=p: z3.If(i < p, elem(i), elem(i + 1))
                setattr(S, w + '_n', n - 1)
                setattr(S, w + '_elem', e2)
                setattr(S, w + '_cnt', c2)
                h.S = S
                it.ctx.assume(z3.ForAll([j], z3.Implies(z3.And(j >= 0, j < n - 1), c2(e2(j)) >= 1)))       # representation fact of the shorter list
            return Native('labels.remove', remove)
        raise Unsupported(f'label list method {name}')

    def m_iter(self, it):
        raise Unsupported('iteration over inputs/outputs of an abstract circuit needs an invariant')

    def count(self, l):
        return self._get(self.h.S)[2](l)

    def m_copy_list(self, it):
        n, elem, cnt = self._get(self.h.S)
        return AbsLabelSeq(it.ctx, n=n, elem=elem, count=cnt, assume=False)

    def m_mutable_copy(self, it):
        n, elem, cnt = self._get(self.h.S)
        return _mutable_copy(n, elem, cnt)

    def m_dictcomp(self, it, e, env, module):
        """{x: D[x] for x in L}: the restriction of the abstract map D to the labels of L (every label must be a key)"""
        import ast as _ast
        g = e.generators[0]
        if not (isinstance(g.target, _ast.Name) and isinstance(e.key, _ast.Name) and e.key.id == g.target.id and isinstance(e.value, _ast.Subscript)
                and isinstance(e.value.slice, _ast.Name) and e.value.slice.id == g.target.id and isinstance(e.value.value, _ast.Name)):
            raise Unsupported('dict comprehension shape over a label list')
        d = it.lookup_name(e.value.value.id, env, module)
        if not hasattr(d, 'm_restrict'):
            raise Unsupported('dict comprehension over a label list: value map of type ' + type(d).__name__)
        n, elem, cnt = self._get(self.h.S)
        return d.m_restrict(it, n, elem, cnt)

    def m_filter_view(self, it, pred):
        n, elem, cnt = self._get(self.h.S)
        return FilterView(it, n, elem, cnt, pred)

    def m_listcomp_filter_neq(self, it, x):
        """[e for e in self if e != x]  ->  every occurrence of x removed (order of the rest kept)"""
        n, elem, cnt = self._get(self.h.S)
        xt = it.label_term(x)
        # order-preserving sub-list (FilterView: strictly increasing embedding onto the positions that do not hold x) whose length
        # is known from the count view; the conformance test (conformance.py) showed that the earlier count-only description left
        # the ORDER of the remaining elements open (sound, but nothing about order could be proved after _remove_gate)
        fv = FilterView(it, n, elem, cnt, lambda l: l != xt)
        it.ctx.assume(fv.n == n - cnt(xt))
        return fv


class MutLabelList(Model):
    """a local python list of labels of symbolic length: n, positional view elem(i), count view count(l); supports
    `in`, len, remove(x) (first occurrence), append; iteration only under a loop invariant"""
    prefix = []

    def __init__(self, n, elem, count):
        self.n, self.elem, self.count = n, elem, count

    def concrete_len(self, it=None):
        return None

    def assume_rep(self, it):
        """representation facts of every python list (count view vs. length / positions)"""
        l, i = z3.Const('l!mr', LabelSort), z3.Int('i!mr')
        n, elem, count = self.n, self.elem, self.count
        it.ctx.assume(n >= 0)
        it.ctx.assume(z3.ForAll([l], z3.And(count(l) >= 0, count(l) <= n)))
        it.ctx.assume(z3.ForAll([i], z3.Implies(z3.And(i >= 0, i < n), count(elem(i)) >= 1)))

    def m_len(self, it):
        return Sym(self.n)

    def m_contains(self, it, x):
        return _simp(self.count(it.label_term(x)) > 0)

    def m_getattr(self, it, name):
        if name == 'remove':
            def remove(x):
                xt = it.label_term(x)
                if not it.ctx.choose(_simp(self.count(xt) > 0)):
                    it.raise_('ValueError', 'list.remove(x): x not in list')
                n, elem, count = self.n, self.elem, self.count
                p = it.ctx.fresh(I, 'rmpos')
                j = z3.Int('j!rm')
                it.ctx.assume(z3.And(p >= 0, p < n, elem(p) == xt))                                   # first occurrence of x
                it.ctx.assume(z3.ForAll([j], z3.Implies(z3.And(j >= 0, j < p), elem(j) != xt)))
                self.n = n - 1
                self.elem = lambda i: z3.If(i < p, elem(i), elem(i + 1))
                self.count = lambda l: count(l) - z3.If(l == xt, 1, 0)
                self.assume_rep(it)
            return Native('list.remove', remove)
        if name == 'append':
            def append(x):
                xt = it.label_term(x)
                n, elem, count = self.n, self.elem, self.count
                self.n = n + 1
                self.elem = lambda i: z3.If(i == n, xt, elem(i))
                self.count = lambda l: count(l) + z3.If(l == xt, 1, 0)
            return Native('list.append', append)
        raise Unsupported('local label list: .' + name)

    def m_getitem(self, it, k):
        kt = it.int_term(k)
        if not it.ctx.choose(_simp(z3.And(kt >= -self.n, kt < self.n))):
            it.raise_('IndexError', 'list index out of range')
        return Sym(self.elem(z3.simplify(z3.If(kt < 0, kt + self.n, kt))))

    def m_iter(self, it):
        raise Unsupported('iteration over a label list of symbolic length needs a loop invariant')


class TailList(Model):
    """a python list = concrete items followed by the first k elements of src (a MutLabelList that is no longer
    modified): the closed form of `for e in src: new_list.append(e)`. append(x) is only accepted for x = src[k]."""
    prefix = []

    def __init__(self, items, src, k):
        self.items, self.src, self.k = list(items), src, k

    @property
    def n(self):
        return z3.IntVal(len(self.items)) + self.k

    def elem(self, i):
        r = self.src.elem(i - len(self.items))
        for j in range(len(self.items) - 1, -1, -1):
            r = z3.If(i == j, self.items[j], r)
        return r

    def count_upto(self, l):
        """count view, valid when k = len(src) (the whole source was appended)"""
        return (z3.Sum([z3.If(x == l, 1, 0) for x in self.items]) if self.items else z3.IntVal(0)) + self.src.count(l)

    count = count_upto

    def concrete_len(self, it=None):
        return None

    def m_len(self, it):
        return Sym(self.n)

    def m_getattr(self, it, name):
        if name == 'append':
            def append(x):
                it.ctx.check('appended-element-is-the-next-of-the-source', it.label_term(x) == self.src.elem(self.k))
                self.k = self.k + 1
            return Native('list.append', append)
        raise Unsupported('list built from a symbolic tail: .' + name)


def _mutable_copy(n, elem, count):
    return MutLabelList(n, (lambda i, elem=elem: elem(i)), (lambda l, count=count: count(l)))


class FilterView(Model):
    """[x for x in src if P(x)] for a label list src of symbolic length: an order-preserving sub-list.
    count(l) = count_src(l) if P(l) else 0; positions through a strictly increasing embedding emb into the positions of
    src whose image is exactly the positions satisfying P (semantics of the filter comprehension); when P holds
    everywhere the view is src itself."""
    prefix = []
    is_label_list_view = True
    _k = 0

    def __init__(self, it, src_n, src_elem, src_count, pred):
        FilterView._k += 1
        k = FilterView._k
        ctx = it.ctx
        self.pred = pred
        self.n = ctx.fresh(I, 'flt_n')
        ef = z3.Function(f'flt_elem!{k}', I, LabelSort)
        emb = z3.Function(f'flt_emb!{k}', I, I)
        inv = z3.Function(f'flt_inv!{k}', I, I)
        idx = z3.Function(f'flt_idx!{k}', LabelSort, I)
        self.elem = lambda i: ef(i)
        self.count = lambda l: z3.If(pred(l), src_count(l), 0)
        self.emb = lambda i: emb(i)
        i, j, l = z3.Int('i!fv'), z3.Int('j!fv'), z3.Const('l!fv', LabelSort)
        n = self.n
        ctx.assume(z3.And(n >= 0, n <= src_n))
        ctx.assume(z3.ForAll([i], z3.Implies(z3.And(i >= 0, i < n), z3.And(emb(i) >= 0, emb(i) < src_n, ef(i) == src_elem(emb(i)), pred(ef(i)), inv(emb(i)) == i)), patterns=[ef(i)]))
        ctx.assume(z3.ForAll([i, j], z3.Implies(z3.And(i >= 0, i < j, j < n), emb(i) < emb(j)), patterns=[z3.MultiPattern(emb(i), emb(j))]))
        ctx.assume(z3.ForAll([j], z3.Implies(z3.And(j >= 0, j < src_n, pred(src_elem(j))), z3.And(inv(j) >= 0, inv(j) < n, emb(inv(j)) == j)), patterns=[inv(j)]))
        ctx.assume(z3.ForAll([l], z3.Implies(self.count(l) > 0, z3.And(idx(l) >= 0, idx(l) < n, ef(idx(l)) == l))))
        # a filter whose predicate holds for every element is the identity
        ctx.assume(z3.Implies(z3.ForAll([j], z3.Implies(z3.And(j >= 0, j < src_n), pred(src_elem(j)))),
                              z3.And(n == src_n, z3.ForAll([i], z3.Implies(z3.And(i >= 0, i < n), ef(i) == src_elem(i))))))

    def concrete_len(self, it=None):
        return None

    def m_len(self, it):
        return Sym(self.n)

    def m_contains(self, it, x):
        return _simp(self.count(it.label_term(x)) > 0)

    def m_copy_list(self, it):
        return self

    def m_iter(self, it):
        raise Unsupported('iteration over a filtered label list needs a loop invariant')


class ConcatView(Model):
    """A + B for two label lists of symbolic length: length n1 + n2, positions of A then of B, counts add up"""
    prefix = []
    is_label_list_view = True

    def __init__(self, a, b):
        self.a, self.b = a, b
        self.n = a.n + b.n

    def elem(self, i):
        return z3.If(i < self.a.n, self.a.elem(i), self.b.elem(i - self.a.n))

    def count(self, l):
        return self.a.count(l) + self.b.count(l)

    def concrete_len(self, it=None):
        return None

    def m_len(self, it):
        return Sym(self.n)

    def m_contains(self, it, x):
        return _simp(self.count(it.label_term(x)) > 0)

    def m_copy_list(self, it):
        return self

    def m_iter(self, it):
        raise Unsupported('iteration over a concatenated label list needs a loop invariant')


def concat_label_lists(a, b):
    ok = lambda v: isinstance(v, (FilterView, ConcatView, AbsLabelSeq, MappedView)) or getattr(v, 'is_label_list_view', False)
    if ok(a) and ok(b):
        return ConcatView(a, b)
    return NOTFOUND


class NameMap(Model):
    """dict label -> label (old_to_new_names of connect_circuit without prefix): the connector pairs c_i -> t_i, every
    other key mapped to itself; dom(l) = the keys present"""

    def __init__(self, pairs, idkeys):
        self.pairs = list(pairs)          # [(c_i term, t_i term)]
        self.idkeys = idkeys              # l -> Bool: keys mapped to themselves

    def isconn(self, l):
        return z3.Or([l == c for c, _ in self.pairs]) if self.pairs else z3.BoolVal(False)

    def dom(self, l):
        return z3.Or(self.isconn(l), self.idkeys(l))

    def val(self, l):
        r = l
        for c, t in reversed(self.pairs):
            r = z3.If(l == c, t, r)
        return r

    def m_contains(self, it, k):
        return _simp(self.dom(it.label_term(k)))

    def m_getitem(self, it, k):
        kt = it.label_term(k)
        if not it.ctx.choose(_simp(self.dom(kt))):
            it.raise_('KeyError', 'name map')
        return Sym(z3.simplify(self.val(kt)))

    def m_setitem(self, it, k, v):
        kt, vt = it.label_term(k), it.label_term(v)
        it.ctx.check('name-map/new-key-maps-to-itself', z3.And(kt == vt, z3.Not(self.isconn(kt))), {'witness': 'name-map'})
        old = self.idkeys
        self.idkeys = lambda l: z3.Or(l == kt, old(l))

    def mapped_count(self, count):
        """count view of the image of a sequence (with count view `count`) whose elements are keys of the map"""
        def c2(g):
            r = z3.If(self.isconn(g), 0, count(g))
            for c, t in self.pairs:
                r = r + z3.If(g == t, count(c), 0)
            return r
        return c2

    def m_map_lookup(self, it, src):
        """tuple(D[x] for x in ops): every element must be a key (KeyError otherwise)"""
        i = it.ctx.fresh(I, 'imap')
        if not it.ctx.choose(_simp(z3.Implies(z3.And(i >= 0, i < src.n), self.dom(src.elem(i))))):
            it.raise_('KeyError', 'name map')
        j = z3.Int('j!map')
        it.ctx.assume(z3.ForAll([j], z3.Implies(z3.And(j >= 0, j < src.n), self.dom(src.elem(j)))))      # (the lookup loop did not raise)
        o = OpsSeq(src.n, (lambda q: self.val(src.elem(q))), self.mapped_count(src.count))
        o.prefix = []
        return o

    def m_map_view(self, it, fv):
        # [D[x] for x in L]: a label that is not a key would raise KeyError in the real code
        i = it.ctx.fresh(I, 'imv')
        it.ctx.check('name-map/every-listed-label-is-a-key', z3.Implies(z3.And(i >= 0, i < fv.n), self.dom(fv.elem(i))), {'witness': 'name-map'})
        return MappedView(self, fv)


class MappedView(Model):
    """[D[x] for x in L]: element-wise image of a label list view under a NameMap"""
    prefix = []
    is_label_list_view = True

    def __init__(self, nm, src):
        self.nm, self.src = nm, src
        self.n = src.n
        self.count = nm.mapped_count(src.count)

    def elem(self, i):
        return self.nm.val(self.src.elem(i))

    def concrete_len(self, it=None):
        return None

    def m_len(self, it):
        return Sym(self.n)

    def m_contains(self, it, x):
        return _simp(self.count(it.label_term(x)) > 0)

    def m_copy_list(self, it):
        return self

    def m_iter(self, it):
        raise Unsupported('iteration over a mapped label list needs a loop invariant')


class ListIndex:
    """result of list.index(x): the first position holding x (only used to write back into the same list)"""

    def __init__(self, xt):
        self.xt = xt


class GenericBlock(Model):
    """the one generic block of the abstract blocks map (fields read the current state)"""

    def __init__(self, h):
        self.h = h

    def m_getattr(self, it, name):
        h = self.h
        if name in ('name', '_name'):
            return Sym(h.S.b_name)
        if name in ('gates', '_gates', 'inputs', '_inputs', 'outputs', '_outputs'):
            return BlockList(h, {'g': 'bg', 'i': 'bi', 'o': 'bo'}[name.lstrip('_')[0]])
        if name == '_rename_gate':
            # summary of Block._rename_gate (its body is verified separately on lists of concrete length, C19):
            # every occurrence of old in inputs / gates / outputs becomes new
            def rename(old_label, new_label):
                a, b = it.label_term(old_label), it.label_term(new_label)
                old = h.S
                S = old.copy()
                for fld in ('bg', 'bi', 'bo'):
                    f = getattr(old, fld)

                    def sub(l, f=f):
                        return z3.If(a == b, f(l), z3.If(l == b, f(b) + f(a), z3.If(l == a, 0, f(l))))
                    setattr(S, fld, sub)
                h.S = S
                return self
            return Native('Block._rename_gate', rename)
        raise Unsupported('Block.' + name)


class BlockList(Model):
    def __init__(self, h, fld):
        self.h, self.fld = h, fld

    def seq_view(self, it):
        """the list seen as a sequence: length and positions are fresh symbols linked to the count view by the
        representation facts of python lists (AbsLabelSeq assumptions)"""
        key = (self.h.name, self.fld, id(self.h.S))
        cache = it.ctx.__dict__.setdefault('_blocklist_views', {})
        if key not in cache:
            f = getattr(self.h.S, self.fld)
            cache[key] = AbsLabelSeq(it.ctx, tag=f'blk_{self.fld}_{len(cache)}', count=(lambda l, f=f: f(l)), assume=True)
        return cache[key]

    def m_copy_list(self, it):
        return self.seq_view(it)

    # iteration under a loop invariant (check_gates_exist): the sequence view, bound by the loop spec
    prefix = []

    def bind(self, it):
        self._view = self.seq_view(it)
        return self

    @property
    def n(self):
        return self._view.n

    def elem(self, i):
        return self._view.elem(i)

    def count(self, l):
        return getattr(self.h.S, self.fld)(l)

    def concrete_len(self, it=None):
        return None

    def m_contains(self, it, x):
        return _simp(getattr(self.h.S, self.fld)(it.label_term(x)) > 0)

    def m_getattr(self, it, name):
        if name == 'append':
            def append(x):
                old, xt, fld = self.h.S, it.label_term(x), self.fld
                f = getattr(old, fld)
                S = old.copy()
                setattr(S, fld, bump1(f, lambda l: l == xt, 1))
                self.h.S = S
            return Native('block.list.append', append)
        raise Unsupported('block list method ' + name)


class BlocksValues(Model):
    """circuit.blocks.values(): the loop body is executed once, for the generic block, guarded by its
    membership (iterations over distinct blocks are independent: each writes only its own block)."""

    def __init__(self, h):
        self.h = h

    def m_iter(self, it):
        if it.ctx.choose(_simp(self.h.S.b_member)):
            yield GenericBlock(self.h)


class BlocksMap(Model):
    def __init__(self, h):
        self.h = h

    def m_contains(self, it, k):
        # an arbitrary name may or may not be a block: membership of names other than the generic one is unknown
        kt = it.label_term(k)
        return _simp(z3.Or(z3.And(self.h.S.b_member, self.h.S.b_name == kt), self.h.other_block(kt)))

    def m_getattr(self, it, name):
        if name == 'values':
            return Native('blocks.values', lambda: BlocksValues(self.h))
        raise Unsupported('_blocks.' + name)

    def m_getitem(self, it, k):
        raise Unsupported('_blocks[name] on abstract circuit')

    def m_setitem(self, it, k, v):
        # insertion of a concrete new block: the generic block of the new map is either the old generic one or the new one
        if not (isinstance(v, Obj) and v.cls.name == 'Block'):
            raise Unsupported('_blocks[...] = non-block')
        old = self.h.S
        kt = it.label_term(k)
        # which block of the new map is "the" generic one: the inserted block or the old generic one (fork); a map that provably has no
        # tracked block (a freshly built circuit) tracks the inserted one
        bm = old.b_member if z3.is_expr(old.b_member) else z3.BoolVal(bool(old.b_member))
        no_tracked = z3.is_false(z3.simplify(bm)) or not it.ctx.feasible(bm)          # entailed by the path condition
        which = z3.BoolVal(True) if no_tracked else it.ctx.fresh(B, 'generic_is_new')
        if it.ctx.choose(which):
            S = old.copy()
            def cntf(lst):
                if hasattr(lst, 'count') and not isinstance(lst, VList):
                    return lambda l, lst=lst: lst.count(l)
                items = [it.label_term(x) for x in it.iterate(lst)]
                return lambda l, items=items: z3.Sum([z3.If(x == l, 1, 0) for x in items]) if items else z3.IntVal(0)
            S.b_member, S.b_name = z3.BoolVal(True), kt
            S.bg, S.bi, S.bo = cntf(v.fields['_gates']), cntf(v.fields['_inputs']), cntf(v.fields['_outputs'])
            self.h.S = S
            # aliasing: the member lists of the inserted block must be lists of its own - not the live list of another block /
            # circuit (a BlockList / LabelList model of some heap) and not a list that exists since before the call
            for fld in ('_gates', '_inputs', '_outputs'):
                lst = v.fields[fld]
                if isinstance(lst, (BlockList, LabelList)) or (isinstance(lst, VList) and lst.born < (getattr(it.ctx, 't_setup', None) or 0)):
                    self.h.events.append(('block-shares-list', fld, type(lst).__name__))
        else:
            S = old.copy()
            S.b_member = z3.And(old.b_member, old.b_name != kt)     # a block of that name is replaced
            self.h.S = S

    def m_delitem(self, it, k):
        old = self.h.S
        kt = it.label_term(k)
        has = _simp(z3.Or(z3.And(old.b_member, old.b_name == kt), self.h.other_block(kt)))
        if not it.ctx.choose(has):
            it.raise_('KeyError', 'block')
        S = old.copy()
        S.b_member = z3.And(old.b_member, old.b_name != kt)
        self.h.S = S


def make_circuit(it, ctx, tag='c', wf=True, empty=False):
    """An interpreted Circuit object in an arbitrary (WF) state. Returns (obj, holder)."""
    cm = it.load_module('cirbo.core.circuit.circuit')
    cls = cm.env['Circuit']
    S = empty_state() if empty else fresh_state(tag)
    h = Holder(S, tag)
    ob = z3.Function(f'other_block@{tag}', LabelSort, B)
    h.other_block = lambda kt: ob(kt)
    if not empty:
        assume_state(ctx, S, wf=wf, tag=tag)
    h.V = z3.Function(f'V@{tag}', LabelSort, B)
    o = Obj(cls, {'_inputs': LabelList(h, 'in'), '_outputs': LabelList(h, 'out'), '_gates': GatesMap(h),
                  '_gate_to_users': UsersMap(h), '_blocks': BlocksMap(h)})
    h.obj = o
    h.S0 = S
    o.holder = h
    return o, h


class UsersLoop:
    """Loop `for operand in <ops>: circuit._add_user/_remove_user(operand, lab)` over an operand tuple of
    symbolic arity, by the prefix-count view pc(k, x) = #{i < k : ops[i] = x}  (closed-form state per iteration).
    sign = +1 (add) / -1 (remove)."""
    _n = 0

    def __init__(self, holder, get, sign):
        self.h, self.get, self.sign = holder, get, sign
        self.base = None

    def applies(self, it, env, iterable):
        self.iterable = iterable
        return isinstance(iterable, OpsSeq) and iterable.concrete_len(it) is None

    def _setup(self, it, env):
        if self.base is not None:
            return
        UsersLoop._n += 1
        if callable(self.get):
            ops, lab = self.get(it, env)
        else:                       # the operand tuple is the iterated sequence itself; get = the user label
            ops, lab = self.iterable, self.get
        self.ops, self.lab = ops, lab
        self.base = self.h.S
        pc = z3.Function(f'pc!{UsersLoop._n}', I, LabelSort, I)
        self.pc = pc
        k, x = z3.Int('k!pc'), z3.Const('x!pc', LabelSort)
        n = ops.n
        ctx = it.ctx
        ctx.assume(z3.ForAll([x], pc(0, x) == 0))
        ctx.assume(z3.ForAll([k, x], z3.Implies(z3.And(k >= 0, k < n), pc(k + 1, x) == pc(k, x) + z3.If(ops.elem(k) == x, 1, 0)), patterns=[pc(k + 1, x)]))
        # representation facts of tuples (background lemmas): the count view is the full prefix count; prefix counts are monotone
        ctx.assume(z3.ForAll([x], pc(n, x) == ops.count(x)))
        ctx.assume(z3.ForAll([k, x], z3.Implies(z3.And(k >= 0, k <= n), z3.And(pc(k, x) >= 0, pc(k, x) <= ops.count(x))), patterns=[pc(k, x)]))

    def closed(self, k):
        base, pc, lab, sg = self.base, self.pc, self.lab, self.sign
        S = base.copy()
        S.cnt = lambda G, U: z3.If(U == lab, base.cnt(G, U) + sg * pc(k, G), base.cnt(G, U))
        S.tot = lambda G: base.tot(G) + sg * pc(k, G)
        if sg > 0:
            S.udom = lambda G: z3.Or(base.udom(G), pc(k, G) > 0)
        return S

    def inv(self, it, env, k):
        self._setup(it, env)
        cur, want = self.h.S, self.closed(k)
        G, U = it.ctx.fresh(LabelSort, 'Gl'), it.ctx.fresh(LabelSort, 'Ul')
        out = [('cnt', cur.cnt(G, U) == want.cnt(G, U)), ('tot', cur.tot(G) == want.tot(G)), ('udom', cur.udom(G) == want.udom(G))]
        # everything else must be untouched by the loop
        i = it.ctx.fresh(I, 'il')
        out.append(('frame', z3.And(cur.dom(G) == self.base.dom(G), cur.typ(G) == self.base.typ(G), cur.opc(G, U) == self.base.opc(G, U),
                                    cur.nops(G) == self.base.nops(G), cur.op(G, i) == self.base.op(G, i), cur.in_n == self.base.in_n, cur.out_n == self.base.out_n)))
        return out

    def install(self, it, env, k):
        self._setup(it, env)
        self.h.S = self.closed(k)


# ------------------------------------------------------------------ callee contracts ----------
CIRC = 'cirbo/core/circuit/circuit.py'


def add_user_post(old, kt, ut):
    """contract of Circuit._add_user(gate_label=kt, user=ut): one more occurrence of ut in users[kt]; key present"""
    S = old.copy()
    S.cnt = bump2(old.cnt, lambda g, u: z3.And(g == kt, u == ut), 1)
    S.tot = bump1(old.tot, lambda g: g == kt, 1)
    S.udom = lambda l: z3.Or(l == kt, old.udom(l))
    return S


def remove_user_post(old, kt, ut):
    """contract of Circuit._remove_user(gate_label=kt, user=ut): one occurrence less if there is one, else nothing"""
    S = old.copy()
    has = old.cnt(kt, ut) > 0
    S.cnt = bump2(old.cnt, lambda g, u: z3.And(g == kt, u == ut, has), -1)
    S.tot = bump1(old.tot, lambda g: z3.And(g == kt, has), -1)
    return S


def install_user_contracts(it):
    """Modular call rule for the two users-index primitives (their own bodies are verified against these
    contracts by C02: obligations C02/_add_user/*, C02/_remove_user/*)."""
    def add_user(it_, fv, args, kwargs):
        self_, gl, user = _bind3(args, kwargs, ('gate_label', 'user'))
        h = getattr(self_, 'holder', None)
        if h is None:
            return it_.call_function(fv, args, kwargs, force_inline=True)
        h.S = add_user_post(h.S, it_.label_term(gl), it_.label_term(user))
        return None

    def remove_user(it_, fv, args, kwargs):
        self_, gl, user = _bind3(args, kwargs, ('gate_label', 'user'))
        h = getattr(self_, 'holder', None)
        if h is None:
            return it_.call_function(fv, args, kwargs, force_inline=True)
        h.S = remove_user_post(h.S, it_.label_term(gl), it_.label_term(user))
        return None
    it.contracts[CIRC + '::Circuit._add_user'] = add_user
    it.contracts[CIRC + '::Circuit._remove_user'] = remove_user


def _bind3(args, kwargs, names):
    args = list(args)
    vals = [args[0]]
    rest = args[1:]
    for i, n in enumerate(names):
        vals.append(rest[i] if i < len(rest) else kwargs[n])
    return vals


# ------------------------------------------------------------------ symbolic argument values ----
class AbsLabelSeq(Model):
    """An arbitrary sequence of labels (argument such as `operands`, `outputs`, `gates`): length n, positional
    view elem(i), count view count(l), linked by  count(l) > 0  <=>  some position holds l."""
    _k = 0

    def __init__(self, ctx, tag=None, n=None, elem=None, count=None, assume=True):
        AbsLabelSeq._k += 1
        tag = tag or f'seq{AbsLabelSeq._k}'
        self.n = n if n is not None else z3.Int(f'n@{tag}')
        ef = z3.Function(f'elem@{tag}', I, LabelSort)
        cf = z3.Function(f'count@{tag}', LabelSort, I)
        self.elem = elem or (lambda i: ef(i))
        self.count = count or (lambda l: cf(l))
        self.prefix = []
        if assume:
            idx = z3.Function(f'idx@{tag}', LabelSort, I)
            i, l = z3.Int(f'i@{tag}'), z3.Const(f'l@{tag}', LabelSort)
            ctx.assume(self.n >= 0)
            ctx.assume(z3.ForAll([l], z3.And(self.count(l) >= 0, self.count(l) <= self.n,
                                             z3.Implies(self.count(l) > 0, z3.And(idx(l) >= 0, idx(l) < self.n, self.elem(idx(l)) == l)))))
            ctx.assume(z3.ForAll([i], z3.Implies(z3.And(i >= 0, i < self.n), self.count(self.elem(i)) >= 1)))

    def concrete_len(self, it=None):
        n = z3.simplify(self.n)
        return n.as_long() if z3.is_int_value(n) else None

    def m_mutable_copy(self, it):
        return _mutable_copy(self.n, self.elem, self.count)

    def m_filter_view(self, it, pred):
        return FilterView(it, self.n, self.elem, self.count, pred)

    def m_len(self, it):
        return Sym(self.n)

    def m_getitem(self, it, k):
        if isinstance(k, slice):
            raise Unsupported('slice of abstract label sequence')
        kt = it.int_term(k)
        if not it.ctx.choose(_simp(z3.And(kt >= -self.n, kt < self.n))):
            it.raise_('IndexError', 'index out of range')
        return Sym(self.elem(z3.simplify(z3.If(kt < 0, kt + self.n, kt))))

    def m_contains(self, it, x):
        try:
            return _simp(self.count(it.label_term(x)) > 0)
        except Unsupported:
            return False

    def m_iter(self, it):
        raise Unsupported('iteration over an abstract label sequence needs a loop invariant')

    def m_copy(self, it):
        return self

    def m_copy_list(self, it):
        return self             # list(seq): same views (the copy is never mutated through the original)

    def m_getattr(self, it, name):
        raise Unsupported('abstract label sequence method ' + name)


def as_ops(seq):
    """view an AbsLabelSeq as an operand tuple"""
    return OpsSeq(seq.n, seq.elem, seq.count)


class ForallInDom(object):
    """loop `for x in seq: if not circuit.has_gate(x): raise …` (validation.check_gates_exist): no state change;
    invariant: the first k elements are gates of the circuit"""

    def __init__(self, holder_of):
        self.holder_of = holder_of

    def applies(self, it, env, iterable):
        self.seq = iterable
        if isinstance(iterable, BlockList):
            iterable.bind(it)
            return True
        return (isinstance(iterable, (AbsLabelSeq, OpsSeq, LabelList)) or getattr(iterable, 'is_label_list_view', False)) and iterable.concrete_len(it) is None

    def havoc(self, it, env):
        pass

    def inv(self, it, env, k):
        seq = self.seq
        h = self.holder_of(it, env)
        i = z3.Int('i!chk')
        return [('prefix-in-dom', z3.ForAll([i], z3.Implies(z3.And(i >= 0, i < k), h.S.dom(seq.elem(i)))))]


def install_validation_loops(it):
    it.loop_specs[('cirbo/core/circuit/validation.py::check_gates_exist', 1)] = ForallInDom(lambda it_, env: env['circuit'].holder)


def sync_fields(it, h):
    """fold re-assigned `_inputs` / `_outputs` fields (self._outputs = list(...)) back into the functional state"""
    o = h.obj
    for fld, w in (('_inputs', 'in'), ('_outputs', 'out')):
        v = o.fields[fld]
        if isinstance(v, LabelList):
            continue
        S = h.S.copy()
        if isinstance(v, VList):
            items = [it.label_term(x) for x in v.items]
            n = z3.IntVal(len(items))

            def elem(i, items=items):
                r = items[-1] if items else z3.Const('nolabel', LabelSort)
                for j in range(len(items) - 2, -1, -1):
                    r = z3.If(i == j, items[j], r)
                return r
            cnt = lambda l, items=items: z3.Sum([z3.If(x == l, 1, 0) for x in items]) if items else z3.IntVal(0)
        elif isinstance(v, (AbsLabelSeq, OpsSeq, TailList, MutLabelList)) or getattr(v, 'is_label_list_view', False):
            n, elem, cnt = v.n, v.elem, v.count
        else:
            raise Unsupported(f'{fld} replaced by {type(v).__name__}')
        setattr(S, w + '_n', n)
        setattr(S, w + '_elem', elem)
        setattr(S, w + '_cnt', cnt)
        h.S = S
        o.fields[fld] = LabelList(h, w)


def install_order_contracts(it):
    """Contracts of Circuit.order_inputs / order_outputs used at call sites (rule R4). The bodies (incl. utils.order_list)
    are verified against exactly these clauses by C02/order_inputs/*, C02/order_outputs/*, C02/order_list/* for a requested
    prefix of up to 3 (resp. 2) labels and lists of any length; longer requests at call sites rely on the same clauses unproved:
    the list is permuted (count view and length unchanged, requested labels first, every position holds a label of the old
    list), nothing else changes; raises CircuitGateIsAbsentError exactly when a label is requested more often than present."""
    def make(which):
        def handler(it_, fv, args, kwargs):
            self_, labels = _bind3(args, kwargs, ('inputs' if which == 'in' else 'outputs',))[:2]
            h = getattr(self_, 'holder', None)
            if h is None:
                return it_.call_function(fv, args, kwargs, force_inline=True)
            sync_fields(it_, h)
            old = h.S
            cnt = getattr(old, which + '_cnt')
            n = getattr(old, which + '_n')
            items = [it_.label_term(x) for x in it_.iterate(labels)]
            for j, x in enumerate(items):
                need = z3.Sum([z3.If(y == x, 1, 0) for y in items[:j + 1]])
                if not it_.ctx.choose(_simp(cnt(x) >= need)):
                    m = it_.load_module('cirbo.core.circuit.exceptions')
                    raise PyRaise(it_.instantiate(m.env['CircuitGateIsAbsentError'], [], {}))
            S = old.copy()
            e2 = z3.Function(it_.ctx.fresh(I, which + '_elem_perm').decl().name(), I, LabelSort)
            setattr(S, which + '_elem', lambda i: e2(i))
            h.S = S
            j = z3.Int('j!perm')
            it_.ctx.assume(z3.ForAll([j], z3.Implies(z3.And(j >= 0, j < n), cnt(e2(j)) >= 1)))
            for k, x in enumerate(items):
                it_.ctx.assume(e2(k) == x)
            return self_
        return handler
    it.contracts[CIRC + '::Circuit.order_inputs'] = make('in')
    it.contracts[CIRC + '::Circuit.order_outputs'] = make('out')


def install_get_gate_users_contract(it):
    """Circuit.get_gate_users(label) by contract: raises GateDoesntExistError for an absent gate, else returns a view
    of users[label] (an absent key is the empty list: count 0, length 0 — representation fact R-absent-empty)."""
    def handler(it_, fv, args, kwargs):
        self_, label = _bind3(args, kwargs, ('label',))[:2]
        h = getattr(self_, 'holder', None)
        if h is None:
            return it_.call_function(fv, args, kwargs, force_inline=True)
        kt = it_.label_term(label)
        if not it_.ctx.choose(_simp(h.S.dom(kt))):
            m = it_.load_module('cirbo.core.circuit.exceptions')
            raise PyRaise(it_.instantiate(m.env['GateDoesntExistError'], [], {}))
        return UsersRef(h, kt)
    it.contracts[CIRC + '::Circuit.get_gate_users'] = handler

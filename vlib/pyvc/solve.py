"""Discharging obligations: z3 first (resource-limited, deterministic), cvc5 on z3's unknowns.
Verdicts: proved (unsat of hyps ∧ ¬goal) / refuted (sat + model) / undecided."""
import os
import time
import multiprocessing as mp
import z3

Z3_RLIMIT = int(os.environ.get('VERIF_Z3_RLIMIT', '60000000'))     # deterministic resource budget
Z3_TIMEOUT_MS = int(os.environ.get('VERIF_Z3_TIMEOUT_MS', '120000'))   # wall-clock safety net only
Z3_FIRST_MS = int(os.environ.get('VERIF_Z3_FIRST_MS', '8000'))
CVC5_TIMEOUT_MS = int(os.environ.get('VERIF_CVC5_TIMEOUT_MS', '40000'))
CVC5_QUICK_MS = int(os.environ.get('VERIF_CVC5_QUICK_MS', '5000'))
# wall-clock budget of one discharge_all call for the slow stages (cvc5, long z3): a change that breaks hundreds of
# obligations must not turn the check into hours of time-outs; past the deadline every remaining obligation still gets
# the first z3 stage and the finite-scope model search (so it is still proved / refuted when that is quick)
SLOW_BUDGET_S = int(os.environ.get('VERIF_SLOW_BUDGET_S', '600'))
AFTER_REFUTATION_S = 90       # once one obligation is refuted (the verdict is a violation anyway) the slow stages get this much longer
DEADLINE = mp.Value('d', 0.0)


def to_smt2(hyps, goal, logic=None):
    s = z3.Solver()
    for h in hyps:
        s.add(h)
    s.add(z3.Not(goal))
    return s.to_smt2()


def _z3_check_text(text, timeout_ms=None):
    s = z3.Solver()
    s.set('rlimit', Z3_RLIMIT)
    s.set('timeout', timeout_ms or Z3_TIMEOUT_MS)
    s.from_string(text)
    t0 = time.time()
    r = s.check()
    dt = time.time() - t0
    model = None
    if r == z3.sat:
        try:
            model = s.model().sexpr()
        except Exception:
            model = '(model unavailable)'
    return str(r), dt, model, (s.reason_unknown() if r == z3.unknown else '')


def _cvc5_check_text(text, strings=False, tlimit_ms=None):
    try:
        import cvc5
    except Exception as e:  # pragma: no cover
        return 'unknown', 0.0, None, 'cvc5 unavailable: %r' % (e,)
    t0 = time.time()
    try:
        slv = cvc5.Solver()
        slv.setOption('tlimit-per', str(tlimit_ms or CVC5_TIMEOUT_MS * (4 if strings else 1)))
        slv.setOption('produce-models', 'true')
        if strings:
            slv.setOption('strings-exp', 'true')
        slv.setLogic('ALL')
        parser = cvc5.InputParser(slv)
        # z3 prints (check-sat) at the end and declares enum sorts with declare-datatypes: accepted by cvc5
        parser.setStringInput(cvc5.InputLanguage.SMT_LIB_2_6, text.replace('(check-sat)', ''), 'obl')
        sm = parser.getSymbolManager()
        while True:
            cmd = parser.nextCommand()
            if cmd.isNull():
                break
            cmd.invoke(slv, sm)
        r = slv.checkSat()
        dt = time.time() - t0
        if r.isUnsat():
            return 'unsat', dt, None, ''
        if r.isSat():
            return 'sat', dt, '(cvc5 model)', ''
        return 'unknown', dt, None, str(r)
    except Exception as e:
        return 'unknown', time.time() - t0, None, 'cvc5 error: %r' % (e,)


def _late():
    return DEADLINE.value > 0 and time.time() > DEADLINE.value


def _finite_scope(text):
    """Re-pose an undecided query with the uninterpreted sort Label interpreted as a finite set of
    k elements (k = 2..4). A model found this way is a genuine model of the original query (an
    uninterpreted sort may be interpreted by any non-empty set); `unsat` in finite scope proves nothing."""
    if '(declare-sort Label 0)' not in text:
        return None
    total = 0.0
    for k in ((2, 3) if _late() else (2, 3, 4)):
        dt = '(declare-datatypes ((Label 0)) ((' + ' '.join(f'(L!{i})' for i in range(k)) + ')))'
        t2 = text.replace('(declare-sort Label 0)', dt)
        s = z3.Solver()
        s.set('timeout', 5000 if _late() else 15000)
        try:
            s.from_string(t2)
        except z3.Z3Exception:
            return None
        t0 = time.time()
        r = s.check()
        total += time.time() - t0
        if r == z3.sat:
            try:
                model = s.model().sexpr()
            except Exception:
                model = '(model unavailable)'
            return 'sat', total, f'; finite scope |Label|={k}\n' + model, ''
    return None


GUARD_MS = int(os.environ.get('VERIF_GUARD_MS', '2500'))


def _guard(job):
    """vacuity guard: `False` must NOT be provable from the hypotheses of a contract path (short budget; anything
    but `unsat` is fine: the hypotheses are then not known to be contradictory)"""
    name, text, strings = job[:3]
    if strings:
        r, dt, _, why = _cvc5_check_text(text, True, tlimit_ms=GUARD_MS * 2)
    else:
        r, dt, _, why = _z3_check_text(text, GUARD_MS)
    return name, ('proved' if r == 'unsat' else 'not-contradictory'), 'guard', dt, None, why


def _work(job):
    """z3 (short budget) -> finite-scope model search -> cvc5 -> z3 (long budget)."""
    if len(job) > 3 and job[3] == 'guard':
        return _guard(job)
    name, text, strings = job[:3]
    total = 0.0
    why_all = []
    if strings:
        order = [('cvc5', lambda: _cvc5_check_text(text, True)), ('z3', lambda: _z3_check_text(text, Z3_TIMEOUT_MS))]
    else:
        # a short cvc5 attempt comes before the finite-scope model search: obligations that z3 cannot instantiate but cvc5
        # proves at once (typical for nested-quantifier hypotheses) would otherwise pay up to 45 s of fruitless model search
        order = [('z3', lambda: _z3_check_text(text, Z3_FIRST_MS)), ('cvc5', lambda: _cvc5_check_text(text, tlimit_ms=CVC5_QUICK_MS)),
                 ('z3-finite-scope', lambda: _finite_scope(text)),
                 ('cvc5', lambda: _cvc5_check_text(text)), ('z3', lambda: _z3_check_text(text, Z3_TIMEOUT_MS))]
    for n_stage, (backend, f) in enumerate(order):
        if _late() and n_stage >= (1 if strings else 3):
            why_all.append('slow-stage budget of this check exhausted (VERIF_SLOW_BUDGET_S)')
            break
        res = f()
        if res is None:
            continue
        r, dt, model, why = (res + ('',))[:4]
        total += dt
        if r in ('sat', 'unsat'):
            return name, {'unsat': 'proved', 'sat': 'refuted'}[r], backend, total, model, ''
        if why:
            why_all.append(f'{backend}: {why}')
    return name, 'undecided', 'z3+cvc5', total, None, ' | '.join(why_all)


def discharge_all(jobs, nproc=16, inline_threshold=3):
    """jobs: list of (name, smt2_text, strings_flag). Returns dict name -> (status, backend, secs, model, why)."""
    out = {}
    if not jobs:
        return out
    DEADLINE.value = time.time() + SLOW_BUDGET_S
    if len(jobs) <= inline_threshold or nproc <= 1:
        for j in jobs:
            n, st, be, dt, model, why = _work(j)
            out[n] = (st, be, dt, model, why)
        return out
    ctx = mp.get_context('fork')
    with ctx.Pool(min(nproc, len(jobs))) as pool:
        for n, st, be, dt, model, why in pool.imap_unordered(_work, jobs, chunksize=max(1, min(8, len(jobs) // (nproc * 8)))):
            out[n] = (st, be, dt, model, why)
            if st == 'refuted' and '/canary' not in n:
                DEADLINE.value = min(DEADLINE.value, time.time() + AFTER_REFUTATION_S)
    return out


def quick_check(hyps, goal, timeout_ms=5000):
    """in-process check; returns ('proved'|'refuted'|'undecided', model_or_None, seconds)"""
    s = z3.Solver()
    s.set('timeout', timeout_ms)
    for h in hyps:
        s.add(h)
    s.add(z3.Not(goal))
    t0 = time.time()
    r = s.check()
    dt = time.time() - t0
    if r == z3.unsat:
        return 'proved', None, dt
    if r == z3.sat:
        return 'refuted', s.model(), dt
    return 'undecided', None, dt

"""Cases of the heap conformance test (conformance.py): (method, contract factory, netlist name, extra labels, tuple cap).
quick tier: the cases marked quick (a few seconds); thorough tier: all of them, spread over a process pool."""
from ..spec import net as N

NETS = {
    # repeated operands, a gate used twice by one user, a repeated output, an unused gate, inputs used by several gates
    'n6': N.Net(['a', 'b'], ['g3', 'g1', 'g3'], {'a': ('INPUT', ()), 'b': ('INPUT', ()), 'g1': ('AND', ('a', 'b')), 'g2': ('XOR', ('g1', 'g1', 'a')),
                                                   'g3': ('NOT', ('g2',)), 'g4': ('OR', ('a', 'a'))}),
    # storage order differs from topological order is impossible through the checked API; an input that is an output, a constant,
    # an input without users
    # n6 with one block that lists a gate twice among its outputs
    'n6b': N.Net(['a', 'b'], ['g3', 'g1', 'g3'], {'a': ('INPUT', ()), 'b': ('INPUT', ()), 'g1': ('AND', ('a', 'b')), 'g2': ('XOR', ('g1', 'g1', 'a')),
                                                    'g3': ('NOT', ('g2',)), 'g4': ('OR', ('a', 'a'))},
                 blocks={'B1': {'inputs': ['a'], 'gates': ['g1', 'g2'], 'outputs': ['g2', 'g2']}}),
    'n5': N.Net(['x', 'y', 'z'], ['x', 'k', 'h'], {'x': ('INPUT', ()), 'y': ('INPUT', ()), 'z': ('INPUT', ()), 'k': ('ALWAYS_TRUE', ()), 'h': ('GT', ('y', 'x'))}),
}


def cases():
    import copy as _copy
    from ..props import C02, C19, c19_rename, c02_copy
    cp = {'native_call': (lambda nat, a, k: _copy.copy(nat)), 'result_holder': (lambda ctx, v: getattr(v, 'holder', None))}
    return [
        # (name, method, factory, net, extra labels, max tuples, quick?)
        ('mark_as_output', 'mark_as_output', lambda: C02.MarkAsOutput(), 'n6', ('zz',), 7, True),
        ('remove_gate', 'remove_gate', lambda: C02.RemoveGate(), 'n6', ('zz',), 7, True),
        ('remove_gate/n5', 'remove_gate', lambda: C02.RemoveGate(), 'n5', ('zz',), 6, False),
        ('_add_user', '_add_user', lambda: C02.UserPrim('_add_user'), 'n6', ('zz',), 49, False),
        ('_remove_user', '_remove_user', lambda: C02.UserPrim('_remove_user'), 'n6', ('zz',), 49, False),
        ('rename_gate', 'rename_gate', lambda: c19_rename.RenameGate(), 'n6', ('zz',), 49, False),
        ('rename_gate/n5', 'rename_gate', lambda: c19_rename.RenameGate(), 'n5', ('zz',), 36, False),
        ('set_inputs/2', 'set_inputs', lambda: C02.SetInputs(2), 'n6', ('zz',), 49, False),
        ('set_inputs/3', 'set_inputs', lambda: C02.SetInputs(3), 'n5', (), 125, False),
        ('add_inputs/2', 'add_inputs', lambda: C02.AddInputs(2), 'n6', ('zz', 'yy'), 64, False),
        ('replace_inputs/1+1', 'replace_inputs', lambda: C19.ReplaceInputs(1, 1), 'n6', ('zz',), 49, False),
        ('replace_inputs/2+0', 'replace_inputs', lambda: C19.ReplaceInputs(2, 0), 'n5', (), 25, False),
        ('make_block/1+1+1', 'make_block', lambda: C02.MakeBlock(1, 1, 1), 'n6', ('zz',), 60, False),
        ('delete_block', 'delete_block', lambda: C02.DeleteBlock(), 'n6b', ('B1', 'zz'), 9, False),
        ('rename_gate/block', 'rename_gate', lambda: c19_rename.RenameGate(), 'n6b', ('zz',), 49, False),
        ('remove_gate/block', 'remove_gate', lambda: C02.RemoveGate(), 'n6b', ('zz',), 7, False),
        ('copy/n6', '__copy__', lambda: c02_copy.Copy(), 'n6', (), 1, False, cp),
        ('copy/n5', '__copy__', lambda: c02_copy.Copy(), 'n5', (), 1, False, cp),
    ]


def _run_one(idx):
    from ..props.common import new_interp
    from . import conformance as K
    case = cases()[idx]
    name, method, factory, net, extra, cap, _ = case[:7]
    kw = case[7] if len(case) > 7 else {}
    try:
        probs = K.run_case(new_interp, factory, NETS[net], method, extra_labels=extra, max_tuples=cap, **kw)
        return name, probs, list(getattr(K.run_case, 'last_imprecise', []))
    except Exception as e:       # a crash of the harness is reported, it is not a conformance failure of the model
        import traceback
        return name, ['harness crashed: ' + repr(e) + traceback.format_exc()[-800:]], []


def run(quick, nproc=8):
    """returns (number of cases run, list of problem strings)"""
    cs = cases()
    idxs = [i for i, c in enumerate(cs) if c[6] or not quick]
    if quick:
        res = [_run_one(i) for i in idxs]
    else:
        import multiprocessing as mp
        with mp.get_context('fork').Pool(min(nproc, len(idxs))) as pool:
            res = pool.map(_run_one, idxs)
    problems = [f'heap conformance {name}: {p}' for name, ps, _ in res for p in ps[:3]]
    run.imprecise = [f'{name}: {p}' for name, _, im in res for p in im]
    return len(idxs), problems


if __name__ == '__main__':
    import sys
    from .. import env
    env.setup_import_paths()
    sys.setrecursionlimit(20000)
    import time
    t0 = time.time()
    n, probs = run('--quick' in sys.argv)
    if '--json' in sys.argv:
        import json
        print('JSON ' + json.dumps({'problems': probs, 'info': {'cases': n, 'over_approximations': list(getattr(run, 'imprecise', []))[:10]}}))
        sys.exit(0 if not probs else 3)
    for p in probs:
        print('  PROBLEM:', p[:600])
    for p in getattr(run, 'imprecise', []):
        print('  not exact (sound over-approximation or solver limit):', p[:300])
    print(f'CONFORMANCE {n} cases', 'OK' if not probs else f'FAILED ({len(probs)})', f'{time.time() - t0:.1f}s')
    sys.exit(0 if not probs else 3)

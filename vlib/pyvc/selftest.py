"""Encoder differential self-test (DESIGN §3.9): the interpreter executes scripts CONCRETELY on the real source and
the results are compared with CPython executing the same scripts natively. A disagreement means pyvc's model of
Python (interp.py / lib.py) is wrong -> exit 3. Run: bin/selftest"""
import sys
import traceback
import uuid as _uuid

from . import lib as L
from .interp import Interp, Ctx
from .values import VList, VDict, VSet, Obj, Sym, EnumMember, PyRaise, Unsupported, ModuleV

PRELUDE = '''
from cirbo.core.circuit import Circuit, gate, Gate
from cirbo.core.circuit.operators import Undefined

def snap(c):
    return (list(c.inputs), list(c.outputs), [(k, g.gate_type.name, tuple(g.operands)) for k, g in c.gates.items()],
            sorted((k, sorted(v)) for k, v in c._gate_to_users.items() if v),
            sorted((n, list(b.inputs), sorted(b.gates), list(b.outputs)) for n, b in c.blocks.items()))

def st(v):
    return 'U' if v == Undefined and v is not False and v is not True else bool(v)

def base():
    c = Circuit()
    c.add_inputs(['a', 'b', 'c'])
    c.emplace_gate('g1', gate.AND, ('a', 'b'))
    c.emplace_gate('g2', gate.GT, ('g1', 'c'))
    c.emplace_gate('g3', gate.XOR, ('g1', 'g2', 'a'))
    c.emplace_gate('g4', gate.LNOT, ('g3', 'g3'))
    c.emplace_gate('k', gate.ALWAYS_TRUE, ())
    c.emplace_gate('g5', gate.NOR, ('g4', 'k', 'b'))
    c.emplace_gate('g6', gate.LEQ, ('g2', 'g2'))
    c.set_outputs(['g5', 'g3', 'a', 'g5', 'g6'])
    c.make_block('B', ['g2', 'g3'], ['g3'])
    return c
'''

SCRIPTS = {
    'operators': '''
from cirbo.core.circuit import operators as o
def main():
    vals = [False, True, Undefined]
    out = []
    for f in (o.and_, o.or_, o.xor_, o.nand_, o.nor_, o.nxor_):
        for x in vals:
            for y in vals:
                out.append(st(f(x, y)))
                for z in vals:
                    out.append(st(f(x, y, z)))
    for f in (o.gt_, o.lt_, o.geq_, o.leq_, o.lnot_, o.rnot_, o.liff_, o.riff_):
        for x in vals:
            for y in vals:
                out.append(st(f(x, y)))
    for x in vals:
        out.append((st(o.not_(x)), st(o.iff_(x)), o.always_true_(x, x), o.always_false_()))
    return out
''',
    'mutators': '''
import copy
def main():
    out = []
    c = base()
    out.append(snap(c))
    c.rename_gate('g1', 'h1'); out.append(snap(c))
    c.replace_inputs(['c'], []); out.append(snap(c))
    c.mark_as_output('g2'); c.emplace_gate('t', gate.NOT, ('g5',)); out.append(snap(c))
    c.remove_gate('t'); out.append(snap(c))
    try:
        c.remove_gate('h1')
    except Exception as e:
        out.append(type(e).__name__)
    try:
        c.emplace_gate('g2', gate.NOT, ('a',))
    except Exception as e:
        out.append(type(e).__name__)
    c.order_outputs(['a', 'g3']); c.order_inputs(['b']); out.append(snap(c))
    d = copy.copy(c); out.append(snap(d)); out.append(d == c)
    c.into_bench(); out.append([(k, t, o) for (k, t, o) in snap(c)[2] if not k.startswith('new_gate')])
    out.append(sorted(t for (k, t, o) in snap(c)[2]))
    return out
''',
    'traversal-and-evaluation': '''
import itertools
def main():
    c = base()
    out = [[g.label for g in c.top_sort(inverse=True)], [g.label for g in c.top_sort()]]
    out.append([g.label for g in c.dfs()]); out.append([g.label for g in c.bfs(['g5'])]); out.append([g.label for g in c.dfs(['a'], inverse=True)])
    for x in itertools.product((False, True), repeat=3):
        out.append(c.evaluate(list(x)))
        full = c.evaluate_full_circuit(dict(zip(c.inputs, x)))
        out.append(sorted((k, st(v)) for k, v in full.items()))
    part = c.evaluate_circuit({'a': True, 'b': Undefined})
    out.append(sorted((k, st(v)) for k, v in part.items()))
    out.append(c.get_truth_table())
    out.append((c.is_constant_at(0), c.is_monotone_at(1), c.is_symmetric_at(2), c.is_dependent_on_input_at(0, 1), c.get_significant_inputs_of(1)))
    return out
''',
    'composition': '''
def main():
    out = []
    a = base()
    b = Circuit(); b.add_inputs(['p', 'q']); b.emplace_gate('r', gate.OR, ('p', 'q')); b.emplace_gate('s', gate.NOT, ('r',)); b.set_outputs(['s', 'r'])
    a.connect_circuit(b, ['g3', 'g2'], ['p', 'q'], name='L'); out.append(snap(a))
    a2 = base(); a2.connect_circuit(b, ['a'], ['r'], right_connect=True, name='R'); out.append(snap(a2))
    a3 = base(); a3.add_circuit(b, name='S', add_prefix=False); out.append(snap(a3))
    a4 = base(); a4.extend_circuit(b, this_connectors=['g5', 'g3'], other_connectors=['p', 'q']); out.append(snap(a4))
    bc = snap(a.get_block('L').into_circuit())
    out.append((bc[0], bc[1], sorted(bc[2]), bc[3]))      # gate order follows a python set (hash order): compare as a set
    return out
''',
    'equality-and-keys': '''
import dataclasses
@dataclasses.dataclass
class Pair:
    a: int
    b: tuple
def main():
    out = []
    out.append(frozenset(['a', 'b']) == frozenset(['b', 'a', 'a']))
    out.append(frozenset(['a']) == frozenset(['b']))
    out.append({1, 2} == {2, 1}); out.append(set() == set()); out.append([1] == (1,)); out.append(b'ab' == b'ab')
    d = {}
    d[(1, frozenset(['x', 'y']))] = 'first'
    out.append((1, frozenset(['y', 'x'])) in d)
    out.append(d.get((1, frozenset(['y', 'x', 'x']))))
    out.append(d.get((1, frozenset(['y']))))
    d[(1, frozenset(['y', 'x']))] = 'second'
    out.append(len(d)); out.append(sorted(d.values()))
    out.append(Pair(1, (2,)) == Pair(1, (2,))); out.append(Pair(1, (2,)) == Pair(1, (3,)))
    k = {gate.AND: 1, gate.OR: 2}
    out.append(k[gate.AND]); out.append(gate.XOR in k)
    return out
''',
    'tseytin': '''
from cirbo.sat.cnf.tseytin import tseytin_transformation
def main():
    c = base()
    return [tseytin_transformation(c).get_raw(), tseytin_transformation(c, [1, 0]).get_raw()]
''',
    'bench-text': '''
def main():
    c = base()
    t = c.format_circuit()
    d = Circuit.from_bench_string(t)
    e = Circuit.from_bench_string('# c\\nOUTPUT(z)\\nz = nand(x, Y)\\nINPUT(x)\\n\\ninput(Y)\\nw = vdd\\nv = BUFF(z)\\n')
    return [t, snap(d)[:3], d == c, snap(e)[:3]]
''',
    'generators': '''
from cirbo.synthesis.generation.arithmetics import add_sum_n_bits, add_sub_two_numbers, add_subtract_with_compare, add_equal, add_mul, add_mul_karatsuba, add_sum_two_numbers_with_shift, add_div_mod, add_sqrt
from cirbo.synthesis.generation.generation import add_plus_one, add_pairwise_xor, add_if_then_else
def main():
    out = []
    c = Circuit.bare_circuit(6)
    i = c.inputs
    out.append(add_sum_n_bits(c, i[:5]))
    out.append(add_sum_n_bits(c, i[:4], basis='aig', big_endian=True))
    out.append(add_sub_two_numbers(c, i[:3], i[3:]))
    out.append(add_subtract_with_compare(c, i[:2], i[2:5], big_endian=True))
    out.append(add_equal(c, i[:3], 5))
    out.append(add_mul(c, i[:2], i[2:5]))
    out.append(add_mul_karatsuba(c, i[:3], i[3:]))
    out.append(add_sum_two_numbers_with_shift(c, 2, i[:3], i[3:5]))
    out.append(add_div_mod(c, i[:3], i[3:]))
    out.append(add_sqrt(c, i[:4]))
    out.append(add_plus_one(c, [i[0], i[1]], add_outputs=True))
    out.append(add_pairwise_xor(c, i[:2], i[2:4]))
    out.append(add_if_then_else(c, i[0], i[1], i[2]))
    out.append(snap(c))
    return out
''',
    'codec': '''
import io
from cirbo.circuits_db.bit_io import BitWriter, BitReader
from cirbo.circuits_db.circuits_encoding import encode_circuit, decode_circuit
from cirbo.circuits_db.normalization import NormalizationInfo
def main():
    out = []
    w = BitWriter()
    for n, k in ((5, 3), (0, 1), (300, 9), (1, 1), (77, 7)):
        w.write_number(n, k)
    data = bytes(w); out.append(list(data))
    r = BitReader(data); out.append([r.read_number(k) for k in (3, 1, 9, 1, 7)])
    c = Circuit(); c.add_inputs(['a', 'b']); c.emplace_gate('n', gate.NOT, ('a',)); c.emplace_gate('x', gate.XOR, ('n', 'b')); c.emplace_gate('y', gate.GEQ, ('x', 'a')); c.set_outputs(['y', 'x'])
    e = encode_circuit(c); out.append(list(e)); out.append(snap(decode_circuit(e))[:3])
    info = NormalizationInfo([[True, False, False, True], [False, False, True, False], [True, False, False, True]])
    out.append((info.truth_table, info.negations, info.permutation, info.mapping))
    return out
''',
    'functions': '''
from cirbo.core.truth_table import TruthTable, TruthTableModel
from cirbo.core.python_function import PyFunction
from cirbo.core.utils import input_to_canonical_index, canonical_index_to_input, get_bit_value
from cirbo.core.logic import DontCare
def main():
    out = []
    t = TruthTable([[False, True, True, True], [True, False, False, True]])
    p = PyFunction(lambda v: [v[0] or v[1], v[0] == v[1]], 2)
    for f in (t, p):
        out.append((f.get_truth_table(), f.is_constant(), f.is_monotone(), f.is_monotone_at(0), f.is_symmetric(), f.is_symmetric_at(1),
                    f.is_dependent_on_input_at(0, 1), f.is_output_equal_to_input(0, 0), f.get_significant_inputs_of(1), f.find_negations_to_make_symmetric([0])))
    out.append([input_to_canonical_index(canonical_index_to_input(i, 3)) for i in range(8)])
    out.append([get_bit_value(37, i, 6) for i in range(6)])
    m = TruthTableModel([[False, DontCare, True, DontCare]])
    out.append(m.define({((False, True), 0): True, ((True, True), 0): False}).get_truth_table())
    return out
''',
    'simplification': '''
from cirbo.minimization.simplification import RemoveRedundantGates, MergeUnaryOperators, MergeDuplicateGates, MergeEquivalentGates, cleanup
def main():
    out = []
    c = base()
    c.emplace_gate('n1', gate.NOT, ('g1',)); c.emplace_gate('n2', gate.NOT, ('n1',)); c.emplace_gate('d', gate.AND, ('b', 'a')); c.emplace_gate('o', gate.OR, ('n2', 'd'))
    c.mark_as_output('o')
    for p in (RemoveRedundantGates(), MergeUnaryOperators(), MergeDuplicateGates(), MergeEquivalentGates(), MergeDuplicateGates() | RemoveRedundantGates(allow_inputs_removal=True)):
        out.append(snap(p.transform(c))[:3])
    out.append(snap(cleanup(c))[:3])
    return out
''',
}


def canon(v):
    if isinstance(v, (VList,)):
        return [canon(x) for x in v.items]
    if isinstance(v, list):
        return [canon(x) for x in v]
    if isinstance(v, tuple):
        return tuple(canon(x) for x in v)
    if isinstance(v, VDict):
        return {canon(k): canon(x) for k, x in v.d.items()}
    if isinstance(v, dict):
        return {canon(k): canon(x) for k, x in v.items()}
    if isinstance(v, VSet):
        return sorted(canon(x) for x in v.items)
    if isinstance(v, (bytes, bytearray)):
        return list(v)
    if isinstance(v, Sym):
        raise AssertionError('symbolic value in a concrete run: %r' % (v,))
    return v


def listify(v):
    if isinstance(v, tuple):
        return [listify(x) for x in v]
    if isinstance(v, list):
        return [listify(x) for x in v]
    if isinstance(v, dict):
        return {k: listify(x) for k, x in v.items()}
    return v


class FakeUuid:
    n = 0

    def __init__(self):
        FakeUuid.n += 1
        self.hex = '%032x' % FakeUuid.n


def run_native(repo, src):
    g = {}
    real = _uuid.uuid4
    _uuid.uuid4 = FakeUuid
    FakeUuid.n = 0
    try:
        exec(compile(PRELUDE + src, '<selftest>', 'exec'), g)
        return g['main']()
    finally:
        _uuid.uuid4 = real


def run_interp(repo, src):
    import ast
    it = Interp(repo)
    from .models import install_loop_rule
    install_loop_rule(it)
    L.UuidV.counter = 0
    try:
        m = ModuleV('__selftest__', repo + '/__selftest__.py')
        it.ctx = Ctx([])
        tree = ast.parse(PRELUDE + src)
        for _ in it.exec_block(tree.body, m.env, m):
            pass
        return it.call(m.env['main'], [], {})
    finally:
        L.UuidV.counter = None


def outcome(f, repo, src):
    """('ok', value) | ('raise', exception class name) | ('stop', message: the interpreter left its subset)"""
    try:
        return ('ok', listify(canon(f(repo, src))))
    except PyRaise as r:
        return ('raise', r.exc.cls.name if isinstance(r.exc, Obj) else repr(r.exc))
    except Unsupported as u:
        return ('stop', str(u))
    except Exception as e:
        if f is run_native:
            return ('raise', type(e).__name__)
        return ('crash', repr(e) + traceback.format_exc()[-600:])


# ---- frame condition of the cut rules (R1 / R6): synthetic loops, one trivial invariant ---------------------------------
FRAME_CASES = {
    # name: (source, expected)   expected 'stop' = the rule must refuse (Unsupported), 'ok' = it must go through
    'scalar-carried': ('''
def f(xs):
    count = 0
    for x in xs:
        count += 1
    return count
''', 'stop'),
    'scalar-read-after-loop': ('''
def f(xs):
    last = None
    for x in xs:
        last = x
    return last
''', 'stop'),
    'list-mutated': ('''
def f(xs):
    seen = []
    for x in xs:
        seen.append(x)
    return 0
''', 'stop'),
    'dict-mutated-by-callee': ('''
def f(xs):
    cache = {}
    def put(k):
        cache[k] = 1
    for x in xs:
        put(x)
    return 0
''', 'stop'),
    'nonlocal-assigned-by-callee': ('''
def f(xs):
    n = 0
    def bump():
        nonlocal n
        n = 5
    for x in xs:
        bump()
    return 0
''', 'stop'),
    'attribute-assigned': ('''
class Box:
    def __init__(self):
        self.v = 0
def f(xs):
    b = Box()
    for x in xs:
        b.v = x
    return 0
''', 'stop'),
    'temporaries-and-fresh-containers': ('''
def f(xs):
    for x in xs:
        t = [x]
        t.append(x)
        d = {}
        d[0] = t
        u = len(t)
    return 0
''', 'ok'),
}


def frame_selftest(repo, verbose=True):
    import ast
    import z3
    from .models import install_loop_rule, LoopSpec, SymSeq, PathEnd
    from .values import Sym

    class Trivial(LoopSpec):
        def havoc(self, it, env):
            pass

        def inv(self, it, env, k):
            return []

    bad = []
    for name, (src, want) in FRAME_CASES.items():
        got = set()
        for trace in ([True], [False]):                       # arbitrary iteration / exit
            it = Interp(repo)
            install_loop_rule(it)
            m = ModuleV('__frametest__', repo + '/__frametest__.py')
            it.ctx = Ctx(trace)
            try:
                for _ in it.exec_block(ast.parse(src).body, m.env, m):
                    pass
                it.loop_specs[('__frametest__.py::f', 1)] = Trivial()
                n = z3.Int('n')
                it.ctx.assume(n >= 0)
                it.call(m.env['f'], [SymSeq([], n, lambda i: Sym(z3.Function('el', z3.IntSort(), z3.IntSort())(i)), 'list')], {})
                got.add('ok')
            except PathEnd:
                got.add('ok')
            except Unsupported as u:
                got.add('stop')
            except Exception as e:
                got.add('crash ' + repr(e)[:200])
        verdict = 'stop' if 'stop' in got else ('ok' if got == {'ok'} else sorted(got)[0])
        if verdict != want:
            bad.append(f'selftest frame-rule {name}: expected {want}, got {sorted(got)}')
        if verbose:
            print(f'selftest frame-rule {name}: {verdict} (expected {want})')
    return bad


# ---- symbolic differential test: every path of the SYMBOLIC execution against CPython on a small domain -------------------
# Each function is executed once symbolically (arguments: z3 integers in 0..3, so that they alias in all ways); for EVERY
# concrete argument tuple of the domain (a) at least one explored path must have a path condition that holds - a lost path
# is how an encoder makes obligations hold vacuously - and (b) on every such path the symbolic result, evaluated at the
# tuple, must equal what CPython computes.  `Unsupported` on a path only means "nothing claimed" for the tuples it covers.
SYM_CASES = {
    'sets': '''
def f(a, b, c):
    s = {a, b, c}
    t = frozenset([a, b])
    return (len(s), t == frozenset([b, c]), a in {b, c}, len(s - {a}), len(s & {b}), len({a} | {c}), len(set([a, a, b])), t == {a, b})
''',
    'dict-keys': '''
def f(a, b, c):
    d = {a: 1}
    d[b] = 2
    e = {(a, b): 5}
    return (len(d), d.get(c, 0), d[a], (b, a) in e, e.get((c, b), -1), c in d)
''',
    'lists-and-tuples': '''
def f(a, b, c):
    l = [a, b, c]
    return (l.count(a), l.index(c), (a, b) == (b, a), max(l), min(a, b), sum(l), [a, b] == [b, c], (a, b, c)[1:] == (b, c), c in l[:2], l[-1])
''',
    'list-mutation': '''
def f(a, b, c):
    l = [a, b, c, a]
    l.remove(b)
    m = list(l)
    m.append(c)
    return (len(l), l[0], l[-1], b in l, m.count(c), l == m[:3])
''',
    'frozenset-keys': '''
def f(a, b, c):
    d = {}
    d[frozenset([a, b])] = 1
    k = frozenset([b, c])
    hit = k in d
    d[k] = 2
    return (hit, len(d), d[frozenset([b, a])])
''',
    'sorting-and-comprehensions': '''
def f(a, b, c):
    l = [a, b, c]
    return (sorted(l)[0], sorted(l, reverse=True)[0], len(sorted(set(l))), any(x == a + 1 for x in l), all(x <= c for x in l),
            len([x for x in l if x != a]), len({x: i for i, x in enumerate(l)}), list(zip(l, l[1:]))[0] == (a, b),
            tuple(x for x in l if x == b) == (b,), [i for i, x in enumerate(l) if x == c][0])
''',
    'dict-iteration-and-pop': '''
import collections
def f(a, b, c):
    d = {a: 10}
    d[b] = 20
    d[c] = 30
    ks = list(d.keys())
    vs = list(d.values())
    first = ks[0]
    p = d.pop(a)
    return (len(ks), first, vs[-1], p, len(d), b in d, d.setdefault(a, 7), len(d))
''',
    'tuple-order-and-membership': '''
def f(a, b, c):
    t = (a, b)
    u = (b, c)
    return (t < u, t == u, max(a, b, c), min((a, b, c)), t + u == (a, b, b, c), t * 2 == (a, b, a, b), (a in t) and (c in u), t.count(b), u.index(c),
            len(set(t) ^ set(u)) if False else 0)
''',
    'bit-operations': '''
def f(a, b, c):
    n = a * 4 + b
    return ((n >> c) & 1, bool(n & 1), (n >> 1) << 1, (n >> 4) != 0, (a << b) % 8, -a // 2, n // (c + 1), n % (c + 1), 2 ** c, (n & 3) == b, (n >> 2) == a,
            bool((n >> c) & 1), 1 << c, (n >> c) % 2, n - ((n >> 2) << 2))
''',
    'bit-operations-2': '''
def f(a, b, c):
    n = a * 4 + b
    return (divmod(n, c + 1), n % 4, (n // 4) * 4 + n % 4 == n, abs(n - 7), n * c - c)
''',
    'itertools-and-builtins': '''
import itertools, functools
def f(a, b, c):
    l = [a, b, c]
    return (list(itertools.chain([a], [b, c]))[2], len(list(itertools.product([a, b], [c]))), functools.reduce(lambda x, y: x + y, l, 0),
            list(reversed(l))[0], list(enumerate(l, 1))[1] == (2, b), dict(zip(l, range(3))).get(a), sum(1 for x in l if x == a), list(map(lambda x: x + 1, l))[2],
            [x for x, y in zip(l, l[1:]) if x == y] == ([a] if a == b else []) + ([b] if b == c else []),
            any(l), all(l), len(list(itertools.zip_longest([a], [b, c]))), max(len(l), a))
''',
    'sorted-with-key': '''
def f(a, b, c):
    l = [a, b, c]
    return (tuple(sorted(l, key=lambda x: -x))[0], sorted(l, key=lambda x: -x)[-1], sorted(l, key=lambda x: -x) == sorted(l, reverse=True))
''',
    'branches-and-arithmetic': '''
def f(a, b, c):
    if a < b:
        x = a
    elif a == b:
        x = c
    else:
        x = b
    y = 0
    for i in (a, b, c):
        if i == x:
            y += 1
    return (x, y, a // 2, a % 3, abs(a - b), (a + b) * c, a >> 1, (a << 2) + b, bool(a) and bool(b), not c, a if b else c)
''',
}


# the same for LABEL arguments (strings of the program = uninterpreted Label constants of the encoder): domain {'p','q','r'}
LABEL_CASES = {
    'labels-in-containers': '''
def f(a, b, c):
    ops = (a, b, c)
    d = {a: [b], b: [c]}
    users = {}
    for o in ops:
        users.setdefault(o, []).append('g')
    s = set(ops)
    rest = [x for x in ops if x != a]
    return (ops.count(a), ops.index(c), a in d, len(d), d.get(c) is None, len(s), len(users), len(users[a]), len(rest),
            tuple(dict.fromkeys(ops)) == ops, 'p' in ops, ops[0] == 'q', frozenset((a, b)) == frozenset((b, c)), (a, b) == (b, a),
            len(set(ops) - {a}), len([u for u in users if u == c]))
''',
    'labels-as-keys-and-removal': '''
def f(a, b, c):
    l = [a, b, c, a]
    l.remove(b)
    users = {a: ['u1', 'u2']}
    users[b] = ['u3']
    if c in users:
        users[c].append('u4')
    else:
        users[c] = []
    del users[a]
    return (len(l), l[0] == a, l[-1] == a, b in l, len(users), (c in users), len(users.get(b, [])), sum(len(v) for v in users.values()),
            len({(a, b): 1, (b, a): 2}), {a: 1}.get(b, 0), [a, b].index(b))
''',
}


def label_selftest(repo, verbose=True):
    import ast
    import itertools
    import z3
    from .interp import explore
    from .values import Sym, LabelSort
    bad = []
    DOM = ('p', 'q', 'r')
    for name, src in LABEL_CASES.items():
        g = {}
        exec(compile(src, '<labeltest>', 'exec'), g)
        native = g['f']
        it = Interp(repo)
        from .models import install_loop_rule
        install_loop_rule(it)
        m = ModuleV('__labeltest__', repo + '/__labeltest__.py')
        it.ctx = Ctx([])
        for _ in it.exec_block(ast.parse(src).body, m.env, m):
            pass
        A = [z3.Const(x, LabelSort) for x in 'abc']

        def run(ctx):
            it.ctx = ctx
            it.depth = 0
            consts = [it.label_term(x) for x in DOM]
            for x in A:
                ctx.assume(z3.Or([x == k for k in consts]))
            return it.call(m.env['f'], [Sym(x) for x in A], {})
        try:
            paths = explore(run)
        except Exception as e:
            bad.append(f'selftest labels {name}: exploration crashed: {e!r}')
            continue
        consts = [it.label_term(x) for x in DOM]
        others = [k for s_, k in it.str_labels.items() if s_ not in DOM]
        n_unsup = sum(1 for _, o in paths if o[0] == 'unsupported')
        problems = []
        for vals in itertools.product(range(3), repeat=3):
            want = native(*[DOM[v] for v in vals])
            hit = 0
            for ctx, out in paths:
                sol = z3.Solver()
                sol.add(z3.Distinct(*(consts + others)))
                sol.add(*[x == consts[v] for x, v in zip(A, vals)])
                sol.add(*ctx.pc)
                if sol.check() != z3.sat:
                    continue
                hit += 1
                if out[0] == 'unsupported':
                    continue
                if out[0] != 'return':
                    problems.append(f'{vals}: path ends with {out[0]} but CPython returns {want}')
                    continue
                mdl = sol.model()

                def conc(v):
                    if isinstance(v, Sym) or z3.is_expr(v):
                        t = mdl.eval(v.t if isinstance(v, Sym) else v, model_completion=True)
                        return t.as_long() if z3.is_int_value(t) else z3.is_true(t)
                    return v
                got = tuple(conc(x) for x in out[1])
                if got != want:
                    problems.append(f'{[DOM[v] for v in vals]}: symbolic path gives {got}, CPython gives {want}')
            if hit == 0:
                problems.append(f'{[DOM[v] for v in vals]}: NO explored path covers this input (lost path)')
        if problems:
            bad.append(f'selftest labels {name}: {len(problems)} problems, first: {problems[0]}')
        if verbose:
            print(f'selftest labels {name}: {len(paths)} paths ({n_unsup} outside the subset), 27 inputs, ' + ('agree' if not problems else f'PROBLEMS: {problems[:2]}'))
    return bad


# the same for the STRING mode of the encoder (bench parser proofs, C11): one symbolic str argument that ranges over a list of
# concrete lines; find / slicing / strip / split / startswith / in / upper are the operations the parser is made of
STRING_DOMAIN = ['a = AND(b, c)', 'INPUT(x)', ' x1=NOT( y )', 'OUTPUT(out)', '#c', '', 'g=vdd', 'A  =  OR(B,C) ', 'q=BUFF(p)\n', 'noparen = x']
STRING_CASES = {
    'predicates-and-find': '''
def f(s):
    return (s.startswith('INPUT'), '=' in s, s.find('('), s.find(')'), len(s), s.startswith('#'), s == '', s.find('=') < s.find('('))
''',
    'strip-and-case': '''
def f(s):
    return (s.strip(' '), s.strip(' \\n'), s.strip(' ') == s, s.upper().startswith('INPUT'), s.strip(') \\n'), s[7:].strip(') \\n'))
''',
    'slices': '''
def f(s):
    i = s.find('(')
    j = s.find(')')
    if i == -1 or j == -1:
        return ('none', 'none', s[:3])
    return (s[:i].strip(' '), s[i + 1:j].strip(' '), s[:3])
''',
}


def string_selftest(repo, verbose=True):
    import ast
    import z3
    from .interp import explore
    from .values import Sym, VList
    bad = []
    for name, src in STRING_CASES.items():
        g = {}
        exec(compile(src, '<strtest>', 'exec'), g)
        native = g['f']
        it = Interp(repo)
        from .models import install_loop_rule
        install_loop_rule(it)
        it.string_mode = True
        m = ModuleV('__strtest__', repo + '/__strtest__.py')
        it.ctx = Ctx([])
        for _ in it.exec_block(ast.parse(src).body, m.env, m):
            pass
        S = z3.String('s')

        def run(ctx):
            it.ctx = ctx
            it.depth = 0
            ctx.assume(z3.Or([S == z3.StringVal(c) for c in STRING_DOMAIN]))
            return it.call(m.env['f'], [Sym(S)], {})
        try:
            paths = explore(run)
        except Exception as e:
            bad.append(f'selftest strings {name}: exploration crashed: {e!r}')
            continue
        n_unsup = sum(1 for _, o in paths if o[0] == 'unsupported')
        problems = []

        def equal_term(v, w):
            if isinstance(v, Sym) or z3.is_expr(v):
                t = v.t if isinstance(v, Sym) else v
                if isinstance(w, bool):
                    return (t == w) if z3.is_bool(t) else False
                if isinstance(w, int):
                    return (t == w) if z3.is_int(t) else False
                if isinstance(w, str):
                    return (t == z3.StringVal(w)) if t.sort() == z3.StringSort() else False
                return False
            if isinstance(v, (tuple, VList)) and isinstance(w, (tuple, list)):
                xs = list(v) if isinstance(v, tuple) else v.items
                if len(xs) != len(w):
                    return False
                parts = [equal_term(x, y) for x, y in zip(xs, w)]
                if any(p_ is False for p_ in parts):
                    return False
                parts = [p_ for p_ in parts if p_ is not True]
                return z3.And(parts) if parts else True
            return (type(v) is type(w)) and v == w
        for c in STRING_DOMAIN:
            want = native(c)
            hit = 0
            for ctx, out in paths:
                sol = z3.Solver()
                sol.set('timeout', 10000)
                sol.add(*ctx.pc)
                sol.add(S == z3.StringVal(c))
                r = sol.check()
                if r == z3.unsat:
                    continue
                hit += 1
                if r != z3.sat or out[0] == 'unsupported':
                    continue                    # undecided feasibility / outside the subset: nothing is claimed
                if out[0] != 'return':
                    problems.append(f'{c!r}: path ends with {out[0]} but CPython returns {want}')
                    continue
                eq = equal_term(out[1], want)
                if eq is False:
                    problems.append(f'{c!r}: symbolic path gives {out[1]}, CPython gives {want}')
                    continue
                if eq is True:
                    continue
                sol.add(eq)
                if sol.check() == z3.unsat:
                    problems.append(f'{c!r}: CPython gives {want}, which the symbolic path excludes (result {out[1]})')
            if hit == 0:
                problems.append(f'{c!r}: NO explored path covers this input (lost path)')
        if problems:
            bad.append(f'selftest strings {name}: {len(problems)} problems, first: {problems[0]}')
        if verbose:
            print(f'selftest strings {name}: {len(paths)} paths ({n_unsup} outside the subset), {len(STRING_DOMAIN)} inputs, ' + ('agree' if not problems else f'PROBLEMS: {problems[:2]}'))
    return bad


def symbolic_selftest(repo, verbose=True):
    import ast
    import itertools
    import z3
    from .interp import explore
    from .values import Sym, VList, VSet, VDict
    bad = []
    DOM = range(4)

    def concretise(v, sub):
        if isinstance(v, Sym):
            t = z3.simplify(z3.substitute(v.t, *sub))
            if z3.is_int_value(t):
                return t.as_long()
            if z3.is_true(t) or z3.is_false(t):
                return z3.is_true(t)
            raise ValueError(f'result term does not evaluate: {t}')
        if z3.is_expr(v):
            return concretise(Sym(v), sub)
        if isinstance(v, tuple):
            return tuple(concretise(x, sub) for x in v)
        if isinstance(v, VList):
            return [concretise(x, sub) for x in v.items]
        if isinstance(v, VSet):
            return {concretise(x, sub) for x in v.items}
        return v

    for name, src in SYM_CASES.items():
        g = {}
        exec(compile(src, '<symtest>', 'exec'), g)
        native = g['f']
        it = Interp(repo)
        from .models import install_loop_rule
        install_loop_rule(it)
        m = ModuleV('__symtest__', repo + '/__symtest__.py')
        it.ctx = Ctx([])
        for _ in it.exec_block(ast.parse(src).body, m.env, m):
            pass
        A = [z3.Int(x) for x in 'abc']

        def run(ctx):
            it.ctx = ctx
            it.depth = 0
            for x in A:
                ctx.assume(z3.And(x >= 0, x <= 3))
            return it.call(m.env['f'], [Sym(x) for x in A], {})
        try:
            paths = explore(run)
        except Exception as e:
            bad.append(f'selftest symbolic {name}: exploration crashed: {e!r}')
            continue
        n_unsup = sum(1 for _, o in paths if o[0] == 'unsupported')
        problems = []
        inexact = 0

        def equal_term(v, w):
            """z3 Bool (or python bool) stating that the symbolic result v denotes the CPython value w"""
            if isinstance(v, Sym) or z3.is_expr(v):
                t = v.t if isinstance(v, Sym) else v
                if isinstance(w, bool):
                    return (t == w) if z3.is_bool(t) else False
                if isinstance(w, int):
                    return (t == w) if z3.is_int(t) else False
                return False
            if isinstance(v, (tuple, VList)) and isinstance(w, (tuple, list)) and isinstance(v, tuple) == isinstance(w, tuple):
                xs = list(v) if isinstance(v, tuple) else v.items
                if len(xs) != len(w):
                    return False
                parts = [equal_term(x, y) for x, y in zip(xs, w)]
                if any(p_ is False for p_ in parts):
                    return False
                parts = [p_ for p_ in parts if p_ is not True]
                return z3.And(parts) if parts else True
            return (type(v) is type(w)) and v == w

        for vals in itertools.product(DOM, repeat=3):
            fix = [x == v for x, v in zip(A, vals)]
            want = native(*vals)
            hit = 0
            for ctx, out in paths:
                sol = z3.Solver()
                sol.set('timeout', 5000)
                sol.add(*ctx.pc)
                sol.add(*fix)
                if sol.check() != z3.sat:
                    continue
                hit += 1
                if out[0] == 'unsupported':
                    continue
                if out[0] != 'return':
                    problems.append(f'{vals}: path ends with {out[0]} but CPython returns {want}')
                    continue
                eq = equal_term(out[1], want)
                if eq is False:
                    problems.append(f'{vals}: symbolic path gives {out[1]}, CPython gives {want}')
                    continue
                if eq is True:
                    continue
                # soundness: CPython's result must be AMONG the values the path allows; exactness: it must be the only one
                sol.push()
                sol.add(eq)
                ok = sol.check() == z3.sat
                sol.pop()
                if not ok:
                    problems.append(f'{vals}: CPython gives {want}, which the symbolic path excludes (result {out[1]})')
                    continue
                sol.add(z3.Not(eq))
                if sol.check() != z3.unsat:
                    inexact += 1
            if hit == 0:
                problems.append(f'{vals}: NO explored path covers this input (lost path)')
        if problems:
            bad.append(f'selftest symbolic {name}: {len(problems)} problems, first: {problems[0]}')
        if verbose:
            print(f'selftest symbolic {name}: {len(paths)} paths ({n_unsup} outside the subset), 64 inputs, ' + ('agree' if not problems else f'PROBLEMS: {problems[:2]}')
                  + (f' ({inexact} results only over-approximated)' if inexact else ''))
    return bad


def main(repo, verbose=True):
    """returns the list of disagreements (empty = the interpreter agrees with CPython on every script)"""
    bad = []
    for name, src in SCRIPTS.items():
        a = outcome(run_native, repo, src)
        b = outcome(run_interp, repo, src)
        if b[0] == 'stop':
            # the tree under test uses a construct outside the subset in this script: nothing can be compared
            if verbose:
                print(f'selftest {name}: skipped (interpreter subset: {b[1]})')
            continue
        if a == b:
            if verbose:
                print(f'selftest {name}: agree ({a[0]}, {len(a[1]) if a[0] == "ok" else a[1]})')
            continue
        msg = f'selftest {name}: DISAGREEMENT between CPython and pyvc: cpython={a[0]} pyvc={b[0]}'
        if a[0] == b[0] == 'ok':
            def first_diff(x, y, path=''):
                if type(x) is type(y) and isinstance(x, list) and len(x) == len(y):
                    for k, (p, q) in enumerate(zip(x, y)):
                        if p != q:
                            return first_diff(p, q, path + f'[{k}]')
                return path, x, y
            pth, x, y = first_diff(a[1], b[1])
            msg += f' at {pth}: cpython={str(x)[:200]} pyvc={str(y)[:200]}'
        else:
            msg += f' ({str(a[1])[:200]} vs {str(b[1])[:200]})'
        bad.append(msg)
        if verbose:
            print(msg)
    bad.extend(frame_selftest(repo, verbose))
    bad.extend(symbolic_selftest(repo, verbose))
    bad.extend(label_selftest(repo, verbose))
    bad.extend(string_selftest(repo, verbose))
    return bad


if __name__ == '__main__':
    from .. import env
    env.setup_import_paths()
    sys.setrecursionlimit(20000)
    if '--json' in sys.argv:
        import json
        n = main(env.REPO, verbose=False)
        print('JSON ' + json.dumps({'problems': n, 'info': {'scripts': len(SCRIPTS), 'frame_rule_cases': len(FRAME_CASES), 'symbolic_differential_cases': len(SYM_CASES) + len(LABEL_CASES) + len(STRING_CASES)}}))
        sys.exit(0 if not n else 3)
    n = main(env.REPO)
    for msg in n:
        print('  FAILED:', msg[:1500])
    print('SELFTEST', 'OK' if not n else f'FAILED ({len(n)})')
    sys.exit(0 if not n else 3)

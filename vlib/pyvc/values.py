"""Value domain of the symbolic interpreter.

Concrete Python values (int, bool, str, None, tuple, float) are used as themselves. Everything
that depends on a universally quantified input is a `Sym` wrapping a z3 term. Mutable Python
containers are wrapped so that aliasing (reference semantics) is kept."""
import z3

# ------------------------------------------------------------------ sorts ------------------
LabelSort = z3.DeclareSort('Label')
StateSort, (ST_F, ST_T, ST_U) = z3.EnumSort('GateState', ['F', 'T', 'U'])
GTYPE_NAMES = ['INPUT', 'ALWAYS_TRUE', 'ALWAYS_FALSE', 'AND', 'GEQ', 'GT', 'IFF', 'LEQ', 'LIFF', 'LNOT', 'LT',
               'NAND', 'NOR', 'NOT', 'NXOR', 'OR', 'RIFF', 'RNOT', 'XOR']
GTypeSort, _gt_consts = z3.EnumSort('GType', GTYPE_NAMES)
GT = dict(zip(GTYPE_NAMES, _gt_consts))


class Unsupported(Exception):
    """Construct outside the verified subset: the function's obligations become undecided."""


class Sym:
    """A symbolic scalar: z3 term of sort Int, Bool, GateState, Label, GType or String."""
    __slots__ = ('t',)

    def __init__(self, t):
        self.t = t

    @property
    def sort(self):
        return self.t.sort()

    def is_int(self):
        return z3.is_int(self.t)

    def is_bool(self):
        return z3.is_bool(self.t)

    def is_state(self):
        return self.t.sort() == StateSort

    def is_label(self):
        return self.t.sort() == LabelSort

    def is_gtype(self):
        return self.t.sort() == GTypeSort

    def is_str(self):
        return self.t.sort() == z3.StringSort()

    def __repr__(self):
        return f'Sym({self.t})'

    def __hash__(self):
        return hash(('Sym', self.t.get_id()))

    def __eq__(self, other):          # structural identity of terms (used by containers of the engine only)
        return isinstance(other, Sym) and self.t.eq(other.t)


class PyRaise(Exception):
    """A Python exception raised by the interpreted program."""

    def __init__(self, exc):
        Exception.__init__(self, repr(exc))
        self.exc = exc


class ReturnEx(Exception):
    def __init__(self, v):
        self.v = v


class BreakEx(Exception):
    pass


class ContinueEx(Exception):
    pass


class Infeasible(Exception):
    """The current path condition became unsatisfiable (assume(False))."""


# ------------------------------------------------------------------ objects ----------------
class ClassV:
    def __init__(self, name, bases, attrs, module=None):
        self.name = name
        self.bases = bases
        self.attrs = attrs
        self.module = module
        self.is_enum = any(getattr(b, 'is_enum', False) or b is ENUM_BASE for b in bases)
        self.is_exception = any(getattr(b, 'is_exception', False) for b in bases)
        self.dataclass = None

    def lookup(self, name):
        if name in self.attrs:
            return self.attrs[name]
        for b in self.bases:
            if isinstance(b, ClassV):
                r = b.lookup(name)
                if r is not NOTFOUND:
                    return r
        return NOTFOUND

    def issubclass(self, other):
        if self is other:
            return True
        return any(isinstance(b, ClassV) and b.issubclass(other) for b in self.bases)

    def __repr__(self):
        return f'<class {self.name}>'


class _NotFound:
    def __repr__(self):
        return 'NOTFOUND'


NOTFOUND = _NotFound()
ENUM_BASE = ClassV.__new__(ClassV)
ENUM_BASE.name, ENUM_BASE.bases, ENUM_BASE.attrs, ENUM_BASE.module = 'Enum', [], {}, None
ENUM_BASE.is_enum, ENUM_BASE.is_exception, ENUM_BASE.dataclass = True, False, None


def make_builtin_exc(name, base=None):
    c = ClassV(name, [base] if base else [], {})
    c.is_exception = True
    return c


EXC_BaseException = make_builtin_exc('BaseException')
EXC_Exception = make_builtin_exc('Exception', EXC_BaseException)
BUILTIN_EXC = {'BaseException': EXC_BaseException, 'Exception': EXC_Exception}
for _n, _b in [('ValueError', 'Exception'), ('KeyError', 'Exception'), ('IndexError', 'Exception'),
               ('TypeError', 'Exception'), ('AssertionError', 'Exception'), ('StopIteration', 'Exception'),
               ('NotImplementedError', 'Exception'), ('OverflowError', 'Exception'), ('AttributeError', 'Exception'),
               ('ZeroDivisionError', 'Exception'), ('RuntimeError', 'Exception'), ('EOFError', 'Exception'),
               ('UnicodeDecodeError', 'ValueError'), ('TimeoutError', 'Exception'), ('OSError', 'Exception')]:
    BUILTIN_EXC[_n] = make_builtin_exc(_n, BUILTIN_EXC[_b])


CLOCK = [0]      # allocation clock: every mutable value of the interpreted program records when it was created


def tick():
    CLOCK[0] += 1
    return CLOCK[0]


class Poison:
    """Binding of a variable whose value the proof rule in force does not know (assigned in a cut loop body but not
    described by the invariant's havoc): reading it makes the function undecided (rules R1 / R6, frame condition)."""

    def __init__(self, name, why):
        self.name, self.why = name, why

    def __repr__(self):
        return f'<poison {self.name}>'


class Obj:
    """Instance of an interpreted class (reference semantics)."""
    _n = 0

    def __init__(self, cls, fields=None):
        self.cls = cls
        self.fields = fields if fields is not None else {}
        Obj._n += 1
        self.oid = Obj._n
        self.born = tick()

    def __repr__(self):
        return f'<{self.cls.name} obj {self.fields if len(str(self.fields)) < 120 else "..."}>'


class EnumMember:
    def __init__(self, cls, name, value):
        self.cls, self.name, self.value = cls, name, value

    def __repr__(self):
        return f'{self.cls.name}.{self.name}'

    def __hash__(self):
        return hash((self.cls.name, self.name))

    def __eq__(self, o):
        return self is o


class FuncV:
    def __init__(self, name, node, closure_env, module, qualname=None, is_generator=False, defaults=None, kwdefaults=None):
        self.name, self.node, self.env, self.module = name, node, closure_env, module
        self.qualname = qualname or name
        self.is_generator = is_generator
        self.defaults = defaults or []
        self.kwdefaults = kwdefaults or {}
        self.kind = 'function'     # or staticmethod / property / classmethod

    def __repr__(self):
        return f'<func {self.qualname}>'


class BoundMethod:
    def __init__(self, func, self_obj):
        self.func, self.self_obj = func, self_obj

    def __repr__(self):
        return f'<bound {self.func!r}>'

    def __eq__(self, o):
        return isinstance(o, BoundMethod) and self.func is o.func and self.self_obj is o.self_obj

    def __hash__(self):
        return hash((id(self.func), id(self.self_obj)))


class Native:
    """A natively modelled callable (builtin / library stub / contract handler)."""

    def __init__(self, name, fn, needs_interp=False):
        self.name, self.fn, self.needs_interp = name, fn, needs_interp

    def __repr__(self):
        return f'<native {self.name}>'


class ModuleV:
    def __init__(self, name, path=None):
        self.name, self.path, self.env = name, path, {}
        self.loaded = False

    def __repr__(self):
        return f'<module {self.name}>'


class Opaque:
    """Values whose identity is irrelevant (typing constructs, loggers …)."""

    def __init__(self, name):
        self.name = name

    def __repr__(self):
        return f'<opaque {self.name}>'

    def __getitem__(self, k):
        return self

    def __or__(self, o):
        return self


# ------------------------------------------------------------------ containers -------------
class VList:
    """Python list with concrete length; elements may be symbolic. Reference semantics."""
    __slots__ = ('items', 'born')

    def __init__(self, items=()):
        self.items = list(items)
        self.born = tick()

    def __repr__(self):
        return f'VList({self.items})'


class VDict:
    """dict with concrete (hashable python / EnumMember / Obj identity) keys; insertion ordered.
    Symbolic keys are looked up by ite-chains (see Interp.dict_get)."""
    __slots__ = ('d', 'default_factory', 'born')

    def __init__(self, d=None, default_factory=None):
        self.d = dict(d or {})
        self.default_factory = default_factory
        self.born = tick()

    def __repr__(self):
        return f'VDict({self.d})'


class VSet:
    __slots__ = ('items', 'born')

    def __init__(self, items=()):
        self.born = tick()
        self.items = []
        for i in items:
            if i not in self.items:
                self.items.append(i)

    def __repr__(self):
        return f'VSet({self.items})'


class GenV:
    """A running generator of the interpreted program (wraps the interpreter's python generator)."""

    def __init__(self, it):
        self.it = it


class RangeV:
    def __init__(self, start, stop, step=1):
        self.start, self.stop, self.step = start, stop, step

"""Abstract objects used by contracts: symbolic sequences, fold views of CNFs, loop specifications."""
import z3

from .interp import Model, _simp
from .values import Sym, Unsupported, VList, PyRaise, Native, NOTFOUND, Infeasible, Poison, Obj, tick


class PathEnd(Exception):
    """The arbitrary-iteration path of a cut loop ends after re-establishing the invariant."""


class LoopSpec:
    """Inductive invariant of one loop (DESIGN §3.3 'Loops', rule R1).
    havoc(it, env)      : replace everything the loop may modify by fresh symbolic state
    inv(it, env, k)     : list of (name, z3 Bool) that hold before iteration k (k: z3 Int term)
    bound(it, env)      : z3 Int term n = number of iterations for `for` loops over a SymSeq (None for while)
    """

    def havoc(self, it, env):
        raise NotImplementedError

    def inv(self, it, env, k):
        raise NotImplementedError


class SymSeq(Model):
    """Immutable symbolic-length sequence: concrete prefix followed by n elements elem(i), 0 <= i < n."""

    def __init__(self, prefix, n, elem, kind='tuple'):
        self.prefix = list(prefix)
        self.n = n                  # z3 Int term, assumed >= 0 by whoever created it
        self.elem = elem            # python function: z3 Int term -> value
        self.kind = kind

    def m_len(self, it):
        return Sym(z3.IntVal(len(self.prefix)) + self.n)

    def with_prefix(self, items):
        s = SymSeq(list(items) + self.prefix, self.n, self.elem, self.kind)
        s.__dict__.update({k: v for k, v in self.__dict__.items() if k not in ('prefix', 'n', 'elem', 'kind')})
        return s

    def shifted(self, k):
        """the sequence without its first k (symbolic-part) elements; carried attributes (fold invariant …) are
        expressed in the indices of the shifted sequence"""
        el = self.elem
        s = SymSeq([], z3.simplify(self.n - k), lambda i, el=el, k=k: el(i + k), self.kind)
        s.__dict__.update({a: v for a, v in self.__dict__.items() if a not in ('prefix', 'n', 'elem', 'kind')})
        return s

    def concrete_len(self, it=None):
        n = z3.simplify(self.n)
        return len(self.prefix) + n.as_long() if z3.is_int_value(n) else None

    def rest_with_prefix(self, items):
        """used for *args binding: `items` are extra concrete positionals preceding the symbolic tail
        (whose own prefix was already spread into the positional list)"""
        s = SymSeq(list(items), self.n, self.elem, self.kind)
        s.__dict__.update({k: v for k, v in self.__dict__.items() if k not in ('prefix', 'n', 'elem', 'kind')})
        return s

    def m_getitem(self, it, k):
        p = len(self.prefix)
        if isinstance(k, slice):
            if k.step is None and k.stop is None and isinstance(k.start, int) and 0 <= k.start <= p:
                return SymSeq(self.prefix[k.start:], self.n, self.elem, self.kind)
            raise Unsupported('slice of symbolic sequence')
        if isinstance(k, int) and not isinstance(k, bool):
            if 0 <= k < p:
                return self.prefix[k]
            if k >= p:
                if not it.ctx.choose(_simp(z3.IntVal(k - p) < self.n)):
                    it.raise_('IndexError', 'index out of range')
                return self.elem(z3.IntVal(k - p))
            # negative index
            kt = z3.IntVal(k)
        else:
            kt = it.int_term(k)
        total = z3.IntVal(p) + self.n
        if not it.ctx.choose(_simp(z3.And(kt >= -total, kt < total))):
            it.raise_('IndexError', 'index out of range')
        idx = z3.simplify(z3.If(kt < 0, kt + total, kt))
        for i in range(p):
            if it.ctx.choose(_simp(idx == i)):
                return self.prefix[i]
        return self.elem(z3.simplify(idx - p))

    def m_iter(self, it):
        raise Unsupported('iteration over a symbolic-length sequence needs a loop invariant')

    def m_getattr(self, it, name):
        raise Unsupported('method %s of symbolic sequence' % name)


class Valuation:
    """Ghost valuation of CNF variables: an arbitrary fixed function Int -> Bool."""

    def __init__(self, name='v'):
        self.f = z3.Function(name, z3.IntSort(), z3.BoolSort())

    def lit(self, it, l):
        t = it.int_term(l)
        return z3.If(t > 0, self.f(t), z3.Not(self.f(-t)))


class ClauseView(Model):
    """A clause (python list of literals) seen through its truth value under the ghost valuation."""

    def __init__(self, val, tru):
        self.val = val
        self.tru = tru

    def m_getattr(self, it, name):
        if name == 'append':
            def append(l):
                self.tru = z3.Or(self.tru, self.val.lit(it, l))
            return Native('ClauseView.append', append)
        raise Unsupported('ClauseView.' + name)


class CnfView(Model):
    """A CNF (python list of clauses) seen through `sat` = conjunction of clause truth values under
    the ghost valuation, plus the number of clauses."""

    def __init__(self, val, sat, n=None):
        self.val = val
        self.sat = sat
        self.n = n if n is not None else z3.IntVal(0)

    def clause_truth(self, it, c):
        if isinstance(c, ClauseView):
            return c.tru
        if isinstance(c, VList):
            if not c.items:
                return z3.BoolVal(False)
            return z3.Or([self.val.lit(it, l) for l in c.items])
        raise Unsupported('clause of unknown shape')

    def m_getattr(self, it, name):
        if name == 'append':
            def append(c):
                self.sat = z3.And(self.sat, self.clause_truth(it, c))
                self.n = self.n + 1
            return Native('CnfView.append', append)
        if name == 'extend':
            def extend(cs):
                for c in it.iterate(cs):
                    self.sat = z3.And(self.sat, self.clause_truth(it, c))
                    self.n = self.n + 1
            return Native('CnfView.extend', extend)
        raise Unsupported('CnfView.' + name)

    def m_len(self, it):
        return Sym(self.n)


_MISSING = object()


class CutFrame:
    """Frame condition of a cut (rule R1 loop / rule R6 procedure body).  `before` the specification installs its fresh
    state the bindings of the enclosing environments and the fields of the objects they reach are recorded; `after` it,
      * every name the cut code (re)binds syntactically (`assigned`) that the specification did NOT re-bind is POISONED:
        a read before the code itself assigns it - in the body, in the loop condition or after the loop - raises
        Unsupported, i.e. the function becomes undecided instead of being verified from a stale value;
      * a Barrier is returned that is put in force while the body runs: mutating a concrete list / dict / set or assigning
        an attribute / an enclosing-scope name that exists since before the cut and was not re-created by the
        specification raises Unsupported as well (this also covers what callees of the body do).
    `spec.frame` (names) and `spec.frame_objects(it, env)` (objects) let a specification state that it describes a
    location in place."""

    def __init__(self, it, env, assigned, what, spec=None):
        from .interp import env_chain
        self.it, self.env, self.what, self.spec = it, env, what, spec
        self.chain = env_chain(env)
        nl = env.get('__nonlocal__', ())
        self.assigned = []
        for n in sorted(assigned):
            e = env
            if n in nl:
                e = next((x for x in self.chain[1:] if n in x), None)
                if e is None:
                    continue
            self.assigned.append((e, n))
        self.snap = {id(e): dict(e) for e in self.chain}
        self.objs = {}
        for e in self.chain:
            for v in list(e.values()):
                if isinstance(v, Obj) and v.oid not in self.objs:
                    self.objs[v.oid] = v
                    for w in list(v.fields.values()):
                        if isinstance(w, Obj) and w.oid not in self.objs:
                            self.objs[w.oid] = w
        self.fsnap = {oid: dict(o.fields) for oid, o in self.objs.items()}
        self.t0 = tick()

    def after(self):
        from .interp import Barrier
        names, fields = set(), set()
        for e in self.chain:
            old = self.snap[id(e)]
            for n, v in e.items():
                if old.get(n, _MISSING) is not v:
                    names.add((id(e), n))
        for oid, o in self.objs.items():
            old = self.fsnap[oid]
            for f, v in o.fields.items():
                if old.get(f, _MISSING) is not v:
                    fields.add((oid, f))
        declared = set(getattr(self.spec, 'frame', ()) or ())
        for e, n in self.assigned:
            if (id(e), n) in names or n in declared:
                names.add((id(e), n))
                continue
            e[n] = Poison(n, f'it is assigned inside {self.what} and the invariant / contract there does not describe it')
            names.add((id(e), n))
        allow = set()
        fo = getattr(self.spec, 'frame_objects', None)
        if callable(fo):
            allow = {id(x) for x in fo(self.it, self.env)}
        return Barrier(self.what, self.t0, [id(e) for e in self.chain], names, fields, allow)


def install_loop_rule(it):
    """Adds rule R1 to the interpreter: loops with a registered LoopSpec are cut by their invariant."""
    it.loop_specs = {}

    def loop_hook(st, env, module, iterable):
        key = getattr(st, '_loop_id', None)
        spec = it.loop_specs.get(key)
        if spec is None:
            if isinstance(iterable, SymSeq):
                raise Unsupported(f'loop {key} over symbolic sequence without invariant')
            return None
        try:
            spec.stmt = st            # specifications may read roles off the loop statement instead of naming locals
        except Exception:
            pass
        if callable(getattr(spec, 'applies', None)) and not spec.applies(it, env, iterable):
            return None
        from .values import RangeV
        if isinstance(iterable, RangeV):
            # range(a, b) with a symbolic bound, cut by an invariant: the sequence a, a+1, ..., b-1 (empty if b <= a)
            if not (isinstance(iterable.step, int) and iterable.step == 1):
                raise Unsupported('cut loop over a range with a step')
            a, b = it.int_term(iterable.start), it.int_term(iterable.stop)
            iterable = SymSeq([], z3.If(b > a, b - a, 0), lambda i, a=a: a + i, 'range')

        def run():
            try:
                return run_()
            except (KeyError, AttributeError) as e:
                # the sidecar invariant names a local / field that the current source no longer has: the proof needs
                # maintenance (undecided), it is neither a violation nor a checker crash
                import traceback
                tb = traceback.extract_tb(e.__traceback__)[-1]
                raise Unsupported(f'loop invariant {key} is out of date with the source: {type(e).__name__} {e} at {tb.filename.split("/")[-1]}:{tb.lineno}')

        def run_():
            import ast as _ast
            ctx = it.ctx
            is_for = isinstance(st, _ast.For)
            zero = z3.IntVal(0)
            # 1. invariant holds on entry
            for nm, g in spec.inv(it, env, zero):
                ctx.check(f'loop{key[1]}/entry/{nm}', g)
            # 2. fork: arbitrary iteration vs. exit
            which = ctx.fresh(z3.BoolSort(), 'loopcut')
            closed = hasattr(spec, 'install')      # closed-form state per iteration instead of havoc+assume
            from .interp import stored_names
            assigned = stored_names(st.body) | (stored_names([_ast.Assign(targets=[st.target], value=None)]) if is_for else set())
            cut = CutFrame(it, env, assigned, f'the body of cut loop {key[1]} of {key[0].split("::")[-1]}', spec)
            if ctx.choose(which):
                k = ctx.fresh(z3.IntSort(), 'k')
                ctx.assume(k >= 0)
                if closed:
                    if is_for:
                        ctx.assume(k < iterable.n)
                    spec.install(it, env, k)
                else:
                    spec.havoc(it, env)
                    for nm, g in (spec.inv_assume(it, env, k) if hasattr(spec, 'inv_assume') else spec.inv(it, env, k)):
                        ctx.assume(g)
                barrier = cut.after()
                if is_for:
                    seq = iterable
                    if getattr(seq, 'prefix', None):
                        raise Unsupported('cut for-loop must iterate a prefix-free symbolic sequence')
                    ctx.assume(k < seq.n)
                    e = seq.elem(k)
                    it.assign(st.target, e if not z3.is_expr(e) else Sym(e), env, module)
                else:
                    c = it.truth(it.eval(st.test, env, module))
                    ctx.assume(it.as_bool_term(c) if not isinstance(c, bool) else c)
                from .values import BreakEx, ContinueEx
                broke = False
                it.barriers.append(barrier)
                try:
                    for yv in it.exec_block(st.body, env, module):
                        if hasattr(spec, 'on_yield'):
                            spec.on_yield(it, env, yv)
                        else:
                            raise Unsupported('yield inside a cut loop')
                except ContinueEx:
                    pass
                except BreakEx:
                    broke = True
                finally:
                    it.barriers.remove(barrier)
                if broke:
                    return      # continue after the loop with the current state
                for nm, g in spec.inv(it, env, k + 1):
                    ctx.check(f'loop{key[1]}/preserved/{nm}', g)
                raise PathEnd()
            else:
                if closed and is_for:
                    spec.install(it, env, iterable.n)
                elif is_for:
                    spec.havoc(it, env)
                    n = iterable.n
                    for nm, g in (spec.inv_assume(it, env, n) if hasattr(spec, 'inv_assume') else spec.inv(it, env, n)):
                        ctx.assume(g)
                else:
                    spec.havoc(it, env)
                    k = ctx.fresh(z3.IntSort(), 'kexit')
                    ctx.assume(k >= 0)
                    for nm, g in (spec.inv_assume(it, env, k) if hasattr(spec, 'inv_assume') else spec.inv(it, env, k)):
                        ctx.assume(g)
                    cut.after()
                    c = it.truth(it.eval(st.test, env, module))
                    ctx.assume(z3.Not(it.as_bool_term(c)) if not isinstance(c, bool) else (not c))
                if is_for:
                    cut.after()
                if st.orelse:
                    for _ in it.exec_block(st.orelse, env, module):
                        raise Unsupported('yield')
        return run

    it.loop_hook = loop_hook


class HavocLocals(LoopSpec):
    """while-loop whose body only re-assigns local scalars by pure expressions (e.g. drawing another random
    label): weakest invariant True; after the loop only the negated guard is known. `fresh` maps a local
    name to a function producing a fresh symbolic value."""

    def __init__(self, fresh):
        self.fresh = fresh

    def havoc(self, it, env):
        for name, mk in self.fresh.items():
            env[name] = mk(it)
            v = env[name]
            if hasattr(v, 't') and v.t.sort().name() == 'Label':      # a re-drawn uuid label: distinct from earlier draws
                prev = getattr(it.ctx, 'uuid_labels', None)
                if prev is None:
                    prev = it.ctx.uuid_labels = []
                for p in prev:
                    it.ctx.assume(v.t != p)
                prev.append(v.t)
                for c in it.str_labels.values():
                    it.ctx.assume(v.t != c)

    def inv(self, it, env, k):
        return []

"""pyvc interpreter: symbolic execution of the real Python source (AST re-read from the repository on
every run). See DESIGN.md §3. Nothing of the verified code is imported or executed by CPython."""
import ast
import hashlib
import os
import z3

from .values import (Sym, PyRaise, ReturnEx, BreakEx, ContinueEx, Infeasible, Unsupported, ClassV, Obj, EnumMember,
                     FuncV, BoundMethod, Native, ModuleV, Opaque, VList, VDict, VSet, GenV, RangeV, NOTFOUND,
                     ENUM_BASE, BUILTIN_EXC, LabelSort, StateSort, ST_F, ST_T, ST_U, GTypeSort, GT, Poison, CLOCK)

MAX_UNROLL = 400


class Model:
    """Base class of natively modelled abstract objects (abstract circuit state, CNF views, …)."""

    def m_getattr(self, it, name):
        raise Unsupported(f'{type(self).__name__}.{name}')

    def m_setattr(self, it, name, v):
        raise Unsupported(f'{type(self).__name__}.{name} = …')

    def m_getitem(self, it, k):
        raise Unsupported(f'{type(self).__name__}[…]')

    def m_setitem(self, it, k, v):
        raise Unsupported(f'{type(self).__name__}[…] = …')

    def m_delitem(self, it, k):
        raise Unsupported(f'del {type(self).__name__}[…]')

    def m_contains(self, it, k):
        raise Unsupported(f'… in {type(self).__name__}')

    def m_iter(self, it):
        raise Unsupported(f'iter({type(self).__name__})')

    def m_len(self, it):
        raise Unsupported(f'len({type(self).__name__})')

    def m_eq(self, it, other):
        if self is other:
            return True
        # two distinct abstract objects: whether they are equal as program values is not encoded in general -
        # answering False would make comparisons hold / fail vacuously
        raise Unsupported(f'== between {type(self).__name__} and {type(other).__name__} is not encoded')


class StarTail:
    """marker: the remaining positional arguments are a symbolic-length sequence"""

    def __init__(self, seq):
        self.seq = seq


class Ctx:
    """One path of one symbolic execution."""

    def __init__(self, trace, timeout_ms=int(os.environ.get("VERIF_FEAS_MS", "1000"))):
        self.trace = list(trace)
        self.pos = 0
        self.pc = []
        self.obligations = []     # (name, [pc...], goal, meta)
        self.fresh_n = 0
        self.solver = z3.Solver()
        self.solver.set('timeout', timeout_ms)
        self.solver.set('rlimit', int(os.environ.get('VERIF_FEAS_RLIMIT', '150000')))     # deterministic budget; wall-clock is only a safety net
        # feasibility pruning only needs refutations: no model-based quantifier instantiation
        # (an `unknown` answer keeps the path, which is sound)
        self.solver.set('smt.mbqi', False)
        self.events = []          # free-form log (model classes record frame events here)
        self.barriers = []        # frame conditions of the proof rules in force (rules R1 / R6), innermost last
        self.t_setup = None       # allocation clock when the contract's setup finished
        self.field_writes = []    # attribute assignments on objects older than that: (class, attribute, old type, new type)
        self.static_writes = []   # mutations of module-level / class-level containers by the function under contract
        self.decisions = 0
        self.concrete_only = False

    def fresh(self, sort, hint='v'):
        self.fresh_n += 1
        return z3.Const(f'{hint}!{self.fresh_n}', sort)

    def assume(self, t):
        if isinstance(t, bool):
            if not t:
                raise Infeasible()
            return
        t = z3.simplify(t)
        if z3.is_true(t):
            return
        if z3.is_false(t):
            raise Infeasible()
        self.pc.append(t)
        self.solver.add(t)

    def feasible(self, t):
        self.solver.push()
        self.solver.add(t)
        r = self.solver.check()
        self.solver.pop()
        return r != z3.unsat

    def choose(self, cond):
        """Fork on a symbolic condition; returns the python bool chosen on this path."""
        if isinstance(cond, bool):
            return cond
        cond = z3.simplify(cond)
        if z3.is_true(cond):
            return True
        if z3.is_false(cond):
            return False
        if self.concrete_only:
            raise Unsupported('symbolic branch during module initialisation')
        if self.pos < len(self.trace):
            b = self.trace[self.pos]
        else:
            can_t = self.feasible(cond)
            can_f = self.feasible(z3.Not(cond))
            if can_t and can_f:
                b = True
                self.trace.append(True)
            elif can_t:
                b = True
                self.trace.append('T!')       # forced, no alternative
            elif can_f:
                b = False
                self.trace.append('F!')
            else:
                raise Infeasible()
        if self.pos < len(self.trace) and isinstance(self.trace[self.pos], str):
            b = self.trace[self.pos] == 'T!'
        else:
            self.decisions += 1          # a genuine two-way fork (forced choices are not decisions)
        self.pos += 1
        self.pc.append(cond if b else z3.Not(cond))
        self.solver.add(self.pc[-1])
        return b

    def check(self, name, goal, meta=None):
        """Record the obligation  pc ⇒ goal."""
        if isinstance(goal, bool):
            goal = z3.BoolVal(goal)
        self.obligations.append((name, list(self.pc), goal, meta or {}))


def explore(run, max_paths=4096):
    """Enumerate all feasible paths of `run(ctx)`; returns list of (ctx, outcome). outcome =
    ('return', v) | ('raise', exc) | ('unsupported', msg)."""
    results = []
    stack = [[]]
    while stack:
        prefix = stack.pop()
        ctx = Ctx(prefix)
        try:
            out = ('return', run(ctx))
        except PyRaise as r:
            out = ('raise', r.exc)
        except Infeasible:
            out = ('infeasible', None)
        except Unsupported as u:
            out = ('unsupported', str(u))
            if os.environ.get('VERIF_TRACE_UNSUPPORTED'):
                import traceback
                traceback.print_exc()
        except Exception as e:
            if type(e).__name__ == 'PathEnd':
                out = ('cut', None)
            else:
                raise
        if out[0] != 'infeasible':
            results.append((ctx, out))
        for i in range(len(ctx.trace) - 1, len(prefix) - 1, -1):
            if ctx.trace[i] is True:
                stack.append(ctx.trace[:i] + [False])
        if len(results) > max_paths:
            raise Unsupported('path explosion')
    return results


# ------------------------------------------------------------------------------------------
class Interp:
    def __init__(self, repo_root, lib=None):
        self.repo = repo_root
        self.modules = {}
        self.ctx = None
        self.contracts = {}        # qualname -> handler(interp, funcv, args, kwargs)
        self.str_labels = {}       # python str used as label -> z3 const
        self.sources = {}          # relpath -> (text, tree)
        self.depth = 0
        from . import lib as _lib
        self.lib = _lib.Library(self)
        self.string_mode = False   # True: python str <-> z3 String (C11); False: str used as label -> Label const
        self.inline_log = set()

    _NO_BARRIERS = ()

    @property
    def barriers(self):
        """frame conditions in force on the current path (rules R1 / R6); none while modules are loaded"""
        return self.ctx.barriers if self.ctx is not None else self._NO_BARRIERS

    # ---------------------------------------------------------------- modules ---------------
    def find_module_file(self, modname):
        base = os.path.join(self.repo, *modname.split('.'))
        if os.path.isdir(base) and os.path.exists(os.path.join(base, '__init__.py')):
            return os.path.join(base, '__init__.py')
        if os.path.exists(base + '.py'):
            return base + '.py'
        return None

    def source_of(self, path):
        if path not in self.sources:
            text = open(path).read()
            self.sources[path] = (text, ast.parse(text))
        return self.sources[path]

    def load_module(self, modname):
        if modname in self.modules:
            return self.modules[modname]
        if '.' in modname:
            parent = modname.rsplit('.', 1)[0]
            if parent not in self.modules and self.find_module_file(parent) is not None:
                self.load_module(parent)      # CPython imports parent packages first
                if modname in self.modules:
                    return self.modules[modname]
        path = self.find_module_file(modname)
        if path is None:
            m = self.lib.stub_module(modname)
            self.modules[modname] = m
            return m
        m = ModuleV(modname, path)
        self.modules[modname] = m
        m.env['__name__'] = modname
        text, tree = self.source_of(path)
        saved = self.ctx
        self.ctx = Ctx([])
        self.ctx.concrete_only = True
        try:
            for _ in self.exec_block(tree.body, m.env, m):
                raise Unsupported('yield at module level')
        finally:
            self.ctx = saved
        m.loaded = True
        _mark_static(m.env)
        return m

    def import_from(self, modname, name):
        m = self.load_module(modname)
        if name in m.env:
            return m.env[name]
        sub = modname + '.' + name
        if self.find_module_file(sub) is not None:
            return self.load_module(sub)
        if isinstance(m, ModuleV) and m.path is None:
            return self.lib.stub_attr(m, name)
        raise Unsupported(f'cannot import {name} from {modname}')

    def get_function(self, relpath, qualname):
        """Locate a function/method of the real source: 'cirbo/sat/cnf/tseytin.py', '_process_gt' or 'Circuit.add_gate'."""
        modname = relpath[:-3].replace('/', '.')
        if modname.endswith('.__init__'):
            modname = modname[:-9]
        m = self.load_module(modname)
        parts = qualname.split('.')
        if parts[0] not in m.env:
            # the function under contract was removed / renamed in the tree under verification: nothing can be proved about it
            raise Unsupported(f'{relpath} has no `{parts[0]}` any more (function under contract removed or renamed)')
        v = m.env[parts[0]]
        for p in parts[1:]:
            v = v.lookup(p) if isinstance(v, ClassV) else self.getattr(v, p)
            if v is NOTFOUND:
                raise Unsupported(f'{relpath} has no `{qualname}` any more (function under contract removed or renamed)')
        return v

    def get_nested_function(self, relpath, outer_qualname, inner_name, extra_env=None):
        """Extract a function defined inside another function (mechanically, from the AST): the closure is
        given the enclosing module's globals plus `extra_env` for the enclosing function's locals it reads."""
        outer = self.get_function(relpath, outer_qualname)
        for n in ast.walk(outer.node):
            if isinstance(n, ast.FunctionDef) and n.name == inner_name and n is not outer.node:
                env = {'__parent__': None, '__qualname__': outer.qualname}
                env.update(extra_env or {})
                fv = self.make_function(n, env, outer.module)
                return fv
        raise Unsupported(f'nested function {inner_name} not found in {outer_qualname}')

    def function_info(self, fv):
        text, _ = self.source_of(fv.module.path)
        seg = ast.get_source_segment(text, fv.node) or ''
        return {'file': os.path.relpath(fv.module.path, self.repo), 'lines': [fv.node.lineno, fv.node.end_lineno],
                'sha256': hashlib.sha256(seg.encode()).hexdigest()}

    # ---------------------------------------------------------------- statements ------------
    def exec_block(self, stmts, env, module):
        for st in stmts:
            yield from self.exec_stmt(st, env, module)

    def exec_stmt(self, st, env, module):
        ev = lambda e: self.eval(e, env, module)
        T = type(st)
        if T is ast.Expr:
            v = st.value
            if isinstance(v, ast.Constant):
                return
            if isinstance(v, ast.Yield):
                yield (ev(v.value) if v.value is not None else None)
                return
            if isinstance(v, ast.YieldFrom):
                for x in self.iterate(ev(v.value)):
                    yield x
                return
            ev(v)
            return
        if T is ast.Assign:
            val = ev(st.value)
            for t in st.targets:
                self.assign(t, val, env, module)
            return
        if T is ast.AnnAssign:
            if st.value is not None:
                self.assign(st.target, ev(st.value), env, module)
            return
        if T is ast.AugAssign:
            cur = ev(_load(st.target))
            val = ev(st.value)
            if isinstance(cur, VList) and isinstance(st.op, ast.Add):
                cur.items.extend(self.iterate(val))
                return
            self.assign(st.target, self.binop(st.op, cur, val), env, module)
            return
        if T is ast.If:
            c = self.truth(ev(st.test))
            yield from self.exec_block(st.body if self.ctx.choose(c) else st.orelse, env, module)
            return
        if T is ast.Return:
            raise ReturnEx(ev(st.value) if st.value is not None else None)
        if T is ast.Pass:
            return
        if T is ast.For:
            it = ev(st.iter)
            hook = self.loop_hook(st, env, module, it)
            if hook is not None:
                hook()
                return
            broke = False
            n = 0
            for x in self.iterate(it):
                n += 1
                if n > MAX_UNROLL:
                    raise Unsupported('for loop exceeds unroll limit')
                self.assign(st.target, x, env, module)
                try:
                    yield from self.exec_block(st.body, env, module)
                except BreakEx:
                    broke = True
                    break
                except ContinueEx:
                    continue
            if not broke:
                yield from self.exec_block(st.orelse, env, module)
            return
        if T is ast.While:
            hook = self.loop_hook(st, env, module, None)
            if hook is not None:
                hook()
                return
            n = 0
            while True:
                c = self.truth(ev(st.test))
                if not self.ctx.choose(c):
                    yield from self.exec_block(st.orelse, env, module)
                    break
                n += 1
                if n > MAX_UNROLL:
                    raise Unsupported('while loop exceeds unroll limit (no invariant supplied)')
                try:
                    yield from self.exec_block(st.body, env, module)
                except BreakEx:
                    break
                except ContinueEx:
                    continue
            return
        if T is ast.Raise:
            if st.exc is None:
                raise Unsupported('bare raise')
            e = ev(st.exc)
            if isinstance(e, ClassV):
                e = self.call(e, [], {})
            raise PyRaise(e)
        if T is ast.Assert:
            c = self.truth(ev(st.test))
            if not self.ctx.choose(c):
                raise PyRaise(self.make_exc('AssertionError', 'assert at line %d' % st.lineno))
            return
        if T is ast.FunctionDef:
            fv = self.make_function(st, env, module)
            for d in reversed(st.decorator_list):
                fv = self.apply_decorator(ev(d) if not _is_name(d, ('property', 'staticmethod', 'classmethod')) else d.id, fv)
            env[st.name] = fv
            return
        if T is ast.ClassDef:
            self.exec_classdef(st, env, module)
            return
        if T is ast.Import:
            for a in st.names:
                m = self.load_module(a.name)
                if a.asname:
                    env[a.asname] = m
                else:
                    top = a.name.split('.')[0]
                    env[top] = self.load_module(top)
            return
        if T is ast.ImportFrom:
            modname = st.module
            if st.level:
                pkg = module.name if module.path.endswith('__init__.py') else module.name.rsplit('.', 1)[0]
                for _ in range(st.level - 1):
                    pkg = pkg.rsplit('.', 1)[0]
                modname = pkg + ('.' + st.module if st.module else '')
            for a in st.names:
                env[a.asname or a.name] = self.import_from(modname, a.name)
            return
        if T is ast.Break:
            raise BreakEx()
        if T is ast.Continue:
            raise ContinueEx()
        if T is ast.Delete:
            for t in st.targets:
                if isinstance(t, ast.Subscript):
                    self.delitem(ev(t.value), ev(t.slice))
                elif isinstance(t, ast.Name):
                    del env[t.id]
                else:
                    raise Unsupported('del target')
            return
        if T in (ast.Nonlocal, ast.Global):
            env.setdefault('__nonlocal__', set()).update(st.names)
            return
        if T is ast.Try:
            try:
                yield from self.exec_block(st.body, env, module)
            except PyRaise as r:
                for h in st.handlers:
                    if h.type is None or self.exc_matches(r.exc, ev(h.type)):
                        if h.name:
                            env[h.name] = r.exc
                        yield from self.exec_block(h.body, env, module)
                        break
                else:
                    yield from self.exec_block(st.finalbody, env, module)
                    raise
            else:
                yield from self.exec_block(st.orelse, env, module)
            yield from self.exec_block(st.finalbody, env, module)
            return
        if T is ast.With:
            for item in st.items:
                v = ev(item.context_expr)
                if item.optional_vars is not None:
                    self.assign(item.optional_vars, v, env, module)
            yield from self.exec_block(st.body, env, module)
            return
        raise Unsupported(f'statement {T.__name__} at line {st.lineno}')

    def loop_hook(self, st, env, module, it):
        """Contracts may register an invariant for a loop: key (function qualname, loop line offset)."""
        return None

    def exc_matches(self, exc, cls):
        if isinstance(cls, tuple):
            return any(self.exc_matches(exc, c) for c in cls)
        if isinstance(exc, Obj) and isinstance(cls, ClassV):
            return exc.cls.issubclass(cls)
        return False

    def make_exc(self, name, msg=''):
        return Obj(BUILTIN_EXC[name], {'args': (msg,)})

    def raise_(self, name, msg=''):
        raise PyRaise(self.make_exc(name, msg))

    def assign(self, t, val, env, module):
        if isinstance(t, ast.Name):
            self.store_name(t.id, val, env)
        elif isinstance(t, (ast.Tuple, ast.List)):
            vals = list(self.iterate(val))
            star = [i for i, e in enumerate(t.elts) if isinstance(e, ast.Starred)]
            if star:
                raise Unsupported('starred assignment')
            if len(vals) != len(t.elts):
                self.raise_('ValueError', 'unpack')
            for e, v in zip(t.elts, vals):
                self.assign(e, v, env, module)
        elif isinstance(t, ast.Subscript):
            self.setitem(self.eval(t.value, env, module), self.eval_slice(t.slice, env, module), val)
        elif isinstance(t, ast.Attribute):
            self.setattr(self.eval(t.value, env, module), t.attr, val)
        else:
            raise Unsupported('assignment target')

    def store_name(self, name, val, env):
        e = env
        if name in env.get('__nonlocal__', ()):
            e = env.get('__parent__')
            while e is not None and name not in e:
                e = e.get('__parent__')
            if e is None:
                raise Unsupported('nonlocal target not found')
        if self.barriers:
            self.barrier_name(e, name)
        e[name] = val

    def lookup_name(self, name, env, module):
        e = env
        while e is not None:
            if name in e:
                v = e[name]
                if type(v) is Poison:
                    raise Unsupported(f'frame condition: `{name}` is read but {v.why}')
                return v
            e = e.get('__parent__')
        if module is not None and name in module.env:
            return module.env[name]
        b = self.lib.builtin(name)
        if b is not NOTFOUND:
            return b
        raise Unsupported(f'unbound name {name}')

    # ---------------------------------------------------------------- definitions -----------
    def make_function(self, node, env, module, qualprefix=''):
        is_gen = any(isinstance(n, (ast.Yield, ast.YieldFrom)) for n in _walk_no_nested(node))
        defaults = [self.eval(d, env, module) for d in node.args.defaults]
        kwdefaults = {a.arg: self.eval(d, env, module) for a, d in zip(node.args.kwonlyargs, node.args.kw_defaults) if d is not None}
        parent_q = env.get('__qualname__', '')
        q = (parent_q + '.' if parent_q else '') + node.name
        loops = sorted((n for n in _walk_no_nested(node) if isinstance(n, (ast.For, ast.While))), key=lambda n: (n.lineno, n.col_offset))
        rel = os.path.relpath(module.path, self.repo) if module is not None and module.path else '?'
        for i, n in enumerate(loops):
            n._loop_id = (rel + '::' + q, i + 1)
        return FuncV(node.name, node, env, module, qualname=q, is_generator=is_gen, defaults=defaults, kwdefaults=kwdefaults)

    def apply_decorator(self, d, fv):
        if d in ('property', 'staticmethod', 'classmethod'):
            fv.kind = d
            return fv
        if isinstance(d, Native):
            return d.fn(fv) if not d.needs_interp else d.fn(self, fv)
        if isinstance(d, Opaque):
            return fv
        raise Unsupported(f'decorator {d}')

    def exec_classdef(self, st, env, module):
        bases = [self.eval(b, env, module) for b in st.bases]
        cenv = {'__parent__': env if '__parent__' in env or env is not module.env else None,
                '__qualname__': (env.get('__qualname__', '') + '.' if env.get('__qualname__') else '') + st.name}
        if cenv['__parent__'] is None:
            del cenv['__parent__']
            cenv['__parent__'] = None
        cls = ClassV(st.name, [b for b in bases if isinstance(b, ClassV)], {}, module)
        for _ in self.exec_block(st.body, cenv, module):
            raise Unsupported('yield in class body')
        ann = [s.target.id for s in st.body if isinstance(s, ast.AnnAssign) and isinstance(s.target, ast.Name)]
        for k, v in cenv.items():
            if k in ('__parent__', '__qualname__', '__nonlocal__'):
                continue
            cls.attrs[k] = v
            if isinstance(v, FuncV):
                v.owner_class = cls
        cls.annotations = ann
        if cls.is_enum:
            members = {}
            for s in st.body:
                if isinstance(s, ast.Assign) and isinstance(s.targets[0], ast.Name) and not s.targets[0].id.startswith('_'):
                    n = s.targets[0].id
                    members[n] = EnumMember(cls, n, cls.attrs[n])
                    cls.attrs[n] = members[n]
            cls.members = members
        v = cls
        for d in reversed(st.decorator_list):
            dv = self.eval(d, env, module)
            if isinstance(dv, Native):
                v = dv.fn(v) if not dv.needs_interp else dv.fn(self, v)
            elif isinstance(dv, Opaque):
                pass
            else:
                raise Unsupported('class decorator')
        env[st.name] = v

    # ---------------------------------------------------------------- calls -----------------
    def call(self, f, args, kwargs):
        if isinstance(f, Native):
            return f.fn(self, *args, **kwargs) if f.needs_interp else f.fn(*args, **kwargs)
        if isinstance(f, BoundMethod):
            return self.call(f.func, [f.self_obj] + list(args), kwargs)
        if isinstance(f, FuncV):
            return self.call_function(f, args, kwargs)
        if isinstance(f, ClassV):
            return self.instantiate(f, args, kwargs)
        if isinstance(f, Model):
            return f.m_call(self, args, kwargs)
        if isinstance(f, Opaque):
            return Opaque(f.name + '()')
        raise Unsupported(f'call of {f!r}')

    def qualified(self, fv):
        return os.path.relpath(fv.module.path, self.repo) + '::' + fv.qualname if fv.module and fv.module.path else fv.qualname

    def call_function(self, fv, args, kwargs, force_inline=False):
        q = self.qualified(fv)
        if not force_inline and q in self.contracts:
            return self.contracts[q](self, fv, list(args), dict(kwargs))
        env = self.bind(fv, args, kwargs)
        self.inline_log.add(q)
        if fv.is_generator:
            return GenV(self._gen_body(fv, env))
        self.depth += 1
        if self.depth > 200:
            raise Unsupported('recursion depth')
        if not hasattr(self, 'frames'):
            self.frames = []
        self.frames.append((getattr(fv, 'owner_class', None), args[0] if args else None))
        try:
            if isinstance(fv.node, ast.Lambda):
                return self.eval(fv.node.body, env, fv.module)
            for _ in self.exec_block(fv.node.body, env, fv.module):
                raise Unsupported('yield in non-generator')
        except ReturnEx as r:
            return r.v
        finally:
            self.depth -= 1
            self.frames.pop()
        return None

    def _gen_body(self, fv, env):
        try:
            yield from self.exec_block(fv.node.body, env, fv.module)
        except ReturnEx:
            return

    def bind(self, fv, args, kwargs):
        a = fv.node.args
        env = {'__parent__': fv.env if (fv.env is not None and fv.env is not fv.module.env) else None,
               '__qualname__': fv.qualname}
        params = [p.arg for p in a.posonlyargs + a.args]
        args = list(args)
        kwargs = dict(kwargs)
        tail = None
        if args and isinstance(args[-1], StarTail):
            tail = args.pop().seq
            need = len(params) - len(args)
            if need > 0:
                # named parameters take the first elements of the symbolic tail (their existence is forced or forked)
                if tail.prefix:
                    raise Unsupported('symbolic tail with a prefix spread over named parameters')
                if self.ctx.feasible(tail.n < need) and not self.ctx.choose(_simp(tail.n >= need)):
                    self.raise_('TypeError', f'{fv.name}() missing required positional arguments')
                self.ctx.assume(tail.n >= need)
                for j in range(need):
                    e = tail.elem(z3.IntVal(j))
                    args.append(Sym(e) if z3.is_expr(e) else e)
                tail = tail.shifted(need)
            if a.vararg is None:
                if self.ctx.feasible(tail.n > 0) and not self.ctx.choose(_simp(tail.n == 0)):
                    self.raise_('TypeError', f'{fv.name}() takes {len(params)} positional arguments but more were given')
                self.ctx.assume(tail.n == 0)
                tail = None
        if len(args) > len(params) and a.vararg is None:
            self.raise_('TypeError', f'{fv.name}() takes {len(params)} positional arguments but {len(args)} were given')
        for p, v in zip(params, args):
            env[p] = v
        if a.vararg is not None:
            env[a.vararg.arg] = tuple(args[len(params):]) if tail is None else tail.rest_with_prefix(args[len(params):])
        nd = len(fv.defaults)
        for i, p in enumerate(params):
            if p in env:
                if p in kwargs:
                    self.raise_('TypeError', 'multiple values for ' + p)
                continue
            if p in kwargs:
                env[p] = kwargs.pop(p)
            elif i >= len(params) - nd:
                env[p] = fv.defaults[i - (len(params) - nd)]
            else:
                self.raise_('TypeError', f'{fv.name}() missing required argument {p}')
        for p in a.kwonlyargs:
            if p.arg in kwargs:
                env[p.arg] = kwargs.pop(p.arg)
            elif p.arg in fv.kwdefaults:
                env[p.arg] = fv.kwdefaults[p.arg]
            else:
                self.raise_('TypeError', f'missing kw-only {p.arg}')
        if a.kwarg is not None:
            env[a.kwarg.arg] = VDict(kwargs)
        elif kwargs:
            self.raise_('TypeError', f'{fv.name}() got unexpected keyword {list(kwargs)}')
        return env

    def instantiate(self, cls, args, kwargs):
        if cls.is_enum:
            if len(args) != 1:
                raise Unsupported('enum call')
            for m in cls.members.values():
                c = self.eq(m.value, args[0])
                if self.ctx.choose(self.as_bool_term(c)):
                    return m
            self.raise_('ValueError', f'{args[0]!r} is not a valid {cls.name}')
        hook = getattr(cls, 'native_new', None)
        if hook is not None:
            return hook(self, cls, args, kwargs)
        o = Obj(cls)
        init = cls.lookup('__init__')
        if init is not NOTFOUND:
            self.call(init, [o] + list(args), kwargs)
        elif cls.dataclass is not None:
            names = cls.annotations
            for n, v in zip(names, args):
                o.fields[n] = v
            for n in names[len(args):]:
                if n in kwargs:
                    o.fields[n] = kwargs[n]
                elif n in cls.attrs:
                    o.fields[n] = cls.attrs[n]
                else:
                    self.raise_('TypeError', 'missing dataclass field ' + n)
        elif cls.is_exception:
            o.fields['args'] = tuple(args)
        elif args or kwargs:
            self.raise_('TypeError', f'{cls.name}() takes no arguments')
        return o

    # ---------------------------------------------------------------- attribute access ------
    def getattr(self, v, name):
        if isinstance(v, Obj):
            if name in v.fields:
                return v.fields[name]
            a = v.cls.lookup(name)
            if a is NOTFOUND:
                if name == '__class__':
                    return v.cls
                self.raise_('AttributeError', f'{v.cls.name}.{name}')
            if isinstance(a, FuncV):
                if a.kind == 'property':
                    return self.call_function(a, [v], {})
                if a.kind == 'staticmethod':
                    return a
                if a.kind == 'classmethod':
                    return BoundMethod(a, v.cls)
                return BoundMethod(a, v)
            if isinstance(a, Native) and getattr(a, 'is_method', False):
                return BoundMethod(a, v)
            return a
        if isinstance(v, ClassV):
            if name == '__name__':
                return v.name
            a = v.lookup(name)
            if a is NOTFOUND:
                self.raise_('AttributeError', f'class {v.name}.{name}')
            if isinstance(a, FuncV) and a.kind == 'classmethod':
                return BoundMethod(a, v)
            return a
        if isinstance(v, ModuleV):
            if name in v.env:
                return v.env[name]
            if v.path is None:
                return self.lib.stub_attr(v, name)
            sub = v.name + '.' + name
            if self.find_module_file(sub):
                return self.load_module(sub)
            self.raise_('AttributeError', f'module {v.name}.{name}')
        if isinstance(v, EnumMember):
            if name == 'value':
                return v.value
            if name == 'name':
                return v.name
            a = v.cls.lookup(name)
            if isinstance(a, FuncV):
                return BoundMethod(a, v)
            raise Unsupported('enum attr ' + name)
        if isinstance(v, Model):
            return v.m_getattr(self, name)
        if isinstance(v, Opaque):
            return Opaque(v.name + '.' + name)
        if type(v).__name__ == 'SuperProxy':
            mro = self.mro(v.obj.cls)
            after = mro[mro.index(v.cls) + 1:] if v.cls in mro else []
            for c in after:
                if name in c.attrs:
                    a = c.attrs[name]
                    if isinstance(a, FuncV) and a.kind == 'function':
                        return BoundMethod(a, v.obj)
                    return a
            if name == '__init__':
                return Native('object.__init__', lambda *a, **k: None)
            self.raise_('AttributeError', 'super().' + name)
        if isinstance(v, Sym) and v.is_gtype():
            # a symbolic gate type: branch over the types it can be on this path and use the real GateType constant
            gm = self.load_module('cirbo.core.circuit.gate')
            t = z3.simplify(v.t)
            for tn, const in GT.items():
                if t.eq(const):
                    return self.getattr(gm.env[tn], name)
            for tn, const in GT.items():
                if self.ctx.feasible(v.t == const) and self.ctx.choose(v.t == const):
                    return self.getattr(gm.env[tn], name)
            raise Infeasible()
        m = self.lib.method(v, name)
        if m is not NOTFOUND:
            return m
        if isinstance(v, Native) and getattr(v, 'name', None) == 'dict' and name == 'fromkeys':
            def fromkeys(keys, value=None):
                d = VDict()
                for k in self.iterate(keys):
                    self.setitem(d, k, value)
                return d
            return Native('dict.fromkeys', fromkeys)
        raise Unsupported(f'attribute {name} of {type(v).__name__}')

    def mro(self, cls):
        out = []

        def walk(c):
            if c in out:
                return
            out.append(c)
            for b in c.bases:
                if isinstance(b, ClassV):
                    walk(b)
        walk(cls)
        return out

    # ---- frame conditions (rules R1 / R6) ---------------------------------------------------------------------
    def barrier_obj(self, c, what):
        """A concrete container that exists since before the havoc of a cut loop / recursive procedure is loop-carried
        state the invariant does not describe: mutating it inside the body makes the function undecided."""
        if isinstance(c, (VList, VDict, VSet)):
            for b in self.barriers:
                if c.born < b.t0 and id(c) not in b.allow:
                    raise Unsupported(f'frame condition of {b.what}: {what} on a {type(c).__name__[1:].lower()} that exists before the '
                                      f'cut and is not re-created by the invariant (loop-carried state outside the contract)')

    def static_write(self, c, what):
        """a list / dict / set created while a module was loaded (module-level or class-level state: a registry, a cache)
        is mutated by the function under contract: state that survives the call and that no contract describes"""
        ctx = self.ctx
        if ctx is not None and ctx.t_setup is not None:
            ctx.static_writes.append(f'{what} on a module-level {type(c).__name__[1:].lower()}')

    def barrier_field(self, o, name):
        for b in self.barriers:
            if o.born < b.t0 and (o.oid, name) not in b.fields and id(o) not in b.allow:
                old = o.fields.get(name)
                if isinstance(old, Model):
                    continue
                raise Unsupported(f'frame condition of {b.what}: attribute `{name}` of a {o.cls.name} object that exists before the cut '
                                  f'is assigned but not described by the invariant')

    def barrier_name(self, e, name):
        for b in self.barriers:
            if id(e) in b.chain and (id(e), name) not in b.names:
                raise Unsupported(f'frame condition of {b.what}: `{name}` is assigned but not described by the invariant')

    def setattr(self, v, name, val):
        if isinstance(v, Obj):
            if v.cls.dataclass == 'frozen':
                self.raise_('AttributeError', 'frozen dataclass')
            if self.barriers:
                self.barrier_field(v, name)
            t0 = getattr(self.ctx, 't_setup', None)
            if t0 is not None and v.born < t0:
                self.ctx.field_writes.append((v.cls.name, name, isinstance(v.fields.get(name), Model), name in v.fields))
            v.fields[name] = val
        elif isinstance(v, Model):
            v.m_setattr(self, name, val)
        else:
            raise Unsupported('setattr on ' + type(v).__name__)

    # ---------------------------------------------------------------- expressions -----------
    def eval(self, e, env, module):
        T = type(e)
        if T is ast.Constant:
            return e.value
        if T is ast.Name:
            return self.lookup_name(e.id, env, module)
        if T is ast.Attribute:
            return self.getattr(self.eval(e.value, env, module), e.attr)
        if T is ast.Call:
            f = self.eval(e.func, env, module)
            args = []
            for j, a in enumerate(e.args):
                if isinstance(a, ast.Starred):
                    sv = self.eval(a.value, env, module)
                    if type(sv).__name__ == 'SymSeq':
                        if j != len(e.args) - 1:
                            raise Unsupported('symbolic sequence unpacked before the last positional argument')
                        args.extend(sv.prefix)
                        args.append(StarTail(sv))
                        continue
                    args.extend(self.iterate(sv))
                else:
                    args.append(self.eval(a, env, module))
            kwargs = {}
            for k in e.keywords:
                if k.arg is None:
                    d = self.eval(k.value, env, module)
                    if isinstance(d, VDict):
                        kwargs.update(d.d)
                    else:
                        raise Unsupported('**kwargs of non-dict')
                else:
                    kwargs[k.arg] = self.eval(k.value, env, module)
            return self.call(f, args, kwargs)
        if T is ast.Subscript:
            return self.getitem(self.eval(e.value, env, module), self.eval_slice(e.slice, env, module))
        if T is ast.Tuple:
            out = []
            for j, x in enumerate(e.elts):
                if isinstance(x, ast.Starred):
                    sv = self.eval(x.value, env, module)
                    if type(sv).__name__ == 'SymSeq':
                        if j != len(e.elts) - 1:
                            raise Unsupported('symbolic sequence unpacked before the end of a tuple')
                        return sv.with_prefix(out)
                    out.extend(self.iterate(sv))
                else:
                    out.append(self.eval(x, env, module))
            return tuple(out)
        if T is ast.List:
            out = []
            for x in e.elts:
                if isinstance(x, ast.Starred):
                    out.extend(self.iterate(self.eval(x.value, env, module)))
                else:
                    out.append(self.eval(x, env, module))
            return VList(out)
        if T is ast.Dict:
            d = VDict()
            for k, v in zip(e.keys, e.values):
                if k is None:
                    raise Unsupported('dict unpacking')
                self.setitem(d, self.eval(k, env, module), self.eval(v, env, module))
            return d
        if T is ast.Set:
            # through the library constructor: members that may be equal on some paths are de-duplicated by forking
            return self.call(self.lib.builtin('set'), [VList([self.eval(x, env, module) for x in e.elts])], {})
        if T is ast.BinOp:
            return self.binop(e.op, self.eval(e.left, env, module), self.eval(e.right, env, module))
        if T is ast.UnaryOp:
            v = self.eval(e.operand, env, module)
            if isinstance(e.op, ast.Not):
                return self.not_(self.truth(v))
            if isinstance(e.op, ast.USub):
                if isinstance(v, Sym):
                    return Sym(-self.int_term(v))
                return -v
            if isinstance(e.op, ast.UAdd):
                return v
            if isinstance(e.op, ast.Invert):
                if isinstance(v, Sym):
                    return Sym(-self.int_term(v) - 1)
                return ~v
        if T is ast.BoolOp:
            # python semantics: returns one of the operands; short-circuit on truthiness
            is_and = isinstance(e.op, ast.And)
            v = None
            for i, x in enumerate(e.values):
                v = self.eval(x, env, module)
                if i == len(e.values) - 1:
                    return v
                t = self.truth(v)
                if isinstance(t, bool):
                    if t != is_and:
                        return v
                    continue
                # symbolic: if both remaining values are boolean-like, build a term; else fork
                rest = ast.BoolOp(op=e.op, values=e.values[i + 1:]) if len(e.values) - i - 1 > 1 else e.values[i + 1]
                if _pure_bool_expr(rest) and (not isinstance(v, Sym) or v.is_bool()):
                    if self.ctx.choose(t) != is_and:
                        return v
                    return self.eval(rest, env, module)
                if self.ctx.choose(t) != is_and:
                    return v
                return self.eval(rest, env, module)
            return v
        if T is ast.Compare:
            left = self.eval(e.left, env, module)
            res = True
            for op, c in zip(e.ops, e.comparators):
                right = self.eval(c, env, module)
                r = self.compare(op, left, right)
                res = self.and_(res, r)
                if res is False:
                    return False
                left = right
            return res if isinstance(res, bool) else Sym(res) if not isinstance(res, Sym) else res
        if T is ast.IfExp:
            c = self.truth(self.eval(e.test, env, module))
            if isinstance(c, bool):
                return self.eval(e.body if c else e.orelse, env, module)
            if _pure_expr(e.body) and _pure_expr(e.orelse):
                # try to merge into an ite term when both sides are scalars
                saved = len(self.ctx.pc)
                a = self.eval(e.body, env, module)
                b = self.eval(e.orelse, env, module)
                m = self.try_ite(c, a, b)
                if m is not NOTFOUND and len(self.ctx.pc) == saved:
                    return m
            return self.eval(e.body if self.ctx.choose(c) else e.orelse, env, module)
        if T is ast.Lambda:
            return FuncV('<lambda>', e, env, module, qualname=env.get('__qualname__', '') + '.<lambda>',
                         defaults=[self.eval(d, env, module) for d in e.args.defaults])
        if T is ast.JoinedStr:
            parts = []
            for v in e.values:
                if isinstance(v, ast.Constant):
                    parts.append(v.value)
                else:
                    parts.append(self.eval(v.value, env, module))
            return self.lib.str_concat(parts, formatted=True)
        if T is ast.ListComp and len(e.generators) == 1:
            special = self._special_listcomp(e, env, module)
            if special is not NOTFOUND:
                return special
        if T is ast.GeneratorExp and len(e.generators) == 1 and not e.generators[0].ifs:
            special = self._special_genexp(e, env, module)
            if special is not NOTFOUND:
                return special
        if T in (ast.ListComp, ast.GeneratorExp, ast.SetComp):
            out = []
            self.comprehension(e.generators, 0, env, module, lambda env2: out.append(self.eval(e.elt, env2, module)))
            if T is ast.SetComp:
                return self.call(self.lib.builtin('set'), [VList(out)], {})
            return VList(out) if T is ast.ListComp else GenV(iter(out))
        if T is ast.DictComp and len(e.generators) == 1 and not e.generators[0].ifs:
            src = self.eval(e.generators[0].iter, env, module)
            if hasattr(src, 'm_dictcomp'):
                return src.m_dictcomp(self, e, env, module)
            if isinstance(src, Model):
                raise Unsupported('dict comprehension over ' + type(src).__name__)
        if T is ast.DictComp:
            d = VDict()
            self.comprehension(e.generators, 0, env, module,
                               lambda env2: self.setitem(d, self.eval(e.key, env2, module), self.eval(e.value, env2, module)))
            return d
        if T is ast.Starred:
            raise Unsupported('starred expression')
        if T is ast.NamedExpr:
            v = self.eval(e.value, env, module)
            env[e.target.id] = v
            return v
        raise Unsupported(f'expression {T.__name__}')

    def _special_genexp(self, e, env, module):
        """(D[x] for x in SEQ) with SEQ of symbolic length and D an abstract map: a symbolic sequence of lookups;
        (B if x == A else x for x in SEQ): substitution view"""
        g = e.generators[0]
        if (isinstance(g.target, ast.Name) and isinstance(e.elt, ast.IfExp) and isinstance(e.elt.orelse, ast.Name) and e.elt.orelse.id == g.target.id
                and isinstance(e.elt.test, ast.Compare) and len(e.elt.test.ops) == 1 and isinstance(e.elt.test.ops[0], ast.Eq)
                and isinstance(e.elt.test.left, ast.Name) and e.elt.test.left.id == g.target.id):
            src = self.eval(g.iter, env, module)
            if hasattr(src, 'm_subst') and src.concrete_len(self) is None:
                names = {n.id for n in ast.walk(e.elt.body) if isinstance(n, ast.Name)} | {n.id for n in ast.walk(e.elt.test.comparators[0]) if isinstance(n, ast.Name)}
                if g.target.id not in names:
                    return src.m_subst(self, self.eval(e.elt.test.comparators[0], env, module), self.eval(e.elt.body, env, module))
        if not (isinstance(g.target, ast.Name) and isinstance(e.elt, ast.Subscript) and isinstance(e.elt.slice, ast.Name)
                and e.elt.slice.id == g.target.id and isinstance(e.elt.value, ast.Name)):
            return NOTFOUND
        try:
            d = self.lookup_name(e.elt.value.id, env, module)
        except Unsupported:
            return NOTFOUND
        if not hasattr(d, 'm_map_lookup'):
            return NOTFOUND
        src = self.eval(g.iter, env, module)
        if not (hasattr(src, 'concrete_len') and src.concrete_len(self) is None):
            return NOTFOUND
        return d.m_map_lookup(self, src)

    def _special_listcomp(self, e, env, module):
        """[x for x in L if x != c] over an abstract label list (filter view); [k for k, v in M.items() if c(v)]"""
        g = e.generators[0]
        if isinstance(g.target, ast.Tuple) and isinstance(g.iter, ast.Call) and isinstance(g.iter.func, ast.Attribute) and g.iter.func.attr == 'items':
            m = self.eval(g.iter.func.value, env, module)
            if hasattr(m, 'm_listcomp_items'):
                return m.m_listcomp_items(self, e, env, module)
            return NOTFOUND
        # [i for i, x in enumerate(L) if x == a]: the increasing sequence of all positions of a in L
        if (isinstance(g.target, ast.Tuple) and len(g.target.elts) == 2 and all(isinstance(t, ast.Name) for t in g.target.elts)
                and isinstance(g.iter, ast.Call) and isinstance(g.iter.func, ast.Name) and g.iter.func.id == 'enumerate' and len(g.iter.args) == 1 and not g.iter.keywords
                and isinstance(e.elt, ast.Name) and e.elt.id == g.target.elts[0].id and len(g.ifs) == 1 and len(e.generators) == 1):
            c = g.ifs[0]
            xi = g.target.elts[1].id
            if (isinstance(c, ast.Compare) and len(c.ops) == 1 and isinstance(c.ops[0], ast.Eq) and isinstance(c.left, ast.Name) and c.left.id == xi
                    and not any(isinstance(n, ast.Name) and n.id in (xi, e.elt.id) for n in ast.walk(c.comparators[0]))):
                src = self.eval(g.iter.args[0], env, module)
                if hasattr(src, 'm_positions_eq'):
                    return src.m_positions_eq(self, self.eval(c.comparators[0], env, module))
            return NOTFOUND
        # [x for x in L] over an abstract label list: a fresh mutable copy (same length, positions and counts)
        if (isinstance(g.target, ast.Name) and isinstance(e.elt, ast.Name) and e.elt.id == g.target.id and not g.ifs and len(e.generators) == 1):
            src = self.eval(g.iter, env, module)
            if hasattr(src, 'm_mutable_copy') and src.concrete_len(self) is None:
                return src.m_mutable_copy(self)
            return NOTFOUND
        if (getattr(self, 'filter_views', False) and isinstance(g.target, ast.Name) and len(g.ifs) <= 1 and len(e.generators) == 1
                and isinstance(e.elt, ast.Subscript) and isinstance(e.elt.slice, ast.Name) and e.elt.slice.id == g.target.id and isinstance(e.elt.value, ast.Name)):
            # [D[x] for x in L (if P(x))]: filter view of L, then the element-wise image under the abstract map D
            try:
                d = self.lookup_name(e.elt.value.id, env, module)
            except Unsupported:
                d = None
            src = self.eval(g.iter, env, module)
            if d is not None and hasattr(d, 'm_map_view') and hasattr(src, 'm_filter_view') and src.concrete_len(self) is None:
                fv = self._filter_view(src, g.target.id, g.ifs[0], env, module) if g.ifs else src
                return d.m_map_view(self, fv)
            return NOTFOUND
        if not (isinstance(g.target, ast.Name) and isinstance(e.elt, ast.Name) and e.elt.id == g.target.id and len(g.ifs) == 1):
            return NOTFOUND
        c = g.ifs[0]
        is_neq = (isinstance(c, ast.Compare) and len(c.ops) == 1 and isinstance(c.ops[0], ast.NotEq) and isinstance(c.left, ast.Name) and c.left.id == g.target.id
                  and not any(isinstance(n, ast.Name) and n.id == g.target.id for n in ast.walk(c.comparators[0])))
        if not (is_neq or getattr(self, 'filter_views', False)):
            return NOTFOUND
        src = self.eval(g.iter, env, module)
        if is_neq and hasattr(src, 'm_listcomp_filter_neq'):
            return src.m_listcomp_filter_neq(self, self.eval(c.comparators[0], env, module))
        if getattr(self, 'filter_views', False) and hasattr(src, 'm_filter_view') and src.concrete_len(self) is None:
            # [x for x in L if P(x)] over a label list of symbolic length: P is evaluated once on a fresh label (it must not
            # branch) and becomes the predicate of an order-preserving filter view
            return self._filter_view(src, g.target.id, c, env, module)
        if not hasattr(src, 'm_listcomp_filter_neq'):
            if isinstance(src, Model):
                raise Unsupported('comprehension over ' + type(src).__name__)
            return NOTFOUND
        return NOTFOUND

    def _filter_view(self, src, var, cond, env, module):
        """filter view of the label list src by the condition `cond` over the comprehension variable `var`: the condition is
        evaluated once, on a fresh label that is assumed to be an element of src, in a scratch path context (so that this
        assumption does not leak); it must not branch"""
        _Ctx = Ctx
        lam = self.ctx.fresh(LabelSort, 'lam')
        env2 = {'__parent__': env, '__qualname__': env.get('__qualname__', '')}
        env2[var] = Sym(lam)
        real = self.ctx
        scratch = _Ctx([])
        scratch.fresh_n = real.fresh_n + 10 ** 6          # fresh names of the scratch evaluation never clash with the path's
        for f in real.pc:
            scratch.assume(f)
        cnt = src.count(lam) if hasattr(src, 'count') else None
        if cnt is not None:
            scratch.assume(cnt > 0)
        for a in ('ghostG', 'ghostY', 'uuid_labels', 'universals'):
            if hasattr(real, a):
                setattr(scratch, a, getattr(real, a))
        self.ctx = scratch
        try:
            p = self.truth(self.eval(cond, env2, module))
            branched = scratch.decisions != 0
        finally:
            self.ctx = real
        if branched:
            raise Unsupported('filter predicate of a comprehension branches on the element')
        pt = z3.BoolVal(p) if isinstance(p, bool) else p
        return src.m_filter_view(self, lambda l, pt=pt, lam=lam: z3.substitute(pt, (lam, l)))

    def comprehension(self, gens, i, env, module, emit):
        if i == len(gens):
            emit(env)
            return
        g = gens[i]
        env2 = {'__parent__': env, '__qualname__': env.get('__qualname__', '')} if i == 0 else env
        n = 0
        for x in self.iterate(self.eval(g.iter, env if i == 0 else env2, module)):
            n += 1
            if n > 4 * MAX_UNROLL:
                raise Unsupported('comprehension too long')
            self.assign(g.target, x, env2, module)
            ok = True
            for cond in g.ifs:
                if not self.ctx.choose(self.truth(self.eval(cond, env2, module))):
                    ok = False
                    break
            if ok:
                self.comprehension(gens, i + 1, env2, module, emit)

    def eval_slice(self, s, env, module):
        if isinstance(s, ast.Slice):
            f = lambda x: None if x is None else self.eval(x, env, module)
            return slice(f(s.lower), f(s.upper), f(s.step))
        return self.eval(s, env, module)

    # ---------------------------------------------------------------- primitive semantics ----
    def label_of_str(self, s):
        if s not in self.str_labels:
            self.str_labels[s] = z3.Const('lbl:' + s, LabelSort)
            if self.ctx is not None:
                for u in getattr(self.ctx, 'uuid_labels', None) or []:
                    self.ctx.assume(u != self.str_labels[s])
        return self.str_labels[s]

    def background(self):
        """Axioms that always hold: distinctness of label constants."""
        ls = list(self.str_labels.values())
        return [z3.Distinct(*ls)] if len(ls) > 1 else []

    def is_undefined(self, v):
        return isinstance(v, Obj) and v.cls.name == '_Undefined'

    def state_term(self, v):
        if isinstance(v, Sym):
            if v.is_state():
                return v.t
            if v.is_bool():
                return z3.If(v.t, ST_T, ST_F)
        if v is True:
            return ST_T
        if v is False:
            return ST_F
        if self.is_undefined(v):
            return ST_U
        raise Unsupported(f'not a gate state: {v!r}')

    def int_term(self, v):
        if isinstance(v, Sym):
            if v.is_int():
                return v.t
            if v.is_bool():
                return z3.If(v.t, 1, 0)
            raise Unsupported(f'not an int: {v}')
        if isinstance(v, bool):
            return z3.IntVal(1 if v else 0)
        if isinstance(v, int):
            return z3.IntVal(v)
        raise Unsupported(f'not an int: {v!r}')

    def as_bool_term(self, v):
        if isinstance(v, bool):
            return v
        if isinstance(v, Sym):
            return v.t
        if z3.is_expr(v):
            return v
        raise Unsupported('not a bool term')

    def truth(self, v):
        """python truthiness -> python bool or z3 Bool term."""
        if isinstance(v, bool):
            return v
        if v is None:
            return False
        if isinstance(v, (int, str, tuple, float)):
            return bool(v)
        if isinstance(v, Sym):
            if v.is_bool():
                return v.t
            if v.is_int():
                return v.t != 0
            if v.is_state():
                if self.ctx.choose(v.t == ST_U):
                    # _Undefined.__bool__ raises GateStateError
                    m = self.load_module('cirbo.core.circuit.exceptions')
                    raise PyRaise(self.instantiate(m.env['GateStateError'], ["Bool can't be created from Undefined state."], {}))
                return v.t == ST_T
            if v.is_str():
                return z3.Length(v.t) != 0
            return True
        if isinstance(v, VList):
            return len(v.items) > 0
        if isinstance(v, VDict):
            return len(v.d) > 0
        if isinstance(v, VSet):
            return len(v.items) > 0
        if isinstance(v, Obj):
            b = v.cls.lookup('__bool__')
            if b is not NOTFOUND:
                return self.truth(self.call(b, [v], {}))
            l = v.cls.lookup('__len__')
            if l is not NOTFOUND:
                return self.truth(self.call(l, [v], {}))
            return True
        if isinstance(v, Model):
            if hasattr(v, 'm_truth_term'):
                return v.m_truth_term()
            n = v.m_len(self)
            return (n > 0) if isinstance(n, int) else (self.int_term(n) > 0)
        if isinstance(v, (FuncV, ClassV, Native, BoundMethod, EnumMember, ModuleV, Opaque, RangeV, GenV)):
            if isinstance(v, RangeV):
                return len(list(self.iterate(v))) > 0
            return True
        if z3.is_expr(v):
            return v
        raise Unsupported(f'truth of {type(v).__name__}')

    def not_(self, t):
        return (not t) if isinstance(t, bool) else Sym(z3.Not(t))

    def and_(self, a, b):
        a = self.as_bool_term(a)
        b = self.as_bool_term(b)
        if a is True:
            return b
        if b is True:
            return a
        if a is False or b is False:
            return False
        return z3.And(a, b)

    def or_(self, a, b):
        a = self.as_bool_term(a)
        b = self.as_bool_term(b)
        if a is False:
            return b
        if b is False:
            return a
        if a is True or b is True:
            return True
        return z3.Or(a, b)

    def try_ite(self, c, a, b):
        """merge two scalar values under condition c (z3 Bool); NOTFOUND if not mergeable."""
        if a is b:
            return a
        try:
            if _is_intlike(a) and _is_intlike(b) and not (isinstance(a, bool) and isinstance(b, bool)):
                return Sym(z3.If(c, self.int_term(a), self.int_term(b)))
            if _is_boollike(a) and _is_boollike(b):
                return Sym(z3.If(c, _bt(a), _bt(b)))
            if self._is_statelike(a) and self._is_statelike(b):
                return Sym(z3.If(c, self.state_term(a), self.state_term(b)))
            if isinstance(a, Sym) and isinstance(b, Sym) and a.sort == b.sort:
                return Sym(z3.If(c, a.t, b.t))
            if (isinstance(a, Sym) and a.is_label() and isinstance(b, str)) or (isinstance(b, Sym) and b.is_label() and isinstance(a, str)):
                return Sym(z3.If(c, self.label_term(a), self.label_term(b)))
            if isinstance(a, tuple) and isinstance(b, tuple) and len(a) == len(b):
                parts = [self.try_ite(c, x, y) for x, y in zip(a, b)]
                if all(p is not NOTFOUND for p in parts):
                    return tuple(parts)
        except Unsupported:
            pass
        return NOTFOUND

    def _is_statelike(self, v):
        return isinstance(v, bool) or self.is_undefined(v) or (isinstance(v, Sym) and (v.is_state() or v.is_bool()))

    def label_term(self, v):
        if isinstance(v, Sym) and v.is_label():
            return v.t
        if isinstance(v, str):
            return self.label_of_str(v)
        raise Unsupported(f'not a label: {v!r}')

    def gtype_term(self, v):
        if isinstance(v, Sym) and v.is_gtype():
            return v.t
        if isinstance(v, Obj) and v.cls.name == 'GateType':
            return GT[v.fields['_name']]
        raise Unsupported(f'not a gate type: {v!r}')

    def eq(self, a, b):
        """python ==  ->  python bool or z3 Bool term"""
        if a is b:
            return True
        if isinstance(a, Sym) or isinstance(b, Sym):
            s = a if isinstance(a, Sym) else b
            o = b if isinstance(a, Sym) else a
            if isinstance(o, Sym) and o.sort == s.sort:
                return _simp(s.t == o.t)
            if isinstance(o, Model):
                return o.m_eq(self, s)
            if s.is_label():
                if isinstance(o, (str, Sym)):
                    try:
                        return _simp(s.t == self.label_term(o))
                    except Unsupported:
                        return False
                return False
            if s.is_gtype():
                if isinstance(o, Obj) and o.cls.name == 'GateType':
                    return _simp(s.t == self.gtype_term(o))
                return False
            if s.is_state():
                if self._is_statelike(o):
                    return _simp(s.t == self.state_term(o))
                if isinstance(o, int):
                    return _simp(z3.Or(z3.And(s.t == ST_T, o == 1), z3.And(s.t == ST_F, o == 0))) if o in (0, 1) else False
                return False
            if s.is_bool():
                if self.is_undefined(o) or (isinstance(o, Sym) and o.is_state()):
                    return _simp(self.state_term(s) == self.state_term(o))
                if _is_intlike(o):
                    if isinstance(o, bool) or (isinstance(o, Sym) and o.is_bool()):
                        return _simp(s.t == _bt(o))
                    return _simp(self.int_term(s) == self.int_term(o))
                return False
            if s.is_int():
                if _is_intlike(o):
                    return _simp(s.t == self.int_term(o))
                return False
            if s.is_str():
                if isinstance(o, str):
                    return _simp(s.t == z3.StringVal(o))
                return False
            return False
        if isinstance(a, Obj) or isinstance(b, Obj):
            for x, y in ((a, b), (b, a)):
                if isinstance(x, Obj):
                    f = x.cls.lookup('__eq__')
                    if f is not NOTFOUND:
                        r = self.call(f, [x, y], {})
                        if isinstance(r, Opaque) and r.name == 'NotImplemented':
                            continue
                        return self.truth(r)
            if (isinstance(a, Obj) and isinstance(b, Obj) and a.cls is b.cls and a.cls.dataclass is not None
                    and getattr(a.cls, 'dataclass_eq', True)):
                # dataclass-generated __eq__: field-wise comparison
                r = True
                for k in a.fields:
                    if k not in b.fields:
                        return False
                    r = self.and_(r, self.eq(a.fields[k], b.fields[k]))
                    if r is False:
                        return False
                return r
            return False
        if isinstance(a, (tuple, VList)) and isinstance(b, (tuple, VList)) and type(a) is type(b):
            xs = a if isinstance(a, tuple) else a.items
            ys = b if isinstance(b, tuple) else b.items
            if len(xs) != len(ys):
                return False
            r = True
            for x, y in zip(xs, ys):
                r = self.and_(r, self.eq(x, y))
                if r is False:
                    return False
            return r
        if isinstance(a, VDict) and isinstance(b, VDict):
            if set(a.d) != set(b.d):
                return False
            r = True
            for k in a.d:
                r = self.and_(r, self.eq(a.d[k], b.d[k]))
            return r
        if isinstance(a, Model):
            return a.m_eq(self, b)
        if isinstance(b, Model):
            return b.m_eq(self, a)
        if isinstance(a, VSet) and isinstance(b, VSet):
            # set equality = mutual inclusion (the item lists may hold terms that are equal on some paths)
            def member(x, ys):
                r = False
                for y in ys:
                    r = self.or_(r, self.eq(x, y))
                    if r is True:
                        return True
                return r
            r = True
            for x in a.items:
                r = self.and_(r, member(x, b.items))
                if r is False:
                    return False
            for y in b.items:
                r = self.and_(r, member(y, a.items))
                if r is False:
                    return False
            return r
        if isinstance(a, (VList, VDict, VSet, tuple)) or isinstance(b, (VList, VDict, VSet, tuple)):
            return False                  # containers of different kinds are never equal
        if isinstance(a, (int, str, float, bool, type(None))) and isinstance(b, (int, str, float, bool, type(None))):
            return a == b
        if isinstance(a, (bytes, bytearray)) and isinstance(b, (bytes, bytearray)):
            return a == b
        if isinstance(a, EnumMember) or isinstance(b, EnumMember):
            return a is b
        if isinstance(a, (FuncV, ClassV, Native, ModuleV)) or isinstance(b, (FuncV, ClassV, Native, ModuleV)):
            return a is b
        if isinstance(a, BoundMethod) and isinstance(b, BoundMethod):
            return a == b
        if type(a) is not type(b):
            return False
        # same kind of value, but no encoding of its equality: refusing is the only sound answer (a default `False` once made
        # every "equal signatures imply ..." obligation hold vacuously, seed C03-e)
        raise Unsupported(f'== between two {type(a).__name__} values is not encoded')

    def compare(self, op, a, b):
        T = type(op)
        if T is ast.Eq:
            return self.eq(a, b)
        if T is ast.NotEq:
            r = self.eq(a, b)
            return (not r) if isinstance(r, bool) else z3.Not(r)
        if T is ast.Is:
            return self.is_(a, b)
        if T is ast.IsNot:
            r = self.is_(a, b)
            return (not r) if isinstance(r, bool) else z3.Not(r)
        if T is ast.In:
            return self.contains(b, a)
        if T is ast.NotIn:
            r = self.contains(b, a)
            return (not r) if isinstance(r, bool) else z3.Not(self.as_bool_term(r))
        if T in (ast.Lt, ast.LtE, ast.Gt, ast.GtE):
            if isinstance(a, Sym) or isinstance(b, Sym):
                x, y = self.int_term(a), self.int_term(b)
                return _simp({ast.Lt: x < y, ast.LtE: x <= y, ast.Gt: x > y, ast.GtE: x >= y}[T])
            if isinstance(a, (tuple, VList)) and type(a) is type(b):
                # lexicographic order of sequences (members may be symbolic)
                xs = list(a) if isinstance(a, tuple) else a.items
                ys = list(b) if isinstance(b, tuple) else b.items
                strict = ast.Lt() if T in (ast.Lt, ast.LtE) else ast.Gt()
                res = (len(xs) <= len(ys)) if T is ast.LtE else (len(xs) < len(ys)) if T is ast.Lt else (len(xs) >= len(ys)) if T is ast.GtE else (len(xs) > len(ys))
                for x, y in reversed(list(zip(xs, ys))):
                    e = self.eq(x, y)
                    lt = self.compare(strict, x, y)
                    # res := lt or (e and res)
                    res = self.or_(lt, self.and_(e, res))
                return res if isinstance(res, bool) else _simp(res)
            if isinstance(a, (int, float, str)) and isinstance(b, (int, float, str)):
                return {ast.Lt: a < b, ast.LtE: a <= b, ast.Gt: a > b, ast.GtE: a >= b}[T]
            if isinstance(a, VSet) and isinstance(b, VSet) and T is ast.LtE:
                r = True
                for x in a.items:
                    r = self.and_(r, self.contains(b, x))
                    if r is False:
                        return False
                return r
        raise Unsupported(f'compare {T.__name__} on {type(a).__name__},{type(b).__name__}')

    def is_(self, a, b):
        if a is None or b is None:
            return a is b
        if isinstance(a, bool) or isinstance(b, bool):
            if isinstance(a, Sym) or isinstance(b, Sym):
                return self.eq(a, b)
            return a is b
        if isinstance(a, Sym) or isinstance(b, Sym):
            return self.eq(a, b)
        return a is b

    def contains(self, c, x):
        if isinstance(c, (tuple, VList, VSet)):
            items = c if isinstance(c, tuple) else c.items
            r = False
            terms = []
            for y in items:
                e = self.eq(x, y)
                if e is True:
                    return True
                if e is not False:
                    terms.append(e)
            return _simp(z3.Or(terms)) if terms else False
        if isinstance(c, VDict):
            r = self.dict_has(c, x)
            return r
        if isinstance(c, str):
            if isinstance(x, str):
                return x in c
            if isinstance(x, Sym) and x.is_str():
                return z3.Contains(z3.StringVal(c), x.t)
        if isinstance(c, Sym) and c.is_str():
            return z3.Contains(c.t, x.t if isinstance(x, Sym) else z3.StringVal(x))
        if isinstance(c, Model):
            return c.m_contains(self, x)
        if isinstance(c, RangeV):
            if all(isinstance(v, int) for v in (c.start, c.stop, c.step)) and isinstance(x, int):
                return x in range(c.start, c.stop, c.step)
            if c.step == 1:
                xt = self.int_term(x)
                return _simp(z3.And(xt >= self.int_term(c.start), xt < self.int_term(c.stop)))
        if isinstance(c, GenV):
            return self.contains(VList(list(self.iterate(c))), x)
        raise Unsupported(f'in {type(c).__name__}')

    def dict_has(self, d, k):
        if _concrete_key(k):
            return k in d.d
        if isinstance(k, Obj) and k in d.d:       # the very same object is a key (== is reflexive)
            return True
        terms = []
        for kk in d.d:
            e = self.eq(k, kk)
            if e is True:
                return True
            if e is not False:
                terms.append(e)
        return _simp(z3.Or(terms)) if terms else False

    def dict_get(self, d, k, on_missing):
        if _concrete_key(k):
            if k in d.d:
                return d.d[k]
            return on_missing()
        if isinstance(k, Obj) and k in d.d:       # the very same object is a key (== is reflexive)
            return d.d[k]
        keys = list(d.d)
        conds = [self.eq(k, kk) for kk in keys]
        vals = [d.d[kk] for kk in keys]
        live = [(c, v) for c, v in zip(conds, vals) if c is not False]
        for c, v in live:
            if c is True:
                return v
        # try ite-merge
        if live:
            acc = live[-1][1]
            ok = True
            for c, v in reversed(live[:-1]):
                acc = self.try_ite(self.as_bool_term(c), v, acc)
                if acc is NOTFOUND:
                    ok = False
                    break
            if ok:
                anyc = _simp(z3.Or([self.as_bool_term(c) for c, _ in live]))
                if self.ctx.choose(anyc):
                    return acc
                return on_missing()
        for c, v in live:
            if self.ctx.choose(self.as_bool_term(c)):
                return v
        return on_missing()

    def getitem(self, c, k):
        if isinstance(c, Opaque):
            return c
        if isinstance(c, VDict):
            def missing():
                if c.default_factory is not None:
                    if not _concrete_key(k):
                        raise Unsupported('defaultdict insert with symbolic key')
                    v = self.call(c.default_factory, [], {})
                    if self.barriers:
                        self.barrier_obj(c, 'defaultdict insertion')
                    if c.born == 0:
                        self.static_write(c, 'defaultdict insertion')
                    c.d[k] = v
                    return v
                self.raise_('KeyError', repr(k))
            return self.dict_get(c, k, missing)
        if isinstance(c, (bytes, bytearray)) and not isinstance(k, (Sym, slice)):
            if k >= len(c) or k < -len(c):
                self.raise_('IndexError', 'index out of range')
            return c[k]
        if isinstance(c, (VList, tuple, str)):
            items = c.items if isinstance(c, VList) else c
            if isinstance(k, slice):
                if any(isinstance(x, Sym) for x in (k.start, k.stop, k.step)):
                    raise Unsupported('symbolic slice')
                r = items[k]
                return VList(r) if isinstance(c, VList) else r
            if isinstance(k, Sym):
                kt = self.int_term(k)
                n = len(items)
                if n == 0:
                    self.raise_('IndexError', 'index')
                inb = _simp(z3.And(kt >= -n, kt < n))
                if not self.ctx.choose(inb):
                    self.raise_('IndexError', 'list index out of range')
                neg = self.ctx.feasible(kt < 0)
                acc = items[n - 1]
                merged = True
                for i in range(n - 2, -1, -1):
                    acc = self.try_ite(_simp(z3.Or(kt == i, kt == i - n)) if neg else _simp(kt == i), items[i], acc)
                    if acc is NOTFOUND:
                        merged = False
                        break
                if merged:
                    return acc
                for i in range(n):
                    if self.ctx.choose(_simp(z3.Or(kt == i, kt == i - n))):
                        return items[i]
                raise Infeasible()
            if isinstance(k, bool):
                k = int(k)
            if not isinstance(k, int):
                self.raise_('TypeError', 'indices must be integers')
            if k >= len(items) or k < -len(items):
                self.raise_('IndexError', 'index out of range')
            return items[k]
        if isinstance(c, Model):
            return c.m_getitem(self, k)
        if isinstance(c, (ClassV, Native)):
            return c       # generic alias such as list[int]
        if isinstance(c, Sym) and c.is_str():
            return self.lib.str_index(c, k)
        if isinstance(c, Obj):
            f = c.cls.lookup('__getitem__')
            if f is not NOTFOUND:
                return self.call(f, [c, k], {})
        raise Unsupported(f'subscript of {type(c).__name__}')

    def setitem(self, c, k, v):
        if self.barriers:
            self.barrier_obj(c, 'item assignment')
        if getattr(c, 'born', 1) == 0:
            self.static_write(c, 'item assignment')
        if isinstance(c, VDict):
            if isinstance(k, Obj) and k in c.d:
                c.d[k] = v
                return
            if not _concrete_key(k):
                # symbolic key: overwrite if equal to an existing key on this path, else unsupported insert
                for kk in list(c.d):
                    e = self.eq(k, kk)
                    if e is True or (e is not False and self.ctx.choose(self.as_bool_term(e))):
                        c.d[kk] = v
                        return
                c.d[k] = v           # Sym keys hash structurally
                return
            c.d[k] = v
            return
        if isinstance(c, bytearray):
            if isinstance(k, Sym) or isinstance(v, Sym):
                raise Unsupported('symbolic write into a concrete bytearray')
            if k >= len(c) or k < -len(c):
                self.raise_('IndexError', 'bytearray index out of range')
            if not 0 <= v < 256:
                self.raise_('ValueError', 'byte must be in range(0, 256)')
            c[k] = v
            return
        if isinstance(c, VList):
            if isinstance(k, slice):
                c.items[k] = list(self.iterate(v))
                return
            if isinstance(k, Sym):
                kt = self.int_term(k)
                n = len(c.items)
                for i in range(n):
                    if self.ctx.choose(_simp(z3.Or(kt == i, kt == i - n))):
                        c.items[i] = v
                        return
                self.raise_('IndexError', 'list assignment index out of range')
            if k >= len(c.items) or k < -len(c.items):
                self.raise_('IndexError', 'list assignment index out of range')
            c.items[k] = v
            return
        if isinstance(c, Model):
            return c.m_setitem(self, k, v)
        raise Unsupported(f'item assignment on {type(c).__name__}')

    def delitem(self, c, k):
        if self.barriers:
            self.barrier_obj(c, 'item deletion')
        if getattr(c, 'born', 1) == 0:
            self.static_write(c, 'item deletion')
        if isinstance(c, VDict):
            if _concrete_key(k):
                if k not in c.d:
                    self.raise_('KeyError', repr(k))
                del c.d[k]
                return
            for kk in list(c.d):
                e = self.eq(k, kk)
                if e is True or (e is not False and self.ctx.choose(self.as_bool_term(e))):
                    del c.d[kk]
                    return
            self.raise_('KeyError', repr(k))
        if isinstance(c, VList):
            del c.items[k]
            return
        if isinstance(c, Model):
            return c.m_delitem(self, k)
        raise Unsupported('del item')

    def iterate(self, v):
        if isinstance(v, VList):
            i = 0
            while i < len(v.items):      # python list iteration sees mutations
                yield v.items[i]
                i += 1
            return
        if isinstance(v, tuple):
            yield from v
            return
        if isinstance(v, str):
            yield from v
            return
        if isinstance(v, (bytes, bytearray)):
            yield from list(v)
            return
        if isinstance(v, VSet):
            yield from list(v.items)
            return
        if isinstance(v, VDict):
            yield from list(v.d.keys())
            return
        if isinstance(v, RangeV):
            if all(isinstance(x, int) for x in (v.start, v.stop, v.step)):
                yield from range(v.start, v.stop, v.step)
                return
            if isinstance(v.step, int) and v.step == 1 and isinstance(v.start, int):
                # symbolic upper bound: unroll with forks
                i = v.start
                while self.ctx.choose(_simp(z3.IntVal(i) < self.int_term(v.stop))):
                    yield i
                    i += 1
                    if i - v.start > MAX_UNROLL:
                        raise Unsupported('symbolic range too long')
                return
            raise Unsupported('symbolic range')
        if isinstance(v, GenV):
            yield from v.it
            return
        if isinstance(v, Model):
            yield from v.m_iter(self)
            return
        if isinstance(v, Obj):
            f = v.cls.lookup('__iter__')
            if f is not NOTFOUND:
                yield from self.iterate(self.call(f, [v], {}))
                return
        raise Unsupported(f'iteration over {type(v).__name__}')

    def binop(self, op, a, b):
        T = type(op)
        if isinstance(a, Obj) or isinstance(b, Obj):
            dn = {ast.BitOr: 'or', ast.BitAnd: 'and', ast.Add: 'add', ast.Sub: 'sub', ast.Mult: 'mul', ast.BitXor: 'xor'}.get(T)
            if dn:
                if isinstance(a, Obj):
                    f = a.cls.lookup(f'__{dn}__')
                    if f is not NOTFOUND:
                        r = self.call(f, [a, b], {})
                        if not (isinstance(r, Opaque) and r.name == 'NotImplemented'):
                            return r
                if isinstance(b, Obj):
                    f = b.cls.lookup(f'__r{dn}__')
                    if f is not NOTFOUND:
                        return self.call(f, [b, a], {})
        if isinstance(a, Opaque) or isinstance(b, Opaque):
            return a if isinstance(a, Opaque) else b
        if T is ast.Add and (isinstance(a, Model) or isinstance(b, Model)) and hasattr(self, 'concat_label_lists'):
            r = self.concat_label_lists(a, b)
            if r is not NOTFOUND:
                return r
        sym = isinstance(a, Sym) or isinstance(b, Sym)
        if not sym:
            if isinstance(a, VList) and isinstance(b, VList) and T is ast.Add:
                return VList(a.items + b.items)
            if isinstance(a, VList) and isinstance(b, int) and T is ast.Mult:
                return VList(a.items * b)
            if isinstance(b, VList) and isinstance(a, int) and T is ast.Mult:
                return VList(b.items * a)
            if isinstance(a, VSet) and isinstance(b, VSet):
                def inside(x):
                    c = self.contains(b, x)          # members that are equal only on some paths: fork
                    return c if isinstance(c, bool) else self.ctx.choose(self.as_bool_term(c))
                if T is ast.Sub:
                    r = VSet()
                    r.items = [x for x in a.items if not inside(x)]
                    return r
                if T is ast.BitOr:
                    return self.call(self.lib.builtin('set'), [VList(a.items + b.items)], {})
                if T is ast.BitAnd:
                    r = VSet()
                    r.items = [x for x in a.items if inside(x)]
                    return r
            if isinstance(a, VDict) and isinstance(b, VDict) and T is ast.BitOr:
                d = VDict(a.d)
                d.d.update(b.d)
                return d
            if isinstance(a, str) and T is ast.Mod:
                raise Unsupported('% formatting')
            if isinstance(a, (int, float, str, tuple)) and isinstance(b, (int, float, str, tuple)):
                try:
                    if T is ast.Add:
                        return a + b
                    if T is ast.Sub:
                        return a - b
                    if T is ast.Mult:
                        return a * b
                    if T is ast.FloorDiv:
                        if b == 0:
                            self.raise_('ZeroDivisionError')
                        return a // b
                    if T is ast.Mod:
                        if b == 0:
                            self.raise_('ZeroDivisionError')
                        return a % b
                    if T is ast.Pow:
                        return a ** b
                    if T is ast.LShift:
                        return a << b
                    if T is ast.RShift:
                        return a >> b
                    if T is ast.BitAnd:
                        return a & b
                    if T is ast.BitOr:
                        return a | b
                    if T is ast.BitXor:
                        return a ^ b
                    if T is ast.Div:
                        return a / b
                except TypeError as te:
                    self.raise_('TypeError', str(te))
            if (isinstance(a, str) or isinstance(b, str) or type(a).__name__ in ('PartialLabel', 'UuidHex') or type(b).__name__ in ('PartialLabel', 'UuidHex')) and T is ast.Add:
                return self.lib.str_concat([a, b])
            raise Unsupported(f'binop {T.__name__} on {type(a).__name__},{type(b).__name__}')
        # symbolic
        s_a = isinstance(a, Sym) and (a.is_label() or a.is_str())
        s_b = isinstance(b, Sym) and (b.is_label() or b.is_str())
        if s_a or s_b or isinstance(a, str) or isinstance(b, str) or type(a).__name__ in ('PartialLabel', 'UuidHex') or type(b).__name__ in ('PartialLabel', 'UuidHex'):
            if T is ast.Add:
                return self.lib.str_concat([a, b])
            raise Unsupported('string op')
        if T is ast.BitXor and (_is_boollike(a) and _is_boollike(b)):
            return Sym(z3.Xor(_bt(a), _bt(b)))
        if T is ast.BitAnd and (_is_boollike(a) and _is_boollike(b)):
            return Sym(z3.And(_bt(a), _bt(b)))
        if T is ast.BitOr and (_is_boollike(a) and _is_boollike(b)):
            return Sym(z3.Or(_bt(a), _bt(b)))
        x, y = self.int_term(a), self.int_term(b)
        if T is ast.Add:
            return Sym(x + y)
        if T is ast.Sub:
            return Sym(x - y)
        if T is ast.Mult:
            return Sym(x * y)
        if T in (ast.FloorDiv, ast.Mod):
            if self.ctx.choose(_simp(y == 0)):
                self.raise_('ZeroDivisionError')
            # python floor semantics; z3 div/mod are Euclidean: equal when divisor > 0
            if self.ctx.choose(_simp(y > 0)):
                return Sym(x / y) if T is ast.FloorDiv else Sym(x % y)
            q = z3.If(x % y == 0, x / y, x / y)   # euclidean q; floor for y<0: adjust
            fl = z3.If(x % (-y) == 0, -(x / (-y)), -(x / (-y)) - 1)
            return Sym(fl) if T is ast.FloorDiv else Sym(x - y * fl)
        return self.lib.bitop(T, a, b, x, y)


# ------------------------------------------------------------------ helpers ----------------
def _load(t):
    import copy
    t2 = copy.copy(t)
    t2.ctx = ast.Load()
    return t2


def _is_name(d, names):
    return isinstance(d, ast.Name) and d.id in names


def _mark_static(env, depth=0, seen=None):
    """containers reachable from a freshly loaded module's namespace (incl. class attributes) get allocation stamp 0"""
    seen = seen if seen is not None else set()
    vals = list(env.values()) if isinstance(env, dict) else list(env)
    for v in vals:
        if id(v) in seen or depth > 3:
            continue
        seen.add(id(v))
        if isinstance(v, (VList, VSet)):
            v.born = 0
            _mark_static(v.items, depth + 1, seen)
        elif isinstance(v, VDict):
            v.born = 0
            _mark_static(list(v.d.values()), depth + 1, seen)
        elif isinstance(v, ClassV) and depth == 0:
            _mark_static(v.attrs, depth + 1, seen)


class Barrier:
    """Frame condition in force while the body of a cut loop (R1) / a recursive procedure (R6) is executed."""

    def __init__(self, what, t0, chain, names, fields=(), allow=()):
        self.what, self.t0 = what, t0
        self.chain = set(chain)          # ids of the environments that exist at the cut
        self.names = set(names)          # (id(env), name) the rule knows about (re-bound by the havoc, or poisoned)
        self.fields = set(fields)        # (oid, attribute) re-bound by the havoc
        self.allow = set(allow)          # ids of objects the specification declares as described in place


def env_chain(env):
    out = []
    while env is not None:
        out.append(env)
        env = env.get('__parent__')
    return out


def stored_names(stmts):
    """Names (re)bound by the statements themselves: assignment / augmented assignment / for / with / except / import /
    def / walrus targets; nested function bodies contribute the names they declare `nonlocal`; comprehension targets are
    local to the comprehension."""
    out = set()

    def target(t):
        if isinstance(t, ast.Name):
            out.add(t.id)
        elif isinstance(t, (ast.Tuple, ast.List)):
            for e in t.elts:
                target(e)
        elif isinstance(t, ast.Starred):
            target(t.value)

    def visit(n):
        if isinstance(n, (ast.FunctionDef, ast.AsyncFunctionDef, ast.ClassDef)):
            out.add(n.name)
            for m in ast.walk(n):
                if isinstance(m, ast.Nonlocal):
                    out.update(m.names)
            return
        if isinstance(n, ast.Lambda):
            return
        if isinstance(n, (ast.Assign,)):
            for t in n.targets:
                target(t)
        elif isinstance(n, (ast.AugAssign, ast.AnnAssign)):
            target(n.target)
        elif isinstance(n, (ast.For, ast.AsyncFor)):
            target(n.target)
        elif isinstance(n, (ast.With, ast.AsyncWith)):
            for i in n.items:
                if i.optional_vars is not None:
                    target(i.optional_vars)
        elif isinstance(n, ast.ExceptHandler):
            if n.name:
                out.add(n.name)
        elif isinstance(n, (ast.Import, ast.ImportFrom)):
            for a in n.names:
                out.add((a.asname or a.name).split('.')[0])
        elif isinstance(n, ast.NamedExpr):
            target(n.target)
        elif isinstance(n, ast.Delete):
            for t in n.targets:
                target(t)
        elif isinstance(n, (ast.ListComp, ast.SetComp, ast.DictComp, ast.GeneratorExp)):
            for m in ast.walk(n):
                if isinstance(m, ast.NamedExpr):
                    target(m.target)
            return
        for c in ast.iter_child_nodes(n):
            visit(c)

    for s_ in stmts:
        visit(s_)
    return out


def _walk_no_nested(fn):
    stack = list(fn.body) if not isinstance(fn, ast.Lambda) else [fn.body]
    while stack:
        n = stack.pop()
        yield n
        for c in ast.iter_child_nodes(n):
            if isinstance(c, (ast.FunctionDef, ast.Lambda, ast.ClassDef)):
                continue
            stack.append(c)


def _pure_expr(e):
    return not any(isinstance(n, (ast.Call, ast.NamedExpr, ast.Yield, ast.Await)) for n in ast.walk(e))


def _pure_bool_expr(e):
    return _pure_expr(e)


def _simp(t):
    t = z3.simplify(t)
    if z3.is_true(t):
        return True
    if z3.is_false(t):
        return False
    return t


def _is_intlike(v):
    return isinstance(v, (int, bool)) or (isinstance(v, Sym) and (v.is_int() or v.is_bool()))


def _is_boollike(v):
    return isinstance(v, bool) or (isinstance(v, Sym) and v.is_bool())


def _bt(v):
    return z3.BoolVal(v) if isinstance(v, bool) else v.t


def _concrete_key(k):
    """True if python's own hashing / equality of the interpreter value `k` coincides with that of the program value it stands
    for (so that it may be looked up in the backing python dict); everything else goes through eq()-chains"""
    if isinstance(k, Sym):
        return False
    if isinstance(k, tuple):
        return all(_concrete_key(x) for x in k)
    if isinstance(k, (VSet, VList, VDict)):
        return False                      # frozenset keys: identity hashing of the VSet object would never find an equal set
    if isinstance(k, Obj) and (k.cls.lookup('__eq__') is not NOTFOUND or (k.cls.dataclass is not None and getattr(k.cls, 'dataclass_eq', True))):
        return False
    return True

"""Conformance test of the ABSTRACT CIRCUIT HEAP (circuit_model.py) and of the loop specifications that work on it.

The deductive checks run the real methods of `Circuit` on an abstract heap (count / positional views of the gate map, the
users index, the input and output lists) whose transfer functions - `LabelList.remove`, `UsersMap.__setitem__`, the closed
forms installed by loop specifications ... - are hand-written and belong to the trusted base.  This module tests them against
CPython: the *same contract objects* the checks use are run with their arbitrary initial state replaced by the encoding of one
concrete small circuit (closures that are if-chains over its labels); their symbolic label arguments stay symbolic.  For every
tuple of concrete labels for those arguments
  (a) some explored path must cover the tuple (no lost path),
  (b) a path that covers it must end the way CPython ends (normal return / the same exception class), and
  (c) on a normally ending path every component of the final abstract state, read at every label and position of the universe,
      must be *entailed* to equal the state of the real circuit after the real call (gates, operand positions and counts, users
      counts and totals, input / output lists).
A failure is a checker error (exit 3): the model misrepresents the code.  Nothing here is counted as a proof obligation."""
import itertools
import z3

from .interp import explore, Ctx
from .values import Sym, Obj, LabelSort, GT, Unsupported, PyRaise
from . import circuit_model as CM
from . import solve

I = z3.IntSort()


def _ite(pairs, default):
    r = default
    for c, v in reversed(pairs):
        r = z3.If(c, v, r)
    return r


def concrete_state(it, net, users):
    """CState whose components are closed terms describing exactly `net` (+ its users index)."""
    from ..spec import net as N
    L = lambda x: it.label_term(x)          # noqa: E731
    S = CM.CState()
    gates = net.gates
    S.dom = lambda l: z3.Or([l == L(g) for g in gates]) if gates else z3.BoolVal(False)
    S.typ = lambda l: _ite([(l == L(g), GT[t]) for g, (t, _) in gates.items()], GT['INPUT'])
    S.nops = lambda l: _ite([(l == L(g), z3.IntVal(len(o))) for g, (_, o) in gates.items()], z3.IntVal(0))
    S.op = lambda l, i: _ite([(z3.And(l == L(g), i == j), L(x)) for g, (_, o) in gates.items() for j, x in enumerate(o)], l)
    S.opc = lambda u, g: _ite([(z3.And(u == L(uu), g == L(x)), z3.IntVal(o.count(x))) for uu, (_, o) in gates.items() for x in dict.fromkeys(o)], z3.IntVal(0))
    S.udom = lambda l: z3.Or([l == L(g) for g in users]) if users else z3.BoolVal(False)
    S.cnt = lambda g, u: _ite([(z3.And(g == L(gg), u == L(x)), z3.IntVal(us.count(x))) for gg, us in users.items() for x in dict.fromkeys(us)], z3.IntVal(0))
    S.tot = lambda g: _ite([(g == L(gg), z3.IntVal(len(us))) for gg, us in users.items()], z3.IntVal(0))
    S.uelem = lambda g, j: _ite([(z3.And(g == L(gg), j == k), L(x)) for gg, us in users.items() for k, x in enumerate(us)], g)
    nolabel = z3.Const('nolabel', LabelSort)
    S.in_n, S.out_n = z3.IntVal(len(net.inputs)), z3.IntVal(len(net.outputs))
    S.in_elem = lambda i: _ite([(i == k, L(x)) for k, x in enumerate(net.inputs)], nolabel)
    S.out_elem = lambda i: _ite([(i == k, L(x)) for k, x in enumerate(net.outputs)], nolabel)
    S.in_cnt = lambda l: _ite([(l == L(x), z3.IntVal(net.inputs.count(x))) for x in dict.fromkeys(net.inputs)], z3.IntVal(0))
    S.out_cnt = lambda l: _ite([(l == L(x), z3.IntVal(net.outputs.count(x))) for x in dict.fromkeys(net.outputs)], z3.IntVal(0))
    blocks = net.blocks or {}
    if len(blocks) > 1:
        raise Unsupported('conformance: the abstract heap tracks one generic block')
    if blocks:
        (bn, b), = blocks.items()
        S.b_member, S.b_name = z3.BoolVal(True), L(bn)
        mk = lambda xs: (lambda l: _ite([(l == L(x), z3.IntVal(list(xs).count(x))) for x in dict.fromkeys(xs)], z3.IntVal(0)))      # noqa: E731
        S.bg, S.bi, S.bo = mk(b['gates']), mk(b['inputs']), mk(b['outputs'])
    else:
        S.b_member, S.b_name = z3.BoolVal(False), z3.Const('noblock', LabelSort)
        S.bg = S.bi = S.bo = (lambda l: z3.IntVal(0))
    S.size = z3.IntVal(len(gates))
    rk = N.rank(net)
    S.rank = lambda l: _ite([(l == L(g), z3.IntVal(rk[g])) for g in gates], z3.IntVal(0))
    return S


def _native_args(args, assign, gate_mod):
    out = []
    for a in args:
        if isinstance(a, Sym) and a.is_label():
            out.append(assign[a.t.get_id()])
        elif isinstance(a, tuple):
            out.append(tuple(_native_args(list(a), assign, gate_mod)))
        elif isinstance(a, Obj) and a.cls.name == 'GateType':
            out.append(getattr(gate_mod, a.fields['_name']))
        elif isinstance(a, (str, int, bool, type(None))):
            out.append(a)
        else:
            from .values import VList
            if isinstance(a, VList):
                out.append(_native_args(a.items, assign, gate_mod))
            else:
                raise Unsupported(f'conformance: argument of kind {type(a).__name__}')
    return out


def _label_syms(v, acc):
    if isinstance(v, Sym) and v.is_label() and z3.is_const(v.t) and v.t.decl().kind() == z3.Z3_OP_UNINTERPRETED:
        acc.setdefault(v.t.get_id(), v.t)
    elif isinstance(v, tuple):
        for x in v:
            _label_syms(x, acc)
    else:
        from .values import VList
        if isinstance(v, VList):
            for x in v.items:
                _label_syms(x, acc)


def expected_facts(it, S, net, users, universe):
    """conjuncts stating that the abstract state S denotes (net, users), read at every label / position of the universe"""
    L = lambda x: it.label_term(x)          # noqa: E731
    out = []
    for x in universe:
        lx = L(x)
        indom = x in net.gates
        out.append((f'dom({x})', S.dom(lx) == indom))
        if indom:
            t, ops = net.gates[x]
            out.append((f'typ({x})', S.typ(lx) == GT[t]))
            out.append((f'nops({x})', S.nops(lx) == len(ops)))
            for j, o in enumerate(ops):
                out.append((f'op({x},{j})', S.op(lx, z3.IntVal(j)) == L(o)))
            for y in universe:
                out.append((f'opc({x},{y})', S.opc(lx, L(y)) == ops.count(y)))
        us = users.get(x)
        out.append((f'tot({x})', S.tot(lx) == (len(us) if us is not None else 0)))
        for y in universe:
            out.append((f'cnt({x},{y})', S.cnt(lx, L(y)) == (us.count(y) if us is not None else 0)))
        out.append((f'in_cnt({x})', S.in_cnt(lx) == net.inputs.count(x)))
        out.append((f'out_cnt({x})', S.out_cnt(lx) == net.outputs.count(x)))
    blocks = net.blocks or {}
    if not blocks:
        out.append(('no-block', z3.Not(S.b_member)))
    elif len(blocks) == 1:
        (bn, b), = blocks.items()
        out.append(('block-present', z3.And(S.b_member, S.b_name == L(bn))))
        for x in universe:
            out.append((f'block-counts({x})', z3.And(S.bg(L(x)) == list(b['gates']).count(x), S.bi(L(x)) == list(b['inputs']).count(x),
                                                     S.bo(L(x)) == list(b['outputs']).count(x))))
    out.append(('in_n', S.in_n == len(net.inputs)))
    out.append(('out_n', S.out_n == len(net.outputs)))
    for k, x in enumerate(net.inputs):
        out.append((f'in_elem({k})', S.in_elem(z3.IntVal(k)) == L(x)))
    for k, x in enumerate(net.outputs):
        out.append((f'out_elem({k})', S.out_elem(z3.IntVal(k)) == L(x)))
    return out


def run_case(make_it, contract_factory, net, method, extra_labels=(), max_tuples=40, timeout_ms=20000, verbose=False, native_call=None, result_holder=None):
    """native_call(circuit, args, kwargs) -> the circuit whose state is compared (default: call `method`, compare the receiver);
    result_holder(ctx, value) -> the abstract heap holder that describes it (default: the receiver's)"""
    """returns a list of problem strings (empty = the abstract run conforms to CPython on this circuit)"""
    from ..spec import net as N
    import cirbo.core.circuit.gate as gate_mod
    native0 = N.build(net)
    users0 = {k: list(v) for k, v in native0._gate_to_users.items()}
    it = make_it()
    c = contract_factory()
    universe = list(net.gates) + list(extra_labels)
    for x in universe:
        it.label_term(x)                   # every label of the universe is a constant of the background (pairwise distinct)
    SC = concrete_state(it, net, users0)
    real_fresh = CM.fresh_state
    used = []

    def fake_fresh(tag):
        """the first arbitrary state a contract asks for: uninterpreted symbols as usual (so that the contract's own
        quantifier patterns stay legal) PINNED to the concrete circuit by defining axioms"""
        S = real_fresh(tag)
        if not used:
            used.append(S)
        return S

    def pin(ctx, S):
        g, u = z3.Consts('G!pin U!pin', LabelSort)
        i = z3.Int('I!pin')
        ax = [z3.ForAll([g], S.dom(g) == SC.dom(g)), z3.ForAll([g], S.typ(g) == SC.typ(g)), z3.ForAll([g], S.nops(g) == SC.nops(g)),
              z3.ForAll([g, i], S.op(g, i) == SC.op(g, i)), z3.ForAll([u, g], S.opc(u, g) == SC.opc(u, g)),
              z3.ForAll([g], S.udom(g) == SC.udom(g)), z3.ForAll([g, u], S.cnt(g, u) == SC.cnt(g, u)), z3.ForAll([g], S.tot(g) == SC.tot(g)),
              z3.ForAll([g, i], S.uelem(g, i) == SC.uelem(g, i)),
              S.in_n == SC.in_n, S.out_n == SC.out_n, z3.ForAll([i], S.in_elem(i) == SC.in_elem(i)), z3.ForAll([i], S.out_elem(i) == SC.out_elem(i)),
              z3.ForAll([g], S.in_cnt(g) == SC.in_cnt(g)), z3.ForAll([g], S.out_cnt(g) == SC.out_cnt(g)),
              S.b_member == SC.b_member, z3.Implies(SC.b_member, S.b_name == SC.b_name),
              z3.ForAll([g], z3.And(S.bg(g) == SC.bg(g), S.bi(g) == SC.bi(g), S.bo(g) == SC.bo(g))), S.size == SC.size,
              z3.ForAll([g], S.rank(g) == SC.rank(g))]
        for a in ax:
            ctx.assume(a)

    def run(ctx):
        it.ctx = ctx
        it.depth = 0
        used.clear()
        CM.fresh_state = fake_fresh
        try:
            args, kwargs, st = c.setup(it, ctx)
        finally:
            CM.fresh_state = real_fresh
        if used:
            pin(ctx, used[0])
        hh = getattr(args[0], 'holder', None) if args else None
        if hh is not None and hasattr(hh, 'other_block'):
            x = z3.Const('X!pin', LabelSort)
            ctx.assume(z3.ForAll([x], z3.Not(hh.other_block(x))))          # the concrete circuit has no block besides the tracked one
        ctx._conf = (args, kwargs, st)
        fv = it.get_function(c.relpath, c.qualname)
        if hasattr(c, 'execute'):
            return c.execute(it, fv, args, kwargs)
        return it.call_function(fv, args, kwargs, force_inline=True)

    paths = explore(run)
    problems = []
    imprecise = []
    # symbolic label arguments (taken from the first path; the contract builds the same terms on every path)
    syms = {}
    for ctx, out in paths:
        if hasattr(ctx, '_conf'):
            _label_syms(tuple(ctx._conf[0][1:]), syms)
            for v in ctx._conf[1].values():
                _label_syms(v, syms)
            break
    ids = list(syms)
    tuples = list(itertools.product(universe, repeat=len(ids)))
    if len(tuples) > max_tuples:
        step = len(tuples) / max_tuples
        tuples = [tuples[int(k * step)] for k in range(max_tuples)]
    n_checked = 0
    for vals in tuples:
        assign = dict(zip(ids, vals))
        fix = [syms[i] == it.label_term(v) for i, v in assign.items()]
        # what CPython does
        nat = N.build(net)
        any_conf = next((ctx._conf for ctx, _ in paths if hasattr(ctx, '_conf')), None)
        nargs = _native_args(list(any_conf[0][1:]), assign, gate_mod)
        nkw = dict(zip(any_conf[1].keys(), _native_args(list(any_conf[1].values()), assign, gate_mod)))
        try:
            if native_call is not None:
                nat = native_call(nat, nargs, nkw)
            else:
                getattr(nat, method)(*nargs, **nkw)
            nat_out = ('return', None)
        except Exception as e:       # noqa
            nat_out = ('raise', type(e).__name__)
        after = N.snapshot(nat)
        covered = False
        for ctx, out in paths:
            if out[0] in ('unsupported', 'cut'):
                # an unsupported / cut path claims nothing; it may be the one that covers the tuple
                st_, _, _ = solve.quick_check(list(ctx.pc) + it.background() + fix, z3.BoolVal(False), timeout_ms=3000)
                if st_ != 'proved':
                    covered = True
                continue
            hyps = list(ctx.pc) + it.background() + fix
            dead, _, _ = solve.quick_check(hyps, z3.BoolVal(False), timeout_ms=8000)
            if dead == 'proved':
                continue
            definite = dead == 'refuted'          # the solver exhibited a model of the path condition: the path IS feasible
            covered = True
            if out[0] == 'raise':
                got = out[1].cls.name if isinstance(out[1], Obj) else repr(out[1])
                if nat_out[0] != 'raise' or got != nat_out[1]:
                    msg = f'{method}{tuple(nargs)}: abstract path raises {got}, CPython ' + (f'raises {nat_out[1]}' if nat_out[0] == 'raise' else 'returns normally')
                    (problems if definite else imprecise).append(msg + ('' if definite else ' (feasibility of that path undecided by the solver)'))
                continue
            if nat_out[0] == 'raise':
                msg = f'{method}{tuple(nargs)}: abstract path returns normally, CPython raises {nat_out[1]}'
                (problems if definite else imprecise).append(msg + ('' if definite else ' (feasibility of that path undecided by the solver)'))
                continue
            obj = ctx._conf[0][0]
            h = result_holder(ctx, out[1]) if result_holder is not None else getattr(obj, 'holder', None)
            if h is None:
                problems.append(f'{method}{tuple(nargs)}: the abstract run returned no circuit on the abstract heap')
                continue
            CM.sync_fields(it, h)
            facts = expected_facts(it, h.S, after, after.users, universe)
            st_, _, _ = solve.quick_check(hyps, z3.And([f for _, f in facts]), timeout_ms=timeout_ms)
            n_checked += 1
            if st_ != 'proved':
                first = None
                for nm, f in facts:
                    s1, _, _ = solve.quick_check(hyps, f, timeout_ms=5000)
                    if s1 != 'proved':
                        first = (nm, s1)
                        break
                # not entailed: is the real final state at least AMONG the states the abstract path describes (a sound
                # over-approximation, e.g. a list known up to the order of its members), or is it excluded (unsound model)?
                excl, _, _ = solve.quick_check(hyps + [f for _, f in facts], z3.BoolVal(False), timeout_ms=timeout_ms)
                if excl == 'proved':
                    problems.append(f'{method}{tuple(nargs)}: the real final state is EXCLUDED by the abstract path (unsound model); first component not entailed: {first}')
                else:
                    imprecise.append(f'{method}{tuple(nargs)}: {first[0] if first else "?"} not established from the abstract path (over-approximation of the model, or a limit of the solver on this query)')
        if not covered:
            problems.append(f'{method}{tuple(nargs)}: NO explored path covers these arguments (lost path)')
    if verbose:
        print(f'conformance {method} on {len(net.gates)}-gate circuit: {len(paths)} paths, {len(tuples)} argument tuples, {n_checked} state comparisons, '
              + ('conforms' if not problems else f'PROBLEMS: {problems[:2]}') + (f'; {len(imprecise)} over-approximated: {imprecise[:1]}' if imprecise else ''))
    run_case.last_imprecise = imprecise
    return problems

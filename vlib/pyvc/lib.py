"""Builtins, container methods and the modelled fragment of the standard / third-party library
(DESIGN §3.5). Everything here is part of the trusted encoding of Python's semantics; the
differential self-test (vlib/pyvc/selftest.py) compares it with CPython on concrete inputs."""
import ast
import itertools
import z3

from .values import (Sym, PyRaise, Unsupported, ClassV, Obj, EnumMember, FuncV, BoundMethod, Native, ModuleV, Opaque,
                     VList, VDict, VSet, GenV, RangeV, NOTFOUND, ENUM_BASE, BUILTIN_EXC, LabelSort, StateSort)


class TypeNative(Native):
    """builtin type object usable both as constructor and in isinstance()."""

    def __init__(self, name, fn, check):
        Native.__init__(self, name, fn, needs_interp=True)
        self.check = check


class UuidV:
    """uuid.uuid4(): only `.hex` is used; concatenating it into a string makes an arbitrary label.
    In the concrete differential self-test the draws are a deterministic counter (same on the CPython side)."""
    counter = None

    def __init__(self):
        self.value = None
        if UuidV.counter is not None:
            UuidV.counter += 1
            self.value = '%032x' % UuidV.counter


def pow2(t):
    return Pow2(t)


Pow2 = z3.Function('pow2', z3.IntSort(), z3.IntSort())


def pow2_axioms(terms):
    """instances of pow2(0)=1, pow2(i+1)=2*pow2(i), positivity & monotonicity for the given index terms"""
    ax = [Pow2(0) == 1]
    i = z3.Int('i!p2')
    ax.append(z3.ForAll([i], z3.Implies(i >= 0, z3.And(Pow2(i + 1) == 2 * Pow2(i), Pow2(i) >= 1)), patterns=[Pow2(i)]))
    return ax


_MUTATORS = {'append', 'extend', 'pop', 'reverse', 'popleft', 'appendleft', 'clear', 'insert', 'remove', 'sort', 'setdefault',
             'update', 'add', 'discard', 'popitem', 'difference_update', 'intersection_update', 'symmetric_difference_update'}


class Library:
    def __init__(self, it):
        self.it = it
        self._builtins = None
        self.stubs = {}

    # ------------------------------------------------------------------ builtins -----------
    def builtin(self, name):
        if self._builtins is None:
            self._builtins = self._make_builtins()
        return self._builtins.get(name, NOTFOUND)

    def _make_builtins(self):
        it = self.it
        B = {}

        def nat(name, needs=True):
            def deco(fn):
                B[name] = Native(name, fn, needs_interp=needs)
                return fn
            return deco

        B.update(BUILTIN_EXC)
        B['NotImplemented'] = Opaque('NotImplemented')
        B['object'] = ClassV('object', [], {})
        B['__debug__'] = True

        @nat('len')
        def _len(it, x):
            if isinstance(x, (tuple, str, bytes, bytearray)):
                return len(x)
            if isinstance(x, VList) or isinstance(x, VSet):
                return len(x.items)
            if isinstance(x, VDict):
                return len(x.d)
            if isinstance(x, RangeV):
                if all(isinstance(v, int) for v in (x.start, x.stop, x.step)):
                    return len(range(x.start, x.stop, x.step))
            if isinstance(x, Sym) and x.is_str():
                return Sym(z3.Length(x.t))
            if hasattr(x, 'm_len'):
                return x.m_len(it)
            if isinstance(x, Obj):
                f = x.cls.lookup('__len__')
                if f is not NOTFOUND:
                    return it.call(f, [x], {})
            raise Unsupported(f'len of {type(x).__name__}')

        @nat('range')
        def _range(it, a, b=None, c=1):
            if b is None:
                a, b = 0, a
            return RangeV(a, b, c)

        def mk_list(it, x=()):
            if hasattr(x, 'm_copy_list'):
                return x.m_copy_list(it)
            if isinstance(x, RangeV) and isinstance(x.step, int) and x.step == 1 and not all(isinstance(v, int) for v in (x.start, x.stop)) \
                    and getattr(it, 'symbolic_range_lists', False):
                # list(range(a, b)) with a symbolic bound: the sequence a..b-1 as a symbolic-length list (read-only use)
                from .models import SymSeq
                a, b = it.int_term(x.start), it.int_term(x.stop)
                return SymSeq([], z3.If(b > a, b - a, 0), lambda i, a=a: Sym(a + i), 'list')
            return VList(list(it.iterate(x)))
        B['list'] = TypeNative('list', mk_list, lambda v: isinstance(v, VList))

        def mk_tuple(it, x=()):
            if getattr(x, 'immutable_tuple', False) and x.concrete_len(it) is None:      # tuple(t) of a symbolic-arity tuple view is t
                return x
            return tuple(it.iterate(x))
        B['tuple'] = TypeNative('tuple', mk_tuple, lambda v: isinstance(v, tuple))

        def mk_dict(it, x=None, **kw):
            d = VDict()
            if isinstance(x, VDict):
                d.d.update(x.d)
            elif x is not None:
                if hasattr(x, 'm_copy_dict'):
                    return x.m_copy_dict(it)
                for kv in it.iterate(x):
                    k, v = list(it.iterate(kv))
                    it.setitem(d, k, v)
            d.d.update(kw)
            return d
        B['dict'] = TypeNative('dict', mk_dict, lambda v: isinstance(v, VDict))

        def mk_set(it, x=()):
            items = list(it.iterate(x))
            out = []
            for i in items:
                dup = False
                for o in out:
                    e = it.eq(i, o)
                    if e is True:
                        dup = True
                        break
                    if e is not False:
                        if it.ctx.choose(it.as_bool_term(e)):
                            dup = True
                            break
                if not dup:
                    out.append(i)
            s = VSet()
            s.items = out
            return s
        B['set'] = TypeNative('set', mk_set, lambda v: isinstance(v, VSet))
        B['frozenset'] = TypeNative('frozenset', mk_set, lambda v: isinstance(v, VSet))

        def mk_int(it, x=0, base=None):
            if base is not None:
                if isinstance(x, str) and isinstance(base, int):
                    try:
                        return int(x, base)
                    except ValueError as e:
                        it.raise_('ValueError', str(e))
                return self.str_to_int(x, base)
            if isinstance(x, bool) or isinstance(x, (int, float)):
                return int(x)
            if isinstance(x, str):
                try:
                    return int(x)
                except ValueError as e:
                    it.raise_('ValueError', str(e))
            if isinstance(x, Sym):
                if x.is_bool() or x.is_int():
                    return Sym(it.int_term(x))
                if x.is_state():
                    it.truth(x)     # raises on Undefined
                    return Sym(z3.If(x.t == it.state_term(True), 1, 0))
                if x.is_str():
                    return self.str_to_int(x, 10)
            raise Unsupported(f'int({x!r})')
        B['int'] = TypeNative('int', mk_int, lambda v: isinstance(v, int) or (isinstance(v, Sym) and (v.is_int() or v.is_bool())))

        def mk_bool(it, x=False):
            t = it.truth(x)
            return t if isinstance(t, bool) else Sym(t)
        B['bool'] = TypeNative('bool', mk_bool, lambda v: isinstance(v, bool) or (isinstance(v, Sym) and v.is_bool()))

        def mk_str(it, x=''):
            if isinstance(x, str):
                return x
            if isinstance(x, bool) or isinstance(x, int):
                return str(x)
            if isinstance(x, Sym) and (x.is_label() or x.is_str()):
                return x
            if isinstance(x, Sym) and x.is_int():
                if it.string_mode:
                    return Sym(z3.IntToStr(x.t))
                return DigitStr(x)
            if x is None:
                return 'None'
            return Opaque('str')
        B['str'] = TypeNative('str', mk_str, lambda v: isinstance(v, str) or (isinstance(v, Sym) and (v.is_label() or v.is_str())))
        B['float'] = TypeNative('float', lambda it, x=0.0: float(x), lambda v: isinstance(v, float))
        def mk_bytes(it, x=b'', *a):
            if isinstance(x, (bytes, bytearray)):
                return bytes(x)
            if isinstance(x, VList) and all(isinstance(i, int) for i in x.items):
                return bytes(x.items)
            if hasattr(x, 'm_bytes'):
                return x.m_bytes(it)
            if isinstance(x, Obj):
                f = x.cls.lookup('__bytes__')
                if f is not NOTFOUND:
                    return it.call(f, [x], {})
            return Opaque('bytes')
        B['bytes'] = TypeNative('bytes', mk_bytes, lambda v: isinstance(v, bytes))
        B['bytearray'] = TypeNative('bytearray', lambda it, x=b'': bytearray(x), lambda v: isinstance(v, bytearray))

        @nat('isinstance')
        def _isinstance(it, v, cls):
            if isinstance(cls, tuple):
                r = False
                for c in cls:
                    r = r or _isinstance(it, v, c)
                return r
            if isinstance(cls, TypeNative):
                if cls.name == 'int' and isinstance(v, bool):
                    return True
                return bool(cls.check(v))
            if isinstance(cls, ClassV):
                if isinstance(v, Obj):
                    return v.cls.issubclass(cls)
                if isinstance(v, EnumMember):
                    return v.cls.issubclass(cls)
                if isinstance(v, Sym) and v.is_gtype():
                    return cls.name == 'GateType'
                if hasattr(v, 'm_isinstance'):
                    return v.m_isinstance(it, cls)
                return False
            if isinstance(cls, Opaque):
                raise Unsupported('isinstance against opaque type ' + cls.name)
            raise Unsupported('isinstance')

        @nat('enumerate')
        def _enumerate(it, x, start=0):
            if getattr(it, 'symbolic_enumerate', False) and hasattr(x, 'elem') and hasattr(x, 'n') and x.concrete_len(it) is None and start == 0:
                # enumerate(L) over a label list of symbolic length: the pairs (i, L[i]) as a sequence for a loop invariant
                from .models import SymSeq
                s = SymSeq([], x.n, lambda i, x=x: (Sym(i), Sym(x.elem(i))), 'enumerate')
                s.enumerated = x
                return s
            return GenV(iter([(i + start, v) for i, v in enumerate(it.iterate(x))]))

        @nat('zip')
        def _zip(it, *xs, strict=False):
            return GenV(iter([tuple(t) for t in zip(*[list(it.iterate(x)) for x in xs])]))

        @nat('reversed')
        def _reversed(it, x):
            return GenV(iter(list(it.iterate(x))[::-1]))

        @nat('sorted')
        def _sorted(it, x, key=None, reverse=False):
            items = list(it.iterate(x))
            keys = [it.call(key, [v], {}) if key is not None else v for v in items]
            if any(not _conc(k) for k in keys):
                if key is None and not reverse and all(isinstance(k, str) or (isinstance(k, Sym) and k.is_label()) for k in keys):
                    return VList(sorted_labels(it, [it.label_term(k) for k in keys]))
                return VList(stable_sort(it, items, keys, reverse))
            idx = sorted(range(len(items)), key=lambda i: to_py(keys[i]), reverse=reverse)
            return VList([items[i] for i in idx])

        def minmax(is_min):
            def f(it, *args, key=None, default=NOTFOUND):
                items = list(it.iterate(args[0])) if len(args) == 1 else list(args)
                if not items:
                    if default is not NOTFOUND:
                        return default
                    it.raise_('ValueError', 'min/max of empty sequence')
                if key is not None:
                    raise Unsupported('min/max key')
                acc = items[0]
                for v in items[1:]:
                    if _conc(acc) and _conc(v):
                        acc = min(acc, v) if is_min else max(acc, v)
                    else:
                        a, b = it.int_term(acc), it.int_term(v)
                        acc = Sym(z3.If(b < a, b, a) if is_min else z3.If(b > a, b, a))
                return acc
            return f
        B['min'] = Native('min', minmax(True), True)
        B['max'] = Native('max', minmax(False), True)

        @nat('sum')
        def _sum(it, x, start=0):
            acc = start
            for v in it.iterate(x):
                acc = it.binop(ast.Add(), acc, v)
            return acc

        @nat('all')
        def _all(it, x):
            for v in it.iterate(x):
                if not it.ctx.choose(it.truth(v)):
                    return False
            return True

        @nat('any')
        def _any(it, x):
            for v in it.iterate(x):
                if it.ctx.choose(it.truth(v)):
                    return True
            return False

        @nat('abs')
        def _abs(it, x):
            if isinstance(x, Sym):
                t = it.int_term(x)
                return Sym(z3.If(t < 0, -t, t))
            return abs(x)

        @nat('iter')
        def _iter(it, x):
            if isinstance(x, GenV):
                return x
            return GenV(it.iterate(x))

        @nat('next')
        def _next(it, g, default=NOTFOUND):
            if not isinstance(g, GenV):
                raise Unsupported('next on non-iterator')
            try:
                return next(g.it)
            except StopIteration:
                if default is not NOTFOUND:
                    return default
                it.raise_('StopIteration')

        @nat('map')
        def _map(it, f, *xs):
            return GenV(iter([it.call(f, list(a), {}) for a in zip(*[list(it.iterate(x)) for x in xs])]))

        @nat('filter')
        def _filter(it, f, xs):
            out = []
            for v in it.iterate(xs):
                t = it.truth(v) if f is None else it.truth(it.call(f, [v], {}))
                if it.ctx.choose(t):
                    out.append(v)
            return GenV(iter(out))

        @nat('hash')
        def _hash(it, x):
            if _conc(x) and not isinstance(x, (VList, VDict, VSet)):
                return Opaque('hash')
            return Opaque('hash')

        @nat('print')
        def _print(it, *a, **k):
            return None

        @nat('repr')
        def _repr(it, x):
            return Opaque('repr')

        @nat('getattr')
        def _getattr(it, o, name, default=NOTFOUND):
            try:
                return it.getattr(o, name)
            except PyRaise as r:
                if default is not NOTFOUND and it.exc_matches(r.exc, BUILTIN_EXC['AttributeError']):
                    return default
                raise

        @nat('hasattr')
        def _hasattr(it, o, name):
            try:
                it.getattr(o, name)
                return True
            except PyRaise:
                return False

        @nat('callable')
        def _callable(it, x):
            return isinstance(x, (FuncV, Native, BoundMethod, ClassV))

        @nat('bin')
        def _bin(it, x):
            if isinstance(x, int):
                return bin(x)
            raise Unsupported('bin of symbolic int')

        @nat('divmod')
        def _divmod(it, a, b):
            return (it.binop(ast.FloorDiv(), a, b), it.binop(ast.Mod(), a, b))

        @nat('pow')
        def _pow(it, a, b, m=None):
            if _conc(a) and _conc(b) and m is None:
                return a ** b
            raise Unsupported('pow')

        @nat('type')
        def _type(it, x):
            if isinstance(x, Obj):
                return x.cls
            raise Unsupported('type()')

        @nat('super')
        def _super(it, *a):
            if len(a) == 2 and isinstance(a[0], ClassV) and isinstance(a[1], Obj):
                return SuperProxy(a[0], a[1])
            fr = it.frames[-1] if getattr(it, 'frames', None) else None
            if not a and fr is not None and fr[0] is not None and isinstance(fr[1], Obj):
                return SuperProxy(fr[0], fr[1])
            raise Unsupported('super()')

        @nat('id')
        def _id(it, x):
            return id(x)
        return B

    # ------------------------------------------------------------------ strings ------------
    def str_concat(self, parts, formatted=False):
        it = self.it
        if all(isinstance(p, str) for p in parts):
            return ''.join(parts)
        if all(isinstance(p, (str, int, bool)) and not isinstance(p, Sym) for p in parts):
            return ''.join(str(p) for p in parts)
        if it.string_mode:
            ts = []
            for p in parts:
                if isinstance(p, str):
                    ts.append(z3.StringVal(p))
                elif isinstance(p, Sym) and p.is_str():
                    ts.append(p.t)
                elif isinstance(p, Sym) and p.is_int():
                    ts.append(z3.IntToStr(p.t))
                elif isinstance(p, int):
                    ts.append(z3.StringVal(str(p)))
                else:
                    return Opaque('msg')
            return Sym(z3.Concat(*ts)) if len(ts) > 1 else Sym(ts[0])
        flat = []
        for p in parts:
            flat.extend(p.parts if isinstance(p, PartialLabel) else [p])
        if formatted:
            # f"gate_{i}" with a symbolic int i: the decimal rendering of i (same value as 'gate_' + str(i))
            # (only the label-like shape: constant text around ONE number; anything else stays an opaque message)
            if sum(1 for p in flat if isinstance(p, Sym) and p.is_int()) == 1 and all(isinstance(p, str) or (isinstance(p, Sym) and p.is_int()) for p in flat):
                flat = [DigitStr(p) if isinstance(p, Sym) else p for p in flat]
        parts = [p for p in flat if not (isinstance(p, str) and p == '')]
        if len(parts) == 1 and isinstance(parts[0], Sym) and parts[0].is_label():
            return parts[0]           # '' + label  is the label itself
        has_uuid = any(isinstance(p, UuidHex) for p in parts)
        has_label = any(isinstance(p, Sym) and p.is_label() for p in parts)
        if has_uuid:
            # random suffix: an arbitrary label — it may collide with a label already in the circuit (the code
            # checks for that), but two uuid4 draws never coincide (standing assumption, DESIGN §9)
            t = it.ctx.fresh(LabelSort, 'uuidlabel')
            prev = getattr(it.ctx, 'uuid_labels', None)
            if prev is None:
                prev = it.ctx.uuid_labels = []
            for p in prev:
                it.ctx.assume(t != p)
            prev.append(t)
            for c in it.str_labels.values():      # a uuid-suffixed label is none of the program's string constants
                it.ctx.assume(t != c)
            return Sym(t)
        if any(isinstance(p, (DigitStr, DigitString)) for p in parts):
            ds = DigitString.of(parts)
            if ds is not None and all(not isinstance(p, str) or p.isdigit() or p == '' for p in parts):
                return ds
        if any(isinstance(p, DigitStr) for p in parts) and all(isinstance(p, (str, DigitStr)) for p in parts):
            return NumberedLabel(tuple(parts)).to_sym(it)
        if has_label and not formatted:
            return PartialLabel(parts)
        return Opaque('msg')

    def str_to_int(self, x, base):
        it = self.it
        if isinstance(x, DigitStr):
            x = DigitString([x.sym])
        if isinstance(x, DigitString) and isinstance(base, int) and 2 <= base <= 10:
            if not x.digits:
                it.raise_('ValueError', 'invalid literal for int()')
            acc = z3.IntVal(0)
            for d in x.digits:
                dt = z3.IntVal(int(d)) if isinstance(d, str) else it.int_term(d)
                if not isinstance(d, str):
                    if it.ctx.feasible(z3.Or(dt < 0, dt > 9)):
                        raise Unsupported('str() of a symbolic int that may have several digits')
                    if it.ctx.choose(z3.Or(dt < 0, dt >= base)):
                        it.raise_('ValueError', 'invalid literal for int() with base %d' % base)
                elif int(d) >= base:
                    it.raise_('ValueError', 'invalid literal for int()')
                acc = acc * base + dt
            return Sym(acc)
        raise Unsupported('int(str, base) on symbolic value')

    def str_index(self, s, k):
        it = self.it
        if isinstance(k, slice):
            if k.step not in (None, 1):
                raise Unsupported('string slice step')
            n = z3.Length(s.t)
            lo = z3.IntVal(0) if k.start is None else it.int_term(k.start)
            hi = n if k.stop is None else it.int_term(k.stop)
            lo = z3.If(lo < 0, z3.If(n + lo < 0, 0, n + lo), z3.If(lo > n, n, lo))
            hi = z3.If(hi < 0, z3.If(n + hi < 0, 0, n + hi), z3.If(hi > n, n, hi))
            return Sym(z3.SubString(s.t, lo, z3.If(hi - lo < 0, 0, hi - lo)))
        kt = it.int_term(k)
        n = z3.Length(s.t)
        if not it.ctx.choose(z3.And(kt >= -n, kt < n)):
            it.raise_('IndexError', 'string index out of range')
        return Sym(z3.SubString(s.t, z3.If(kt < 0, n + kt, kt), 1))

    def bitop(self, T, a, b, x, y):
        it = self.it
        conc_b = isinstance(b, int) and not isinstance(b, bool)
        conc_a = isinstance(a, int) and not isinstance(a, bool)
        if T in (ast.RShift, ast.LShift) and not conc_b:
            # small symbolic shift amounts (bit positions inside a byte): enumerate them
            if not it.ctx.feasible(z3.Or(y < 0, y > 8)):
                for k in range(0, 9):
                    if it.ctx.feasible(y == k) and it.ctx.choose(y == k):
                        return Sym(x / (2 ** k)) if T is ast.RShift else Sym(x * (2 ** k))
                from .values import Infeasible
                raise Infeasible()
        if T is ast.RShift:
            if conc_b:
                if b < 0:
                    it.raise_('ValueError', 'negative shift count')
                return Sym(x / (2 ** b))
            if it.ctx.choose(y < 0):
                it.raise_('ValueError', 'negative shift count')
            xs = z3.simplify(x)
            if z3.is_app(xs) and xs.decl().kind() == z3.Z3_OP_MUL and xs.num_args() == 2:
                for p_, t_ in ((xs.arg(0), xs.arg(1)), (xs.arg(1), xs.arg(0))):
                    if _is_pow2_term(p_) and z3.simplify(p_.arg(0) - y).eq(z3.IntVal(0)):
                        return Sym(t_)           # (2^y * t) >> y = t   (background lemma, 2^y >= 1)
            return Sym(x / Pow2(y))
        if T is ast.LShift:
            if conc_b:
                if b < 0:
                    it.raise_('ValueError', 'negative shift count')
                return Sym(x * (2 ** b))
            if it.ctx.choose(y < 0):
                it.raise_('ValueError', 'negative shift count')
            if conc_a and a == 1:
                return Sym(Pow2(y))
            return Sym(x * Pow2(y))
        if T is ast.BitAnd:
            for (cv, other) in ((b, x) if conc_b else (None, None), (a, y) if conc_a else (None, None)):
                if cv is None:
                    continue
                if cv >= 0 and (cv & (cv + 1)) == 0:          # mask 2^k-1
                    return Sym(other % (cv + 1))
                if cv > 0 and (cv & (cv - 1)) == 0:           # single bit 2^k
                    return Sym(cv * ((other / cv) % 2))
            # x & pow2(s)  ->  pow2(s) * ((x div pow2(s)) mod 2)
            for (p, other) in ((z3.simplify(y), x), (z3.simplify(x), y)):
                if _is_pow2_term(p):
                    return Sym(p * ((other / p) % 2))
            w = getattr(it, 'bv_width', None)
            if w:
                it.ctx.check('bitand-operands-fit-width', z3.And(x >= 0, x < 2 ** w, y >= 0, y < 2 ** w))
                return Sym(z3.BV2Int(z3.Int2BV(x, w) & z3.Int2BV(y, w)))
            raise Unsupported('general symbolic &')
        if T is ast.BitOr:
            # x | (b * 2^t) with 0 <= x < 2^t, b in {0,1}: bits are disjoint, so | is + (background lemma);
            # the side condition becomes an obligation of the function under verification
            for (p_, other) in ((y, x), (x, y)):
                sc = _pow2_scaled(p_)
                if sc is not None:
                    it.ctx.check('bitor-disjoint-bits', z3.And(other >= 0, other < sc), {'witness': 'bitor'})
                    return Sym(other + p_)
            w = getattr(it, 'bv_width', None)
            if w:
                it.ctx.check('bitor-operands-fit-width', z3.And(x >= 0, x < 2 ** w, y >= 0, y < 2 ** w))
                return Sym(z3.BV2Int(z3.Int2BV(x, w) | z3.Int2BV(y, w)))
            raise Unsupported('general symbolic |')
        if T is ast.BitXor:
            w = getattr(it, 'bv_width', None)
            if w:
                it.ctx.check('bitxor-operands-fit-width', z3.And(x >= 0, x < 2 ** w, y >= 0, y < 2 ** w))
                return Sym(z3.BV2Int(z3.Int2BV(x, w) ^ z3.Int2BV(y, w)))
            raise Unsupported('general symbolic ^')
        if T is ast.Pow:
            if conc_a and a == 2:
                if it.ctx.choose(y < 0):
                    raise Unsupported('negative power')
                return Sym(Pow2(y))
            if conc_b and b >= 0:
                r = z3.IntVal(1)
                for _ in range(b):
                    r = r * x
                return Sym(r)
            raise Unsupported('symbolic **')
        if T is ast.Div:
            raise Unsupported('true division')
        raise Unsupported(f'binop {T.__name__}')

    # ------------------------------------------------------------------ methods ------------
    def method(self, v, name):
        it = self.it
        N = lambda fn: Native(name, fn, needs_interp=False)
        if it.barriers and isinstance(v, (VList, VDict, VSet)) and name in _MUTATORS:
            it.barrier_obj(v, f'.{name}()')
        if name in _MUTATORS and isinstance(v, (VList, VDict, VSet)) and v.born == 0:
            it.static_write(v, f'.{name}()')
        if isinstance(v, VList):
            L = v.items
            if name == 'append':
                return N(lambda x: L.append(x))
            if name == 'extend':
                return N(lambda x: L.extend(list(it.iterate(x))))
            if name == 'pop':
                def pop(i=-1):
                    if not L:
                        it.raise_('IndexError', 'pop from empty list')
                    if isinstance(i, Sym):
                        raise Unsupported('pop(symbolic)')
                    if i >= len(L) or i < -len(L):
                        it.raise_('IndexError', 'pop index out of range')
                    return L.pop(i)
                return N(pop)
            if name == 'reverse':
                return N(lambda: L.reverse())
            if name == 'popleft':       # collections.deque
                def popleft():
                    if not L:
                        it.raise_('IndexError', 'pop from an empty deque')
                    return L.pop(0)
                return N(popleft)
            if name == 'appendleft':
                return N(lambda x: L.insert(0, x))
            if name == 'copy':
                return N(lambda: VList(L))
            if name == 'clear':
                return N(lambda: L.clear())
            if name == 'insert':
                def insert(i, x):
                    if isinstance(i, Sym):
                        n = len(L)
                        kt = it.int_term(i)
                        for j in range(n + 1):
                            if it.ctx.choose(z3.Or(kt == j, kt == j - n) if j < n else kt >= n):
                                L.insert(j, x)
                                return
                        L.insert(0, x)
                        return
                    L.insert(i, x)
                return N(insert)
            if name in ('remove', 'index'):
                def find(x, *a):
                    if a:
                        raise Unsupported('index with bounds')
                    for i, y in enumerate(L):
                        e = it.eq(x, y)
                        if e is True or (e is not False and it.ctx.choose(it.as_bool_term(e))):
                            if name == 'remove':
                                del L[i]
                                return None
                            return i
                    it.raise_('ValueError', 'x not in list')
                return N(find)
            if name == 'count':
                return N(lambda x: _count(it, L, x))
            if name == 'sort':
                def sort(key=None, reverse=False):
                    keys = [it.call(key, [x], {}) if key else x for x in L]
                    if not all(_conc(k) for k in keys):
                        L[:] = stable_sort(it, list(L), keys, reverse)
                        return
                    idx = sorted(range(len(L)), key=lambda i: to_py(keys[i]), reverse=reverse)
                    L[:] = [L[i] for i in idx]
                return N(sort)
        if isinstance(v, tuple):
            if name == 'count':
                return N(lambda x: _count(it, list(v), x))
            if name == 'index':
                def tindex(x):
                    for i, y in enumerate(v):
                        e = it.eq(x, y)
                        if e is True or (e is not False and it.ctx.choose(it.as_bool_term(e))):
                            return i
                    it.raise_('ValueError', 'not in tuple')
                return N(tindex)
        if isinstance(v, VDict):
            D = v.d
            if name == 'get':
                return N(lambda k, default=None: it.dict_get(v, k, lambda: default))
            if name == 'setdefault':
                def setdefault(k, default=None):
                    def missing():
                        it.setitem(v, k, default)
                        return default
                    return it.dict_get(v, k, missing)
                return N(setdefault)
            if name == 'items':
                return N(lambda: VList([(k, x) for k, x in D.items()]))
            if name == 'keys':
                return N(lambda: VList(list(D.keys())))
            if name == 'values':
                return N(lambda: VList(list(D.values())))
            if name == 'copy':
                return N(lambda: VDict(D, v.default_factory))
            if name == 'update':
                def update(o=None, **kw):
                    if isinstance(o, VDict):
                        D.update(o.d)
                    elif o is not None:
                        for kv in it.iterate(o):
                            k, x = list(it.iterate(kv))
                            it.setitem(v, k, x)
                    D.update(kw)
                return N(update)
            if name == 'pop':
                def dpop(k, default=NOTFOUND):
                    if it.ctx.choose(it.as_bool_term(it.dict_has(v, k))):
                        r = it.getitem(v, k)
                        it.delitem(v, k)
                        return r
                    if default is NOTFOUND:
                        it.raise_('KeyError', repr(k))
                    return default
                return N(dpop)
        if isinstance(v, VSet):
            S = v.items
            if name == 'add':
                def add(x):
                    c = it.contains(v, x)
                    if c is True:
                        return
                    if c is not False and it.ctx.choose(it.as_bool_term(c)):
                        return
                    S.append(x)
                return N(add)
            if name in ('discard', 'remove'):
                def discard(x):
                    for i, y in enumerate(S):
                        e = it.eq(x, y)
                        if e is True or (e is not False and it.ctx.choose(it.as_bool_term(e))):
                            del S[i]
                            return
                    if name == 'remove':
                        it.raise_('KeyError', repr(x))
                return N(discard)
            if name == 'update':
                def supdate(o):
                    for x in it.iterate(o):
                        it.call(self.method(v, 'add'), [x], {})
                return N(supdate)
            if name == 'copy':
                return N(lambda: VSet(S))
        if isinstance(v, str):
            if name == 'join':
                def join(xs):
                    parts = list(it.iterate(xs))
                    if all(isinstance(p, str) for p in parts):
                        return v.join(parts)
                    if v == '' and all(isinstance(p, (str, DigitStr, DigitString)) for p in parts):
                        ds = DigitString.of(parts)
                        if ds is not None:
                            return ds
                    if it.string_mode:
                        out = []
                        for i, p in enumerate(parts):
                            if i:
                                out.append(v)
                            out.append(p)
                        return self.str_concat(out) if out else ''
                    return Opaque('joined')
                return N(join)
            if name in ('upper', 'lower', 'strip', 'startswith', 'endswith', 'split', 'zfill', 'replace', 'find', 'isdigit',
                        'lstrip', 'rstrip', 'format', 'encode', 'isidentifier', 'count', 'index', 'rjust', 'ljust', 'title'):
                def strm(*a, **k):
                    if all(isinstance(x, (str, int, tuple, type(None))) for x in a):
                        r = getattr(v, name)(*a, **k)
                        return VList(r) if isinstance(r, list) else r
                    raise Unsupported('str method with symbolic argument')
                return N(strm)
        if isinstance(v, Sym) and v.is_str():
            return self.symstr_method(v, name)
        if isinstance(v, (bytearray, bytes)):
            if name == 'append':
                return N(lambda x: v.append(x))
            if name in ('decode', 'hex'):
                return N(lambda *a, **k: getattr(v, name)(*a, **k))
        if isinstance(v, float):
            if name == 'is_integer':
                return N(lambda: v.is_integer())
        if isinstance(v, int) and not isinstance(v, bool):
            if name == 'bit_length':
                return N(lambda: v.bit_length())
        if isinstance(v, UuidV) and name == 'hex':
            return v.value if v.value is not None else UuidHex()
        if isinstance(v, GenV):
            pass
        return NOTFOUND

    def symstr_method(self, v, name):
        it = self.it
        N = lambda fn: Native(name, fn, needs_interp=False)
        st = lambda x: x.t if isinstance(x, Sym) else z3.StringVal(x)
        if name == 'startswith':
            return N(lambda p: Sym(z3.PrefixOf(st(p), v.t)))
        if name == 'endswith':
            return N(lambda p: Sym(z3.SuffixOf(st(p), v.t)))
        if name == 'find':
            return N(lambda p: Sym(z3.IndexOf(v.t, st(p), 0)))
        if name in ('upper', 'lower'):
            return N(lambda: Sym(str_case(v.t, name)))
        if name in ('strip', 'lstrip', 'rstrip'):
            def strip(chars=' \t\n\r\x0b\x0c'):
                if not isinstance(chars, str) or not chars:
                    raise Unsupported('strip with symbolic character set')
                ctx = it.ctx
                cls = z3.Union(*[z3.Re(c) for c in chars]) if len(chars) > 1 else z3.Re(chars)
                pre, mid, post = ctx.fresh(z3.StringSort(), 'pre'), ctx.fresh(z3.StringSort(), 'mid'), ctx.fresh(z3.StringSort(), 'post')
                # python: remove the longest prefix / suffix made of `chars` (axiom of str.strip, differentially tested)
                ctx.assume(v.t == z3.Concat(pre, mid, post))
                ctx.assume(z3.InRe(pre, z3.Star(cls)) if name != 'rstrip' else pre == z3.StringVal(''))
                ctx.assume(z3.InRe(post, z3.Star(cls)) if name != 'lstrip' else post == z3.StringVal(''))
                notin = lambda ch: z3.Not(z3.InRe(ch, cls))
                if name != 'rstrip':
                    ctx.assume(z3.Or(z3.Length(mid) == 0, notin(z3.SubString(mid, 0, 1))))
                if name != 'lstrip':
                    ctx.assume(z3.Or(z3.Length(mid) == 0, notin(z3.SubString(mid, z3.Length(mid) - 1, 1))))
                return Sym(mid)
            return N(strip)
        raise Unsupported('symbolic str.' + name)

    # ------------------------------------------------------------------ stub modules -------
    def stub_module(self, modname):
        m = ModuleV(modname, None)
        m.loaded = True
        return m

    def stub_attr(self, m, name):
        key = (m.name, name)
        if key not in self.stubs:
            self.stubs[key] = self._stub_attr(m.name, name)
        return self.stubs[key]

    def _stub_attr(self, mod, name):
        it = self.it
        N = lambda fn, needs=False: Native(mod + '.' + name, fn, needs_interp=needs)
        if mod in ('typing', 'typing_extensions'):
            if name == 'cast':
                return N(lambda t, v: v)
            if name == 'TYPE_CHECKING':
                return False
            if name in ('Protocol', 'Generic'):
                return ClassV(name, [], {})
            if name == 'runtime_checkable':
                return N(lambda c: c)
            return Opaque('typing.' + name)
        if mod == 'functools':
            if name == 'reduce':
                def reduce(f, seq, init=NOTFOUND):
                    if type(seq).__name__ == 'SymSeq':
                        return _reduce_symbolic(it, f, seq, init)
                    items = list(it.iterate(seq))
                    if init is NOTFOUND:
                        if not items:
                            it.raise_('TypeError', 'reduce() of empty iterable with no initial value')
                        acc, items = items[0], items[1:]
                    else:
                        acc = init
                    for x in items:
                        acc = it.call(f, [acc, x], {})
                    return acc
                return N(reduce)
            if name in ('wraps',):
                return N(lambda f: Native('wraps', lambda g: g))
            if name in ('cache', 'lru_cache'):
                return N(lambda f=None, **k: f)
        if mod == 'itertools':
            conc = lambda x: list(it.iterate(x))
            if name == 'product':
                return N(lambda *xs, repeat=1: GenV(iter([tuple(t) for t in itertools.product(*[conc(x) for x in xs], repeat=_need_int(repeat))])))
            if name == 'combinations':
                return N(lambda x, r: GenV(iter([tuple(t) for t in itertools.combinations(conc(x), _need_int(r))])))
            if name == 'permutations':
                return N(lambda x, r=None: GenV(iter([tuple(t) for t in itertools.permutations(conc(x), r)])))
            if name == 'zip_longest':
                return N(lambda *xs, fillvalue=None: GenV(iter([tuple(t) for t in itertools.zip_longest(*[conc(x) for x in xs], fillvalue=fillvalue)])))
            if name == 'chain':
                return N(lambda *xs: GenV(iter([v for x in xs for v in conc(x)])))
        if mod == 'collections':
            if name == 'defaultdict':
                return N(lambda f=None, *a: VDict(default_factory=f))
            if name == 'OrderedDict':
                return N(lambda *a: VDict())
            if name == 'deque':
                return N(lambda x=(): VList(list(it.iterate(x))))
        if mod == 'copy':
            if name in ('copy', 'deepcopy'):
                def copy_(x, memo=None):
                    if isinstance(x, VList):
                        return VList(x.items) if name == 'copy' else VList([copy_(i) for i in x.items])
                    if isinstance(x, VDict):
                        return VDict(x.d, x.default_factory)
                    if isinstance(x, VSet):
                        return VSet(x.items)
                    if isinstance(x, (tuple, str, int, type(None), Sym, EnumMember)):
                        return x
                    if isinstance(x, Obj):
                        f = x.cls.lookup('__copy__') if name == 'copy' else x.cls.lookup('__deepcopy__')
                        if f is not NOTFOUND:
                            return it.call(f, [x] if name == 'copy' else [x, VDict()], {})
                        if name == 'deepcopy':          # generic deep copy of an instance: same class, fields copied deeply
                            return Obj(x.cls, {k: copy_(v) for k, v in x.fields.items()})
                    if hasattr(x, 'm_copy'):
                        return x.m_copy(it)
                    raise Unsupported(f'copy.{name} of {type(x).__name__}')
                return N(copy_)
        if mod == 'io' and name == 'StringIO':
            def string_io(text=''):
                if not isinstance(text, str):
                    raise Unsupported('StringIO of a symbolic string')
                return VList(text.splitlines(keepends=True))       # only iterated line by line (with … as s: for line in s)
            return N(string_io)
        if mod == 'uuid' and name == 'uuid4':
            return N(lambda: UuidV())
        if mod == 'logging':
            if name == 'getLogger':
                return N(lambda *a: Opaque('logger'))
            return Opaque('logging.' + name)
        if mod == 'enum':
            if name in ('Enum', 'IntEnum'):
                return ENUM_BASE
            if name == 'auto':
                cnt = [0]

                def auto():
                    cnt[0] += 1
                    return cnt[0]
                return N(auto)
        if mod == 'dataclasses':
            if name == 'dataclass':
                def dataclass(cls=None, **kw):
                    def apply(c):
                        c.dataclass = 'frozen' if kw.get('frozen') else 'plain'
                        c.dataclass_eq = bool(kw.get('eq', True))
                        return c
                    return apply(cls) if cls is not None else Native('dataclass()', apply)
                return N(dataclass)
            if name == 'field':
                return N(lambda **k: k.get('default', NOTFOUND))
        if mod == 'more_itertools' and name == 'consume':
            return N(lambda x: [None for _ in it.iterate(x)] and None)
        if mod == 'abc':
            if name == 'ABC':
                return ClassV('ABC', [], {})
            if name == 'abstractmethod':
                return N(lambda f: f)
            if name == 'ABCMeta':
                return Opaque('ABCMeta')
        if mod == 'math':
            import math
            if name in ('ceil', 'floor', 'log2', 'sqrt', 'inf'):
                v = getattr(math, name)
                if callable(v):
                    def mf(x, _v=v):
                        if _conc(x):
                            return _v(x)
                        raise Unsupported('math.' + name + ' symbolic')
                    return N(mf)
                return v
        if mod == 'operator':
            if name == 'itemgetter':
                return N(lambda *idx: Native('itemgetter', (lambda seq, idx=idx: it.getitem(seq, idx[0]) if len(idx) == 1 else tuple(it.getitem(seq, i) for i in idx))))
            import operator as _op
            if name in ('and_', 'or_', 'xor', 'add', 'mul', 'sub'):
                node = {'and_': ast.BitAnd, 'or_': ast.BitOr, 'xor': ast.BitXor, 'add': ast.Add, 'mul': ast.Mult, 'sub': ast.Sub}[name]()
                return N(lambda a, b, node=node: it.binop(node, a, b))
        if mod == 'sortedcontainers' and name == 'SortedList':
            return N(lambda x=(): _sorted_list(it, x))
        return Opaque(mod + '.' + name)


class UuidHex:
    pass


class SuperProxy:
    """super(cls, obj): attribute lookup continues after `cls` in the (linearised) bases of type(obj)"""

    def __init__(self, cls, obj):
        self.cls, self.obj = cls, obj


StrUpperAtom = z3.Function('str_upper_atom', z3.StringSort(), z3.StringSort())
StrLowerAtom = z3.Function('str_lower_atom', z3.StringSort(), z3.StringSort())


def str_case(t, which):
    """str.upper / str.lower distribute over concatenation; constants are folded; symbolic atoms stay abstract"""
    t = z3.simplify(t)
    if z3.is_string_value(t):
        sv = t.as_string()
        return z3.StringVal(sv.upper() if which == 'upper' else sv.lower())
    if z3.is_app(t) and t.decl().kind() == z3.Z3_OP_SEQ_CONCAT:
        return z3.Concat(*[str_case(t.arg(i), which) for i in range(t.num_args())])
    return (StrUpperAtom if which == 'upper' else StrLowerAtom)(t)


def sym_less(it, a, b):
    """python `a < b` for ints / bools / lists / tuples thereof with symbolic components: forks on the first
    differing component (lexicographic order)"""
    la = a.items if isinstance(a, VList) else (list(a) if isinstance(a, tuple) else None)
    lb = b.items if isinstance(b, VList) else (list(b) if isinstance(b, tuple) else None)
    if la is not None and lb is not None:
        for x, y in zip(la, lb):
            e = it.eq(x, y)
            if e is True or (e is not False and it.ctx.choose(it.as_bool_term(e))):
                continue
            return sym_less(it, x, y)
        return len(la) < len(lb)
    if la is not None or lb is not None:
        raise Unsupported('comparison of sequence with scalar')
    if _conc(a) and _conc(b):
        return a < b
    return it.ctx.choose(it.int_term(a) < it.int_term(b))


def stable_sort(it, items, keys, reverse=False):
    """insertion sort (stable) by symbolic comparisons; every outcome of the comparisons is a path"""
    if len(items) > 4:
        raise Unsupported('sort of more than 4 symbolic keys')
    order = []
    for i in range(len(items)):
        j = len(order)
        while j > 0 and (sym_less(it, keys[i], keys[order[j - 1]]) if not reverse else sym_less(it, keys[order[j - 1]], keys[i])):
            j -= 1
        order.insert(j, i)
    return [items[i] for i in order]


LabelLE = z3.Function('label_le', LabelSort, LabelSort, z3.BoolSort())


def label_order_axioms():
    """python string comparison restricted to labels: some total order (which one is irrelevant)"""
    a, b, c = z3.Consts('a!lo b!lo c!lo', LabelSort)
    return [z3.ForAll([a], LabelLE(a, a)),
            z3.ForAll([a, b], z3.Implies(z3.And(LabelLE(a, b), LabelLE(b, a)), a == b)),
            z3.ForAll([a, b, c], z3.Implies(z3.And(LabelLE(a, b), LabelLE(b, c)), LabelLE(a, c))),
            z3.ForAll([a, b], z3.Or(LabelLE(a, b), LabelLE(b, a)))]


def sorted_labels(it, terms):
    """sorted(<labels>): fresh labels constrained to be a permutation of the arguments that is ascending in the
    (uninterpreted, total) label order. Axiom of `sorted` (DESIGN §3.5), checked differentially against CPython."""
    import itertools as _it
    n = len(terms)
    if n > 4:
        raise Unsupported('sorted of more than 4 symbolic labels')
    ctx = it.ctx
    if not getattr(ctx, 'label_order', False):
        for ax in label_order_axioms():
            ctx.assume(ax)
        ctx.label_order = True
    out = [ctx.fresh(LabelSort, 'sorted') for _ in range(n)]
    perms = []
    for p in _it.permutations(range(n)):
        perms.append(z3.And([out[i] == terms[p[i]] for i in range(n)]) if n else z3.BoolVal(True))
    if n:
        ctx.assume(z3.Or(perms))
    for i in range(n - 1):
        ctx.assume(LabelLE(out[i], out[i + 1]))
    return [Sym(t) for t in out]


class PartialLabel:
    """string built from label pieces that is not (yet) a label of its own: becomes an arbitrary label once a
    uuid suffix is appended; any other use is outside the subset"""

    def __init__(self, parts):
        self.parts = list(parts)


def _reduce_symbolic(it, f, seq, init):
    """functools.reduce over a symbolic-length sequence: fold induction (rule R3). The sequence object
    carries the fold invariant: seq.fold_inv(it, acc, k) -> [(name, z3 Bool)], seq.fold_havoc(it) -> acc"""
    from .models import PathEnd
    inv = getattr(seq, 'fold_inv', None)
    if inv is None:
        raise Unsupported('reduce over symbolic sequence without fold invariant')
    items = list(seq.prefix)
    if init is NOTFOUND:
        if not items:
            raise Unsupported('reduce over symbolic sequence with empty prefix and no initial value')
        acc, items = items[0], items[1:]
    else:
        acc = init
    for x in items:
        acc = it.call(f, [acc, x], {})
    ctx = it.ctx
    for nm, g in inv(it, acc, z3.IntVal(0)):
        ctx.check('fold/base/' + nm, g)
    which = ctx.fresh(z3.BoolSort(), 'foldcut')
    if ctx.choose(which):
        k = ctx.fresh(z3.IntSort(), 'k')
        ctx.assume(k >= 0)
        ctx.assume(k < seq.n)
        acc_k = seq.fold_havoc(it)
        for nm, g in inv(it, acc_k, k):
            ctx.assume(g)
        # frame condition: the step may not carry state besides the accumulator (a pre-existing container it mutates, an
        # enclosing variable it re-binds) - rule R3 would not see it
        from .interp import Barrier, env_chain
        from .values import tick
        b = Barrier('the step of a fold over a symbolic sequence (rule R3)', tick(), [id(e) for e in env_chain(getattr(f, 'env', None))], set())
        it.barriers.append(b)
        try:
            acc2 = it.call(f, [acc_k, seq.elem(k)], {})
        finally:
            it.barriers.remove(b)
        for nm, g in inv(it, acc2, k + 1):
            ctx.check('fold/step/' + nm, g)
        raise PathEnd()
    acc_n = seq.fold_havoc(it)
    for nm, g in inv(it, acc_n, seq.n):
        ctx.assume(g)
    return acc_n


class DigitStr:
    """str(i) for a symbolic int i (label mode): only usable inside NumberedLabel."""

    def __init__(self, sym):
        self.sym = sym


class DigitString:
    """a python str made only of decimal digit characters, some of them symbolic (str(int(b)) for a symbolic b):
    list of python digit chars and int terms in [0, 9]"""

    def __init__(self, digits):
        self.digits = list(digits)

    @staticmethod
    def of(parts):
        out = []
        for p in parts:
            if isinstance(p, str):
                if not all(c in '0123456789' for c in p):
                    return None
                out.extend(p)
            elif isinstance(p, DigitStr):
                out.append(p.sym)
            elif isinstance(p, DigitString):
                out.extend(p.digits)
            else:
                return None
        return DigitString(out)


class NumberedLabel:
    """prefix + str(i) (+ suffix): an injective family of labels indexed by an int term."""
    _funcs = {}

    def __init__(self, parts):
        self.parts = parts

    def to_sym(self, it):
        shape = tuple(p if isinstance(p, str) else '{}' for p in self.parts)
        idx = [p.sym for p in self.parts if isinstance(p, DigitStr)]
        if len(idx) != 1:
            raise Unsupported('label with several numeric holes')
        f = NumberedLabel._funcs.get(shape)
        if f is None:
            f = z3.Function('numlabel:' + ''.join(shape), z3.IntSort(), LabelSort)
            NumberedLabel._funcs[shape] = f
        return Sym(f(it.int_term(idx[0])))


class SortedListModel:
    """sortedcontainers.SortedList of tuples whose leading components are concrete ints and whose other components
    are labels: kept ascending; ties between labels are decided by the (uninterpreted, total) label order, i.e. the
    execution forks on the comparison — every order python's string comparison could produce is explored."""

    def __init__(self, it, items=()):
        self.items = []
        for x in items:
            self.add(it, x)

    def _lt(self, it, a, b):
        """a < b for tuples (python semantics: first differing component decides)"""
        for x, y in zip(a, b):
            if isinstance(x, int) and isinstance(y, int):
                if x != y:
                    return x < y
                continue
            if isinstance(x, str) and isinstance(y, str):
                if x != y:
                    return x < y
                continue
            e = it.eq(x, y)
            if e is True:
                continue
            if e is not False and it.ctx.choose(it.as_bool_term(e)):
                continue
            if not getattr(it.ctx, 'label_order', False):
                for ax in label_order_axioms():
                    it.ctx.assume(ax)
                it.ctx.label_order = True
            return it.ctx.choose(LabelLE(it.label_term(x), it.label_term(y)))
        return len(a) < len(b)

    def add(self, it, x):
        x = tuple(it.iterate(x)) if not isinstance(x, tuple) else x
        i = 0
        while i < len(self.items) and not self._lt(it, x, self.items[i]):
            i += 1
        self.items.insert(i, x)

    def discard(self, it, x):
        for i, y in enumerate(self.items):
            e = it.eq(x, y)
            if e is True or (e is not False and it.ctx.choose(it.as_bool_term(e))):
                del self.items[i]
                return


def _sorted_list(it, x):
    from .interp import Model

    class SL(Model):
        def __init__(self_, items):
            self_.sl = SortedListModel(it, items)

        def m_len(self_, it_):
            return len(self_.sl.items)

        def m_getitem(self_, it_, k):
            if not isinstance(k, int):
                raise Unsupported('SortedList index')
            if k >= len(self_.sl.items) or k < -len(self_.sl.items):
                it_.raise_('IndexError', 'list index out of range')
            return self_.sl.items[k]

        def m_iter(self_, it_):
            yield from list(self_.sl.items)

        def m_getattr(self_, it_, name):
            if name == 'add':
                return Native('SortedList.add', lambda v: self_.sl.add(it_, v))
            if name == 'discard':
                return Native('SortedList.discard', lambda v: self_.sl.discard(it_, v))
            raise Unsupported('SortedList.' + name)
    return SL(list(it.iterate(x)))


def to_py(v):
    if isinstance(v, VList):
        return [to_py(x) for x in v.items]
    if isinstance(v, tuple):
        return tuple(to_py(x) for x in v)
    return v


def _need_int(x):
    if isinstance(x, int):
        return x
    raise Unsupported('symbolic repeat/r in itertools')


def _conc(v):
    if isinstance(v, Sym):
        return False
    if isinstance(v, (tuple,)):
        return all(_conc(x) for x in v)
    if isinstance(v, VList):
        return all(_conc(x) for x in v.items)
    return True


def _count(it, items, x):
    acc = 0
    terms = []
    for y in items:
        e = it.eq(x, y)
        if e is True:
            acc += 1
        elif e is not False:
            terms.append(z3.If(it.as_bool_term(e), 1, 0))
    if terms:
        return Sym(z3.Sum(terms) + acc)
    return acc


def _pow2_scaled(t):
    """if t is  b * 2^k  (k concrete or pow2(e)) with b an If(cond,1,0), return the scale 2^k, else None"""
    t = z3.simplify(t)
    try:
        if z3.is_app(t) and t.decl().kind() == z3.Z3_OP_MUL and t.num_args() == 2:
            a, b = t.arg(0), t.arg(1)
            for c, v in ((a, b), (b, a)):
                if _is_01(v) and (z3.is_int_value(c) and c.as_long() > 0 and (c.as_long() & (c.as_long() - 1)) == 0 or _is_pow2_term(c)):
                    return c
        if z3.is_app(t) and t.decl().kind() == z3.Z3_OP_ITE:
            a, b = t.arg(1), t.arg(2)
            if z3.is_int_value(b) and b.as_long() == 0 and z3.is_int_value(a) and a.as_long() > 0 and (a.as_long() & (a.as_long() - 1)) == 0:
                return a
            if z3.is_int_value(a) and a.as_long() == 0 and z3.is_int_value(b) and b.as_long() > 0 and (b.as_long() & (b.as_long() - 1)) == 0:
                return b
        if _is_01(t):
            return z3.IntVal(1)
    except Exception:
        return None
    return None


def _is_01(v):
    v = z3.simplify(v)
    if z3.is_app(v) and v.decl().kind() == z3.Z3_OP_ITE:
        a, b = v.arg(1), v.arg(2)
        return z3.is_int_value(a) and z3.is_int_value(b) and {a.as_long(), b.as_long()} <= {0, 1}
    return False


def _is_pow2_term(t):
    try:
        return z3.is_app(t) and t.decl().name() == 'pow2'
    except Exception:
        return False

"""Obligation generation for one function against its contract and reporting (DESIGN §3.1, §3.8).

A contract is a python object with
    setup(it, ctx)           -> (args, kwargs, st)   symbolic inputs; preconditions via ctx.assume
    post(it, ctx, result, st)-> iterable of (clause, goal)      on normal return
    on_raise(it, ctx, exc, st) -> iterable of (clause, goal)    on exceptional exit (default: must not happen)
    inputs(st)               -> dict name -> z3 const            (for counter-model extraction)
    replay(values)           -> (ok: bool, detail: str) | None   native re-execution of a counter-model
"""
import time
import os
import traceback
import z3

from .interp import explore, Ctx
from .values import Unsupported, Obj, Sym, PyRaise
from . import solve


class Contract:
    name = ''
    relpath = ''
    qualname = ''
    strings = False
    frame_fields = ()       # (class name, attribute): concrete attributes of pre-existing objects the postcondition describes

    def setup(self, it, ctx):
        raise NotImplementedError

    def post(self, it, ctx, result, st):
        return []

    def on_raise(self, it, ctx, exc, st):
        cname = exc.cls.name if isinstance(exc, Obj) else repr(exc)
        return [('no-raise', z3.BoolVal(False), {'raised': cname})]

    def inputs(self, st):
        return {}

    def replay(self, values):
        return None

    def background(self, it):
        return []


class Prover:
    def __init__(self, report, it, prop):
        self.report = report
        self.it = it
        self.prop = prop
        self.jobs = []          # (name, smt2, strings)
        self.guards = []        # (name, smt2, strings, 'guard'): vacuity guards, not obligations
        self.meta = {}          # name -> dict(contract, clause, hyps, goal, inputs, path)
        self.n_paths = 0

    def run_contract(self, c, label=None):
        it = self.it
        label = label or c.name
        try:
            fv = it.get_function(c.relpath, c.qualname) if c.relpath else None
        except Unsupported as u:
            self.report.add_obligation(f'{self.prop}/{label}/vcgen', c.qualname, 'undecided', 'pyvc', 0.0, 'UNSUPPORTED ' + str(u))
            return
        if fv is not None:
            qn = c.relpath + '::' + c.qualname
            info = it.function_info(fv)
            info.setdefault('obligations', 0)
            if qn in self.report.functions:
                info = self.report.functions[qn]
            self.report.add_function(qn, info)
        holder = {}

        def run(ctx):
            it.ctx = ctx
            it.depth = 0
            args, kwargs, st = c.setup(it, ctx)
            holder['st'] = st
            holder['ctx'] = ctx
            st_ref = st
            from .values import tick
            ctx.t_setup = tick()
            try:
                res = c.execute(it, fv, args, kwargs) if hasattr(c, 'execute') else it.call_function(fv, args, kwargs, force_inline=True)
            except PyRaise as r:
                ctx._outcome = ('raise', r.exc, st_ref)
                raise
            except Exception as e:
                if type(e).__name__ == 'PathEnd':
                    ctx._outcome = ('cut', None, st_ref)
                raise
            ctx._outcome = ('return', res, st_ref)
            return res

        try:
            paths = explore(run)
        except Unsupported as u:
            self.report.add_obligation(f'{self.prop}/{label}/vcgen', c.qualname, 'undecided', 'pyvc', 0.0, 'UNSUPPORTED ' + str(u))
            return
        except Exception as e:      # encoder crash: checker error, never a violation
            self.report.error(f'{label}: pyvc crashed: {e!r}\n{traceback.format_exc()[-1500:]}')
            return
        k = 0
        any_live = False
        for ctx, out in paths:
            k += 1
            self.n_paths += 1
            it.ctx = ctx
            if out[0] == 'unsupported':
                self.report.add_obligation(f'{self.prop}/{label}/vcgen/path{k}', c.qualname, 'undecided', 'pyvc', 0.0, 'UNSUPPORTED ' + out[1])
                continue
            # frame clause of every contract (rule R4 is only sound with it): an attribute of an object that exists
            # before the call may be assigned only if the contract describes it - it holds an abstract model (the
            # circuit heap) or the contract lists it in `frame_fields`; a new or undescribed attribute is state that
            # callers reasoning by this contract would not see change
            alien = sorted({(cn, f) for (cn, f, was_model, existed) in ctx.field_writes
                            if not was_model and (cn, f) not in getattr(c, 'frame_fields', ())})
            if ctx.static_writes:
                self.report.add_obligation(f'{self.prop}/{label}/frame/path{k}', c.qualname, 'undecided', 'pyvc', 0.0,
                                           'UNSUPPORTED frame clause: ' + '; '.join(sorted(set(ctx.static_writes))) +
                                           ' (state that outlives the call and that the contract does not describe)')
                continue
            if alien:
                self.report.add_obligation(f'{self.prop}/{label}/frame/path{k}', c.qualname, 'undecided', 'pyvc', 0.0,
                                           'UNSUPPORTED frame clause: the function assigns ' + ', '.join(f'{cn}.{f}' for cn, f in alien) +
                                           ' on an object that exists before the call; the contract does not describe that attribute')
                continue
            oc = getattr(ctx, '_outcome', None)
            if oc is None:
                self.report.error(f'{label}: path without outcome')
                continue
            st = oc[2]
            try:
                if out[0] == 'return':
                    goals = list(c.post(it, ctx, out[1], st))
                elif out[0] == 'cut':
                    goals = []
                else:
                    goals = list(c.on_raise(it, ctx, out[1], st))
            except Unsupported as u:
                self.report.add_obligation(f'{self.prop}/{label}/post/path{k}', c.qualname, 'undecided', 'pyvc', 0.0, 'UNSUPPORTED ' + str(u))
                continue
            goals = [(g + ({},))[:3] if len(g) == 2 else g for g in goals]
            # obligations recorded during execution (asserts, implicit checks of models)
            for (nm, pc, goal, meta) in ctx.obligations:
                self._add(f'{self.prop}/{label}/{nm}/path{k}', c, pc, goal, st, meta)
                any_live = True
            for clause, goal, meta in goals:
                self._add(f'{self.prop}/{label}/{clause}/path{k}', c, list(ctx.pc), goal, st, meta)
                any_live = True
        # vacuity guard: `False` must not follow from the hypotheses of (the longest) normally ending path of this contract
        best = None
        for idx, (ctx, out) in enumerate(paths):
            if out[0] in ('return', 'cut') and (best is None or len(ctx.pc) > len(best[1].pc)):
                best = (idx + 1, ctx)
        if best is not None and any_live:
            hyps = list(best[1].pc) + it.background() + list(c.background(it))
            self.guards.append((f'{self.prop}/{label}/vacuity-guard/path{best[0]}', solve.to_smt2(hyps, z3.BoolVal(False)), c.strings, 'guard'))
        if fv is not None:
            self.report.functions[c.relpath + '::' + c.qualname]['obligations'] = \
                self.report.functions[c.relpath + '::' + c.qualname].get('obligations', 0) + sum(1 for n in self.meta if f'/{label}/' in n)
        if not any_live and not any(out[0] == 'unsupported' for _, out in paths):
            self.report.error(f'{label}: contract generated no obligation (vacuous)')

    def _add(self, name, c, pc, goal, st, meta):
        it = self.it
        if isinstance(goal, bool):
            goal = z3.BoolVal(goal)
        base = name
        i = 1
        while name in self.meta:
            i += 1
            name = f'{base}#{i}'
        hyps = list(pc) + it.background() + list(c.background(it))
        g = z3.simplify(goal)
        self.meta[name] = {'contract': c, 'hyps': hyps, 'goal': goal, 'st': st, 'meta': meta}
        if z3.is_true(g):
            self.meta[name]['trivial'] = True
            return
        self.jobs.append((name, solve.to_smt2(hyps, goal), c.strings))

    def add_raw(self, name, function, hyps, goal, contract=None, st=None, strings=False, meta=None):
        """An obligation built directly by a property module (tables, lemmas over extracted constants)."""
        c = contract or Contract()
        base, i = name, 1
        while name in self.meta:
            i += 1
            name = f'{base}#{i}'
        self.meta[name] = {'contract': c, 'hyps': list(hyps), 'goal': goal, 'st': st, 'meta': meta or {}, 'function': function}
        self.jobs.append((name, solve.to_smt2(list(hyps), goal), strings))

    # ---- heavy contracts: generate their VCs in a forked child while the parent goes on -------------
    def start_child(self, make_contract, prepare=None):
        """fork a child that runs one contract and sends back its jobs as SMT-LIB text (z3 terms do not pickle)"""
        import multiprocessing as mp
        ctx = mp.get_context('fork')
        parent, child = ctx.Pipe(False)

        def work(conn):
            try:
                from ..report import Report
                rep = Report(self.prop, self.report.level)
                sub = Prover(rep, self.it, self.prop)
                if prepare is not None:
                    prepare(self.it)
                sub.run_contract(make_contract())
                trivial = [n for n, m in sub.meta.items() if m.get('trivial')]
                metas = {n: {'function': m.get('function') or m['contract'].qualname, 'witness': (m.get('meta') or {}).get('witness', 'counter-model')} for n, m in sub.meta.items()}
                conn.send({'jobs': sub.jobs, 'guards': sub.guards, 'trivial': trivial, 'metas': metas, 'functions': rep.functions,
                           'obligations': rep.obligations, 'errors': rep.errors, 'paths': sub.n_paths})
            except Exception as e:      # noqa
                import traceback
                conn.send({'crash': repr(e) + traceback.format_exc()[-1500:]})
            finally:
                conn.close()
        pr = ctx.Process(target=work, args=(child,))
        pr.start()
        child.close()
        self._children = getattr(self, '_children', []) + [(pr, parent)]

    def join_children(self):
        for pr, conn in getattr(self, '_children', []):
            try:
                msg = conn.recv()
            except EOFError:
                msg = {'crash': 'child ended without result'}
            pr.join()
            if 'crash' in msg:
                self.report.error('child VC generation crashed: ' + msg['crash'])
                continue
            for q, info in msg['functions'].items():
                self.report.add_function(q, info)
            for o in msg['obligations']:          # undecided vcgen entries recorded by the child
                self.report.add_obligation(o['name'], o['function'], o['status'], o['backend'], o['seconds'], o.get('detail'))
            for e in msg['errors']:
                self.report.error(e)
            self.n_paths += msg['paths']
            self.guards += msg.get('guards', [])
            for name in msg['trivial']:
                self.meta[name] = {'contract': Contract(), 'hyps': [], 'goal': z3.BoolVal(True), 'st': None, 'meta': {'witness': msg['metas'][name]['witness']},
                                   'function': msg['metas'][name]['function'], 'trivial': True}
            for (name, text, strings) in msg['jobs']:
                self.meta[name] = {'contract': Contract(), 'hyps': [], 'goal': z3.BoolVal(True), 'st': None, 'meta': {'witness': msg['metas'][name]['witness']},
                                   'function': msg['metas'][name]['function'], 'from_child': True}
                self.jobs.append((name, text, strings))
        self._children = []

    def discharge(self, nproc=16):
        self.join_children()
        res = solve.discharge_all(self.jobs, nproc=nproc)
        gres = solve.discharge_all(self.guards, nproc=nproc)          # own pool call: one guard per task, no queueing behind obligation chunks
        bad = []
        for g in self.guards:
            st = gres.get(g[0])
            if st is not None and st[0] == 'proved':
                bad.append(g[0])
                self.report.error(f'{g[0]}: the hypotheses of this contract path are contradictory (every obligation on it holds vacuously)')
        vg = self.report.extra.setdefault('vacuity_guards', {'checked': 0, 'contradictory': []})
        vg['checked'] += len(self.guards)
        vg['contradictory'] += bad
        vg['rule'] = 'per contract: False must not be provable from the hypotheses of its longest normally ending path (short solver budget)'
        self.guards = []
        refuted = []
        for name, m in self.meta.items():
            c = m['contract']
            fn = m.get('function') or c.qualname
            if m.get('trivial'):
                self.report.add_obligation(name, fn, 'proved', 'simplifier', 0.0)
                continue
            st, be, dt, model, why = res[name]
            smt = None
            if st == 'proved' and len(self.report.samples) < 3 and not m.get('from_child'):
                smt = solve.to_smt2(m['hyps'], m['goal'])
            self.report.add_obligation(name, fn, st, be, dt, detail=(why or None) if st != 'proved' else None, smt=smt)
            if st == 'refuted':
                refuted.append((name, m, model))
        return refuted

    def counter_values(self, m):
        """Re-solve in-process to obtain concrete values for the contract's declared inputs."""
        c = m['contract']
        if m.get('from_child'):
            return None, None
        try:
            ins = c.inputs(m['st']) if m['st'] is not None else {}
        except Exception:
            ins = {}
        s = z3.Solver()
        s.set('timeout', 5000)
        for h in m['hyps']:
            s.add(h)
        s.add(z3.Not(m['goal']))
        if s.check() != z3.sat:
            return None, None
        mdl = s.model()
        vals = {}
        for k, t in ins.items():
            try:
                if isinstance(t, (list, tuple)):
                    vals[k] = [_pyval(mdl.eval(x, model_completion=True)) for x in t]
                else:
                    vals[k] = _pyval(mdl.eval(t, model_completion=True))
            except Exception as e:
                vals[k] = f'<unreadable {e!r}>'
        return vals, mdl.sexpr()[:4000]


def _pyval(v):
    if z3.is_int_value(v):
        return v.as_long()
    if z3.is_true(v):
        return True
    if z3.is_false(v):
        return False
    if z3.is_string_value(v):
        return v.as_string()
    return str(v)

"""SMT definitions of the specification vocabulary (DESIGN §4), written from the property statements.
Cross-checked against the executable definitions of vlib/spec on every run (selfcheck())."""
import itertools
import z3
from .values import ST_F, ST_T, ST_U, StateSort

NARY = ('AND', 'OR', 'XOR', 'NAND', 'NOR', 'NXOR')


def OPz(t, a):
    """OP(t) on a python list of z3 Bool terms."""
    if t == 'AND':
        return z3.And(*a)
    if t == 'OR':
        return z3.Or(*a)
    if t == 'XOR':
        r = a[0]
        for x in a[1:]:
            r = z3.Xor(r, x)
        return r
    if t == 'NAND':
        return z3.Not(z3.And(*a))
    if t == 'NOR':
        return z3.Not(z3.Or(*a))
    if t == 'NXOR':
        return z3.Not(OPz('XOR', a))
    if t == 'GT':
        return z3.And(a[0], z3.Not(a[1]))
    if t == 'LT':
        return z3.And(z3.Not(a[0]), a[1])
    if t == 'GEQ':
        return z3.Or(a[0], z3.Not(a[1]))
    if t == 'LEQ':
        return z3.Or(z3.Not(a[0]), a[1])
    if t == 'LNOT':
        return z3.Not(a[0])
    if t == 'RNOT':
        return z3.Not(a[1])
    if t == 'LIFF':
        return a[0]
    if t == 'RIFF':
        return a[1]
    if t == 'NOT':
        return z3.Not(a[0])
    if t == 'IFF':
        return a[0]
    if t == 'ALWAYS_TRUE':
        return z3.BoolVal(True)
    if t == 'ALWAYS_FALSE':
        return z3.BoolVal(False)
    raise ValueError(t)


def step(t):
    """binary step of the fold for the n-ary types and whether the fold is negated at the end"""
    base = {'AND': 'AND', 'NAND': 'AND', 'OR': 'OR', 'NOR': 'OR', 'XOR': 'XOR', 'NXOR': 'XOR'}[t]
    neg = t in ('NAND', 'NOR', 'NXOR')
    f = {'AND': lambda p, q: z3.And(p, q), 'OR': lambda p, q: z3.Or(p, q), 'XOR': lambda p, q: z3.Xor(p, q)}[base]
    return f, neg


def state_of_bool(b):
    return z3.If(b, ST_T, ST_F)


def leq_info(x, y):
    """information order on GateState: U below F and T"""
    return z3.Or(x == ST_U, x == y)


def selfcheck():
    """SMT OP == executable OP on all argument tuples up to arity 4."""
    from ..spec.ops import OP, arity_ok, GATE_TYPES
    n = 0
    for t in GATE_TYPES:
        if t == 'INPUT':
            continue
        for ar in range(0, 5):
            if not arity_ok(t, ar):
                continue
            for vals in itertools.product((False, True), repeat=ar):
                got = z3.is_true(z3.simplify(OPz(t, [z3.BoolVal(v) for v in vals])))
                if got != bool(OP(t, list(vals))):
                    raise AssertionError(f'theory/spec mismatch on {t}{vals}')
                n += 1
    return n

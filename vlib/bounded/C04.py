"""Bounded stand-in driver for C04: SAT-based subcircuit minimisation (`minimize_subcircuits`).

The real function is run with the stand-in cut enumerator (/verif/shims/mockturtle_wrapper.py, which reproduces the
expected value of the repository's own test of the C++ extension) and the z3-backed pysat shim, always with
enable_validation=True, on seeded random circuits over the supported gate set (NOT + binary AND/NAND/OR/NOR/XOR/NXOR/
GEQ/LT/LEQ/GT = everything `_PatternOperations.eval_pattern` accepts), <= 8 gates, 2..4 inputs, 1..3 outputs, for the
bases AIG / XAIG / FULL, cut families all / shuffled:<s> / thinned:<s> (VERIF_CUT_MODE of the shim), several
(max_subcircuit_size, cut_size, cut_limit) settings, with and without solver_time_limit_sec (the latter forks a
pebble process pool per SAT call) and under several PYTHONHASHSEEDs (the function iterates over sets of labels).
Because the hash seed must be fixed for reproducibility, the cases are executed in child interpreters
(`python -m vlib.bounded.C04 --worker <job>`), sequentially in the quick tier and 16 at a time in the thorough tier.

Circuit families (the label of a case): clean (no dead gate, every input used, no two nodes with equal or complementary
truth table, no constant gate), redundant (no such restriction except no dead gate), dead (dead logic), nary (3-ary
gates), io (outputs that are inputs / repeated outputs / unused inputs / repeated operands).

Clauses (statement of C04), oracle = vlib.spec on snapshots taken before/after the call:
  no-failed-validation   never FailedValidationError (all circuits)
  no-internal-error      no other exception on circuits without functionally equivalent gates (two nodes with equal tt)
  inputs / outputs-number / truth-table / not-larger (gates_number() semantics: INPUT, NOT, LNOT, RNOT, IFF, LIFF, RIFF and
  constants are not counted) / result-wf
Witness classes name the branch of the algorithm that the failing input reaches (read off the frame of
minimize_subcircuits in the traceback) or, by differential re-runs, the structural feature that matters
(dead-gate: passes once dead gates are stripped; nary>2: passes once n-ary gates are expanded to binary chains; the
latter is attributed to C04/_PatternOperations.eval_pattern/all-operands whatever clause it surfaces through).
"""
import json
import logging
import os
import subprocess
import sys
import time
import random

NAME = 'minimize_subcircuits-vs-spec'
BIN = ['AND', 'NAND', 'OR', 'NOR', 'XOR', 'NXOR', 'GEQ', 'LT', 'LEQ', 'GT']
NARY = ['AND', 'NAND', 'OR', 'NOR', 'XOR', 'NXOR']
TRIVIAL = {'INPUT', 'NOT', 'LNOT', 'RNOT', 'IFF', 'LIFF', 'RIFF', 'ALWAYS_TRUE', 'ALWAYS_FALSE'}
FAMILIES = ['clean', 'clean', 'clean', 'redundant', 'redundant', 'redundant', 'dead', 'nary', 'io', 'io']
PARAMS = [(9, 5, 25), (9, 5, 25), (9, 5, 25), (4, 3, 25), (9, 4, 4), (3, 5, 25)]     # max_subcircuit_size, cut_size, cut_limit
Z3_TIMEOUT_MS = 8000


# ------------------------------------------------------------------ circuits (plain Nets) ----------
def _reach(net):
    seen, st = set(), list(net.outputs)
    while st:
        g = st.pop()
        if g not in seen:
            seen.add(g)
            st.extend(net.gates[g][1])
    return seen


def profile(net, N):
    """Semantic redundancy of a netlist: E two nodes with equal tt, N a gate complementing another node, K a constant gate."""
    gtt = {g: tuple(v) for g, v in N.gates_tt(net).items()}
    p, seen = set(), {}
    for g, t in gtt.items():
        if t in seen:
            p.add('E')
        seen[t] = g
    for g, t in gtt.items():
        if net.gates[g][0] == 'INPUT':
            continue
        if tuple(not b for b in t) in seen:
            p.add('N')
        if len(set(t)) == 1:
            p.add('K')
    return p


def gen_net(r, family, N, max_gates=8):
    for _ in range(400):
        n = r.choice((2, 3, 3, 4) if family != 'clean' else (3, 4, 4))
        k = r.randint(1, max_gates if family != 'clean' else min(max_gates, 6))
        ins = [f'x{i}' for i in range(n)]
        gates = [(x, ('INPUT', ())) for x in ins]
        nodes = list(ins)
        for i in range(k):
            if r.random() < 0.18:
                t, ops = 'NOT', (r.choice(nodes),)
            elif family == 'nary' and r.random() < 0.4 and len(nodes) >= 3:
                t, ops = r.choice(NARY), tuple(r.sample(nodes, 3))
            else:
                t = r.choice(BIN)
                a = r.choice(nodes)
                b = r.choice(nodes)
                if a == b and family != 'io' and len(nodes) > 1:
                    b = r.choice([x for x in nodes if x != a])
                ops = (a, b)
            gates.append((f'g{i}', (t, ops)))
            nodes.append(f'g{i}')
        gl = [g for g, _ in gates[n:]]
        m = r.choice((1, 1, 2, 3))
        if family == 'io':
            outs = [gl[-1]] + [r.choice(nodes) for _ in range(m - 1)]
            if r.random() < 0.4:
                outs.append(outs[0])
        else:
            outs = [gl[-1]] + r.sample(gl[:-1], min(m - 1, len(gl) - 1))
        if r.random() < 0.5:
            head, tail = gates[:n], gates[n:]
            r.shuffle(tail)           # storage order of gates permuted (still a DAG; inputs first keeps input order)
            gates = head + tail
        net = N.Net(ins, outs, dict(gates))
        rc = _reach(net)
        dead = any(g not in rc for g in gl)
        unused = any(x not in rc for x in ins)
        if family == 'dead':
            if not dead:
                continue
        elif dead:
            continue
        if unused and family not in ('io', 'dead'):
            continue
        if family == 'nary' and not any(len(o) > 2 for _, o in net.gates.values()):
            continue
        if family == 'clean' and profile(net, N):
            continue
        return net
    return None


def binarize(net, N):
    g2 = {}
    for g, (t, ops) in net.gates.items():
        if len(ops) <= 2:
            g2[g] = (t, ops)
            continue
        base = {'NAND': 'AND', 'NOR': 'OR', 'NXOR': 'XOR'}.get(t, t)
        acc = ops[0]
        for i, o in enumerate(ops[1:-1]):
            lab = f'{g}__b{i}'
            g2[lab] = (base, (acc, o))
            acc = lab
        g2[g] = (t, (acc, ops[-1]))
    return N.Net(net.inputs, net.outputs, g2)


def strip_dead(net, N):
    rc = _reach(net)
    return N.Net(net.inputs, net.outputs, {g: v for g, v in net.gates.items() if g in rc or v[0] == 'INPUT'})


# ------------------------------------------------------------------ one call of the real function ----------
def run_real(net, basis, mode, params, tl, N):
    """-> (outcome dict). outcome['kind'] in ok | skipped | violation-clause name."""
    from cirbo.minimization.subcircuit import minimize_subcircuits
    from cirbo.minimization.exception import FailedValidationError
    os.environ['VERIF_CUT_MODE'] = mode
    c = N.build(net)
    before = N.snapshot(c)
    want_tt = N.tt(before)
    out = _call(c, basis, params, tl, before, want_tt, N, minimize_subcircuits, FailedValidationError)
    return out


class _Tap(logging.Handler):
    """Observes which rewriting branches minimize_subcircuits took (it logs them at DEBUG level)."""

    def __init__(self):
        super().__init__(logging.DEBUG)
        self.trivial = 0
        self.improved = 0

    def emit(self, record):
        try:
            m = record.getMessage()
        except Exception:      # noqa
            return
        if 'trivial input patterns' in m:
            self.trivial += 1
        elif 'Improved circuit size' in m:
            self.improved += 1


def _call(c, basis, params, tl, before, want_tt, N, minimize_subcircuits, FailedValidationError):
    lg = logging.getLogger('cirbo.minimization.subcircuit')
    tap = _Tap()
    old_level, old_prop = lg.level, lg.propagate
    lg.addHandler(tap)
    lg.setLevel(logging.DEBUG)
    lg.propagate = False
    try:
        out = _call2(c, basis, params, tl, before, want_tt, N, minimize_subcircuits, FailedValidationError)
    finally:
        lg.removeHandler(tap)
        lg.setLevel(old_level)
        lg.propagate = old_prop
    out['rewrites'] = 'trivial' if tap.trivial and not tap.improved else 'replacement' if tap.improved and not tap.trivial else \
        'trivial+replacement' if tap.trivial else 'none'
    return out


def _call2(c, basis, params, tl, before, want_tt, N, minimize_subcircuits, FailedValidationError):
    try:
        res = minimize_subcircuits(c, basis, enable_validation=True, max_subcircuit_size=params[0], solver_time_limit_sec=tl,
                                   cut_size=params[1], cut_limit=params[2])
    except FailedValidationError:
        return {'kind': 'no-failed-validation', 'sig': 'FailedValidationError', 'detail': 'FailedValidationError raised (validation enabled)',
                'observed': 'FailedValidationError', 'expected': 'an equivalent circuit'}
    except Exception as e:      # noqa
        msg = f'{type(e).__name__}: {str(e)[:120]}'
        if 'shim solver' in str(e):
            return {'kind': 'skipped', 'why': 'SAT stand-in timed out'}
        sig, branch = _signature(e)
        return {'kind': 'no-internal-error', 'sig': sig, 'branch': branch, 'detail': f'raised {msg} (innermost frame in subcircuit.py: {sig})',
                'observed': msg, 'expected': 'a circuit'}
    s = N.snapshot(res)
    wf = N.wf_violations(s) + [('arity', g) for g in N.arity(s)]
    if wf:
        return {'kind': 'result-wf', 'sig': 'not-wf', 'detail': f'result not well-formed: {wf[:3]}', 'observed': s.to_json(), 'expected': 'WF'}
    if s.inputs != before.inputs:
        return {'kind': 'inputs', 'sig': 'inputs', 'detail': f'result inputs {s.inputs}, argument {before.inputs}', 'observed': s.inputs, 'expected': before.inputs}
    if len(s.outputs) != len(before.outputs):
        return {'kind': 'outputs-number', 'sig': 'outputs', 'detail': f'{len(s.outputs)} outputs, argument has {len(before.outputs)}',
                'observed': s.outputs, 'expected': before.outputs}
    got = N.tt(s)
    if got != want_tt:
        return {'kind': 'truth-table', 'sig': 'tt', 'detail': 'result computes a different function although validation was enabled',
                'observed': {'netlist': s.to_json(), 'tt': [[int(b) for b in r] for r in got]}, 'expected': [[int(b) for b in r] for r in want_tt]}
    a = sum(1 for t, _ in before.gates.values() if t not in TRIVIAL)
    b = sum(1 for t, _ in s.gates.values() if t not in TRIVIAL)
    if b > a:
        return {'kind': 'not-larger', 'sig': 'larger', 'detail': f'result has {b} non-trivial gates, argument {a}', 'observed': s.to_json(), 'expected': a}
    return {'kind': 'ok', 'smaller': b < a}


def _signature(e):
    """(ExcType@deepest function of subcircuit.py on the stack, branch of minimize_subcircuits read off its frame locals)."""
    func, branch = '?', None
    tb = e.__traceback__
    while tb is not None:
        f = tb.tb_frame
        if f.f_code.co_filename.endswith('subcircuit.py'):
            func = f.f_code.co_name
            if func == 'minimize_subcircuits':
                loc = f.f_locals
                try:
                    sub = loc.get('subcircuit')
                    if 'filtered_outputs' in loc and not loc['filtered_outputs'] and 'new_subcircuit' not in loc:
                        branch = 'all-cone-outputs-trivial'
                    elif sub is not None and 'output_labels_mapping' in loc and any(o not in loc['output_labels_mapping'] for o in sub.outputs):
                        branch = 'cone-output-unmapped'
                except Exception:      # noqa
                    branch = None
        tb = tb.tb_next
    return f'{type(e).__name__}@{func}', branch


def classify(net, out, basis, mode, params, tl, N):
    """Witness class + the (possibly normalised) netlist to put into the replay.
    Order: n-ary differential; the rewriting branch the run was in (frame locals for exceptions, the function's own DEBUG log
    for silent corruption); dead-gate differential; exception signature / semantic redundancy of the circuit."""
    same = lambda o: o['kind'] == out['kind'] and o.get('sig') == out['sig']     # noqa: E731
    cur = net
    if any(len(o) > 2 for _, o in cur.gates.values()):
        b = binarize(cur, N)
        o2 = run_real(b, basis, mode, params, tl, N)
        if not same(o2):
            return 'nary>2', cur
        cur, out = b, o2                      # same failure without n-ary gates: classify that run
    if out['kind'] == 'no-internal-error':
        if out.get('branch') == 'all-cone-outputs-trivial':
            return 'all-cone-outputs-trivial:' + out['sig'].split('@')[0], cur
        if out.get('branch') == 'cone-output-unmapped':
            return ('cone-output-unmapped:KeyError' if out['sig'].startswith('KeyError') else 'cone-output-unmapped'), cur
    elif out['kind'] in ('no-failed-validation', 'truth-table') and out.get('rewrites', 'none').startswith('trivial'):
        return 'all-cone-outputs-trivial', cur
    rc = _reach(cur)
    if any(g not in rc for g in cur.gates if cur.gates[g][0] != 'INPUT'):
        st = strip_dead(cur, N)
        o2 = run_real(st, basis, mode, params, tl, N)
        if not same(o2):
            return 'dead-gate', cur
        cur, out = st, o2
    if out['kind'] == 'no-internal-error':
        return out['sig'], cur
    p = profile(cur, N)
    sem = 'complement-gates' if 'N' in p else 'constant-gate' if 'K' in p else 'equivalent-gates' if 'E' in p else 'no-redundancy'
    return out.get('rewrites', 'none') + ':' + sem, cur


def make_case(seed, idx, quick, N):
    r = random.Random(f'{seed}/C04/case/{idx}')
    family = FAMILIES[idx % len(FAMILIES)]
    net = gen_net(r, family, N, max_gates=8)
    basis = ('AIG', 'XAIG', 'FULL')[idx % 3]
    mode = r.choice(['all', 'all', f'shuffled:{r.randint(0, 9)}', f'thinned:{r.randint(0, 9)}'])
    params = r.choice(PARAMS)
    tl = 3 if r.random() < 0.12 else 0
    return family, net, basis, mode, params, tl


def worker(job):
    """Executed in a child interpreter with a fixed PYTHONHASHSEED."""
    sys.path.insert(0, job['verif'])
    from vlib import env
    env.setup_import_paths()
    import z3
    z3.set_param('timeout', Z3_TIMEOUT_MS)
    from vlib.spec import net as N
    results = {'cases': [], 'violations': {}, 'skipped': 0, 'exempt': 0, 'smaller': 0, 'hashseed': os.environ.get('PYTHONHASHSEED')}
    t_end = time.time() + job['budget_s']
    for idx in job['indices']:
        if time.time() > t_end:
            results['truncated_at'] = idx
            break
        try:
            family, net, basis, mode, params, tl = make_case(job['seed'], idx, job['quick'], N)
            if net is None:
                continue
            out = run_real(net, basis, mode, params, tl, N)
            key = f'{idx}:{basis}:{mode}:{params}:{tl}'
            nontriv = True
            if out['kind'] == 'skipped':
                results['skipped'] += 1
                continue
            results['cases'].append([key, nontriv, family])
            if out['kind'] == 'ok':
                results['smaller'] += 1 if out.get('smaller') else 0
                continue
            if out['kind'] == 'no-internal-error' and 'E' in profile(net, N):
                results['exempt'] += 1      # the statement promises no internal error only without equivalent gates
                continue
            wc, shown = classify(net, out, basis, mode, params, tl, N)
            k = out['kind'] + '|' + wc
            old = results['violations'].get(k)
            if old is None or len(shown.gates) < old['size']:
                results['violations'][k] = {
                    'size': len(shown.gates), 'clause': out['kind'], 'wclass': wc,
                    'detail': f"minimize_subcircuits(basis={basis}, cuts={mode}, max_subcircuit_size/cut_size/cut_limit={params}, time_limit={tl}) on "
                              f"{shown.to_json()['gates']} outputs={shown.outputs}: {out['detail']}",
                    'replay': {'kind': 'bounded', 'netlist': shown.to_json(), 'found_on_netlist': net.to_json(), 'family': family, 'basis': basis,
                               'VERIF_CUT_MODE': mode, 'max_subcircuit_size': params[0], 'cut_size': params[1], 'cut_limit': params[2],
                               'solver_time_limit_sec': tl, 'PYTHONHASHSEED': os.environ.get('PYTHONHASHSEED'), 'enable_validation': True,
                               'observed': out.get('observed'), 'expected': out.get('expected'),
                               'how': 'env.setup_import_paths(); c = vlib.spec.net.build(Net.from_json(netlist)); '
                                      'minimize_subcircuits(c, basis, enable_validation=True, ...) with the shims on sys.path'}}
        except Exception as e:      # noqa: the driver must never crash
            results['violations']['driver|' + type(e).__name__] = {
                'size': 0, 'clause': 'driver-internal-error', 'wclass': type(e).__name__, 'detail': f'driver error on case {idx}: {e}', 'replay': {'case': idx}}
    return results


def _spawn(job, hashseed):
    envv = dict(os.environ)
    envv['PYTHONHASHSEED'] = str(hashseed)
    envv['PYTHONWARNINGS'] = 'ignore'
    return subprocess.Popen([sys.executable, '-m', 'vlib.bounded.C04', '--worker', json.dumps(job)], cwd=job['verif'], env=envv,
                            stdout=subprocess.PIPE, stderr=subprocess.PIPE, text=True)


def run_bounded(rep, quick):
    from .. import env
    rep.bounded_driver(
        NAME,
        'real minimize_subcircuits (enable_validation=True) with the stand-in cut enumerator and SAT shim on seeded random circuits over NOT + '
        'the 10 binary types eval_pattern supports, <=8 gates, 2..4 inputs, 1..3 outputs, families clean / redundant (complementary, constant, '
        'equivalent gates) / dead logic / 3-ary gates / io (outputs that are inputs, repeated outputs, unused inputs, repeated operands), '
        'bases AIG/XAIG/FULL round-robin, cut families all|shuffled:s|thinned:s, 4 (max_subcircuit_size, cut_size, cut_limit) settings, '
        'solver_time_limit_sec 0 (in-process SAT) or 3 (pebble process pool), executed in child interpreters with fixed PYTHONHASHSEEDs ('
        + ('2 seeds, sequential' if quick else '16 children, 8 seeds') + '); clauses: no FailedValidationError, no internal error without '
        'equivalent gates, inputs, outputs, truth table (spec evaluator), non-trivial gate count, WF; one evaluation = one call',
        'random circuits K<=8', exhaustive=False)
    n_children = 2 if quick else 16
    per_child = 210 if quick else 700
    budget = 25 if quick else 600
    jobs = []
    for ci in range(n_children):
        jobs.append(({'verif': env.VERIF, 'seed': env.SEED, 'quick': quick, 'budget_s': budget,
                      'indices': list(range(ci * per_child, (ci + 1) * per_child))}, 1 + (ci % 8) * 7919 + env.SEED))
    outs = []
    try:
        if quick:
            for job, hs in jobs:
                p = _spawn(job, hs)
                outs.append((job, hs) + _finish(p, budget + 30))
        else:
            procs = [(job, hs, _spawn(job, hs)) for job, hs in jobs]
            for job, hs, p in procs:
                outs.append((job, hs) + _finish(p, budget + 120))
    except Exception as e:      # noqa
        rep.error(f'C04 bounded driver could not run its workers: {e}')
        return
    d = rep.bounded[NAME]
    stats = {'skipped_solver_timeouts': 0, 'exempt_internal_errors_with_equivalent_gates': 0, 'strictly_smaller_results': 0, 'truncated': []}
    for job, hs, res, err in outs:
        if res is None:
            rep.error(f'C04 worker (PYTHONHASHSEED={hs}) failed: {err[-400:]}')
            continue
        for key, nontriv, family in res['cases']:
            rep.bounded_case(NAME, key=(hs, key), nontrivial=nontriv, sample=None)
        stats['skipped_solver_timeouts'] += res['skipped']
        stats['exempt_internal_errors_with_equivalent_gates'] += res['exempt']
        stats['strictly_smaller_results'] += res['smaller']
        if 'truncated_at' in res:
            stats['truncated'].append(res['truncated_at'])
        for k, v in sorted(res['violations'].items()):
            if v['clause'] == 'driver-internal-error':
                rep.error('C04 worker: ' + v['detail'])
                continue
            if v['wclass'] == 'nary>2':
                # one root cause (pattern simulation reads only two operands), whatever clause it surfaces through
                rep.violation('C04/_PatternOperations.eval_pattern/all-operands', 'nary>2', v['detail'] + f" [surfaced as {v['clause']}]", v['replay'])
                continue
            rep.violation(f"C04/minimize_subcircuits/{v['clause']}", v['wclass'], v['detail'], v['replay'])
    if len(d['samples']) < 3:
        d['samples'].append({'stats': stats})
    rep.extra.setdefault('C04_bounded_stats', stats)
    rep.assume('mockturtle_wrapper.enumerate_cuts is replaced by /verif/shims/mockturtle_wrapper.py (reproduces the expected value of '
               'tests/extensions/mockturtle_wrapper/test_cuts.py; structural hashing of the klut network is not emulated); pysat is replaced by a z3-backed shim')


def _finish(p, timeout):
    try:
        so, se = p.communicate(timeout=timeout)
    except subprocess.TimeoutExpired:
        p.kill()
        so, se = p.communicate()
        return None, 'timeout ' + (se or '')
    for line in reversed(so.splitlines()):
        if line.startswith('RESULT '):
            try:
                return json.loads(line[7:]), se
            except Exception as e:      # noqa
                return None, f'bad worker output: {e}'
    return None, (se or so or 'no output')


if __name__ == '__main__':
    if len(sys.argv) >= 3 and sys.argv[1] == '--worker':
        job_ = json.loads(sys.argv[2])
        sys.path.insert(0, job_['verif'])
        out_ = sys.modules[__name__].worker(job_)
        print('RESULT ' + json.dumps(out_, default=str))

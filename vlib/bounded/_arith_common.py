"""Shared machinery of the bounded stand-in drivers C07 / C08 / C09 (arithmetic generators).

Oracle (independent of the repository):
  * the netlist is read with `vlib.spec.net.snapshot` (private fields, none of cirbo's evaluation code);
  * `simulate` evaluates it *bit-parallel*: every gate value is a Python integer used as a bit vector,
    bit j = value of the gate under input pattern j.  The gate functions (`bp_op`) are checked against
    `vlib.spec.ops.OP` at import time (`_selfcheck_ops`);
  * the expected result is plain integer arithmetic on the operand values decoded from the input pattern
    (`expected_vectors`: one Python integer per pattern, transposed to bit vectors; `linear_mismatch`:
    one 64-bit lane per pattern inside one big integer, used for linear identities whose terms share levels).

Operand environments (`make_env`):
  bare      operands are the primary inputs of a circuit that has nothing else;
  decorated operands are primary inputs of a circuit that also has other gates and outputs;
  host      operands are INTERNAL gates h_0.. of a host circuit built such that (p_0..p_{k-1}) -> (h_0..h_{k-1})
            is a bijection (h_i = p_i xor f_i(earlier nodes)); the input vectors are chosen such that h_i is the
            i-th standard variable, i.e. the operand values are still enumerated exhaustively;
  hostrand  operands are arbitrary (possibly repeated) nodes of a seeded random circuit (vlib.spec.gen.random_net),
            all input patterns of that circuit;
  random    primary inputs, P seeded random patterns preceded by corner patterns (wide Karatsuba cases): every
            operand in {0, 1, 2^w-1 (all ones), 2^(w-1), 2^w-2, 0xAAAA.., 0x5555..}, all combinations;
  adversarial  operands are the primary inputs of a host that already holds a gate of EVERY binary type over the
            first two bit positions of each operand pair, in both operand orders, plus NOT/IFF of the first bits
            (a generator that looks an existing gate up instead of adding a fresh one, or that ignores the operand
            order when doing so, meets a colliding gate here); all operand values;
  adversarial2  the same host with the two operand orders stored in the opposite sequence (whether a lookup returns
            the first or the last match, one of the two hosts presents the order-swapped gate);
  twice     bare primary inputs; the driver calls the generator once with the operands SWAPPED (b, a) before the
            checked call (a, b) and checks both results in the final circuit (`Twice`): the second call meets the
            gates of the first one (same types, same operands in the opposite order).

`Frame` checks the frame clauses shared by the three properties: every pre-existing gate keeps label, type,
operands and function; only fresh non-input gates are added; outputs change only when requested; the
result is well formed (vlib.spec.net.wf_violations).

`Core` collects the failures of all variants (endianness x operand mode x basis spelling) of one core case and
derives a witness class that names only the features the failure depends on, so that one root cause gives one
(obligation, witness_class) pair.
"""
import hashlib
import multiprocessing
import random
import traceback
import uuid
from collections import Counter
from contextlib import contextmanager

from .. import env as ENV
from ..spec import gen as G
from ..spec import net as N
from ..spec import ops as S

PLACEHOLDER = '_PLACEHOLDER_STR_'


# ------------------------------------------------------------------------------------------------
# determinism
# ------------------------------------------------------------------------------------------------
def rng_for(*salt):
    """Seeded RNG that is stable across processes (gen.rng_for hashes strings, which is salted per process)."""
    h = hashlib.sha256(repr((ENV.SEED,) + tuple(salt)).encode()).digest()
    return random.Random(int.from_bytes(h[:8], 'big'))


@contextmanager
def deterministic_uuid(*salt):
    """The generators label fresh gates with uuid4(); the weighted summators order their work lists by
    (level, label), so the generated structure depends on those labels.  Inside this context uuid4 is a
    seeded stream, which makes a run reproducible (the repository is not modified)."""
    r = rng_for('uuid', *salt)
    old = uuid.uuid4
    uuid.uuid4 = lambda: uuid.UUID(int=r.getrandbits(128), version=4)
    try:
        yield
    finally:
        uuid.uuid4 = old


# ------------------------------------------------------------------------------------------------
# bit-parallel evaluation
# ------------------------------------------------------------------------------------------------
def bp_op(t, a, mask):
    if t == 'AND' or t == 'NAND':
        r = a[0]
        for x in a[1:]:
            r &= x
        return r if t == 'AND' else mask ^ r
    if t == 'OR' or t == 'NOR':
        r = a[0]
        for x in a[1:]:
            r |= x
        return r if t == 'OR' else mask ^ r
    if t == 'XOR' or t == 'NXOR':
        r = a[0]
        for x in a[1:]:
            r ^= x
        return r if t == 'XOR' else mask ^ r
    if t == 'GT':
        return a[0] & (mask ^ a[1])
    if t == 'LT':
        return (mask ^ a[0]) & a[1]
    if t == 'GEQ':
        return a[0] | (mask ^ a[1])
    if t == 'LEQ':
        return (mask ^ a[0]) | a[1]
    if t == 'LNOT' or t == 'NOT':
        return mask ^ a[0]
    if t == 'RNOT':
        return mask ^ a[1]
    if t == 'LIFF' or t == 'IFF':
        return a[0]
    if t == 'RIFF':
        return a[1]
    if t == 'ALWAYS_TRUE':
        return mask
    if t == 'ALWAYS_FALSE':
        return 0
    raise ValueError(t)


def var_vectors(k):
    """(P, mask, [v_0..v_{k-1}]) with bit j of v_i = bit i of j (pattern j assigns variable i the i-th bit of j)."""
    P = 1 << k
    mask = (1 << P) - 1
    vs = []
    for i in range(k):
        period = 1 << (i + 1)
        block = ((1 << (1 << i)) - 1) << (1 << i)
        vs.append(block * (mask // ((1 << period) - 1)))
    return P, mask, vs


def _selfcheck_ops():
    for t in S.GATE_TYPES:
        if t == 'INPUT':
            continue
        ars = [0] if t in S.CONST else [1] if t in S.UNARY else [2] if t in S.BINARY else [2, 3, 4]
        for ar in ars:
            P, mask, vs = var_vectors(ar)
            got = bp_op(t, vs, mask)
            for j in range(P):
                want = bool(S.OP(t, [bool((j >> i) & 1) for i in range(ar)]))
                if bool((got >> j) & 1) != want:
                    raise AssertionError(f'bp_op disagrees with spec OP on {t}/{ar} pattern {j}')


_selfcheck_ops()


def simulate(net, in_vecs, mask):
    """label -> bit vector for every gate of the snapshot."""
    r = N.rank(net)
    if r is None:
        raise ValueError('netlist is cyclic or has a dangling operand')
    vals = {}
    gates = net.gates
    for g in sorted(gates, key=r.__getitem__):
        t, ops = gates[g]
        if t == 'INPUT':
            vals[g] = in_vecs[g]
        else:
            vals[g] = bp_op(t, [vals[o] for o in ops], mask)
    return vals


def transpose(values, nbits):
    """values[j] (non-negative ints) -> nbits bit vectors, vector t has bit j = bit t of values[j]."""
    out = []
    rv = values[::-1]
    for t in range(nbits):
        out.append(int(''.join(['1' if (v >> t) & 1 else '0' for v in rv]), 2) if rv else 0)
    return out


def decode_list(vecs_le, P):
    """per-pattern integer value of a little-endian list of bit vectors."""
    acc = [0] * P
    for i, v in enumerate(vecs_le):
        s = bin(v)[2:].zfill(P)[::-1]
        w = 1 << i
        acc = [a | w if ch == '1' else a for a, ch in zip(acc, s)]
    return acc


def value_at(vecs_le, j):
    return sum(((v >> j) & 1) << i for i, v in enumerate(vecs_le))


def lowest_diff(x, y):
    d = x ^ y
    return (d & -d).bit_length() - 1


LANE_HEX = 16  # 64-bit lanes


def lanes(v, P):
    """big integer with one 64-bit lane per pattern holding bit j of v."""
    s = bin(v)[2:].zfill(P).replace('1', 'a').replace('0', '0' * LANE_HEX).replace('a', '0' * (LANE_HEX - 1) + '1')
    return int(s, 16)


def linear_mismatch(lhs, rhs, P):
    """lhs, rhs: lists of (coefficient, bit vector).  Plain integer arithmetic in every lane:
    sum(coef * bit) must agree for every pattern.  Returns None or (pattern, lhs value, rhs value)."""
    L = sum(c * lanes(v, P) for c, v in lhs)
    R = sum(c * lanes(v, P) for c, v in rhs)
    if L == R:
        return None
    j = lowest_diff(L, R) // (4 * LANE_HEX)
    lane_mask = (1 << (4 * LANE_HEX)) - 1
    return j, (L >> (4 * LANE_HEX * j)) & lane_mask, (R >> (4 * LANE_HEX * j)) & lane_mask


# ------------------------------------------------------------------------------------------------
# operand environments
# ------------------------------------------------------------------------------------------------
class Env:
    """circuit + assignment of bit vectors to its inputs + operands (lists of labels, least significant first)."""

    def __init__(self, circuit, in_vecs, P, mask, ops, bijective, mode, widths):
        self.circuit = circuit
        self.in_vecs = in_vecs
        self.P = P
        self.mask = mask
        self.ops = ops
        self.bijective = bijective
        self.mode = mode
        self.widths = list(widths)
        self.op_vecs = None     # filled by Frame (needs a simulation for internal-gate operands)

    def assignment(self, j):
        return {k: (v >> j) & 1 for k, v in self.in_vecs.items()}


_HOST_TYPES = ['AND', 'OR', 'NAND', 'NOR', 'GT', 'LT', 'GEQ', 'LEQ', 'XOR', 'NXOR', 'LNOT', 'RNOT', 'LIFF', 'RIFF']


def _circuit_api():
    from cirbo.core.circuit import Circuit, gate
    return Circuit, gate


def _split(labels, widths):
    out, p = [], 0
    for w in widths:
        out.append(labels[p:p + w])
        p += w
    return out


ADVERSARIAL_MODES = ('adversarial', 'adversarial2')
ADV_MODES = ['adversarial', 'adversarial2', 'twice']       # what the drivers add to their mode lists at small widths
ADVERSARIAL_TYPES = ['AND', 'OR', 'XOR', 'NXOR', 'NAND', 'NOR', 'GT', 'LT', 'GEQ', 'LEQ', 'LNOT', 'RNOT', 'LIFF', 'RIFF']


def adversarial_pairs(ops):
    """unordered operand pairs the adversarial host is populated over: bit i of operand s with bit i of operand t
    (i < 2) for every two operands; a single operand (or 1-bit operands only) contributes its own first two bits."""
    pairs = []
    for s in range(len(ops)):
        for t in range(s + 1, len(ops)):
            for i in range(2):
                if i < len(ops[s]) and i < len(ops[t]):
                    pairs.append((ops[s][i], ops[t][i]))
    if len(ops) == 1 and len(ops[0]) >= 2:
        pairs.append((ops[0][0], ops[0][1]))
    return pairs


def _populate_adversarial(c, gate, ops, swapped_first):
    """Both operand orders of every type are present; `swapped_first` selects which of the two is stored first
    (a lookup that returns the first / the last match meets the wrong one in one of the two hosts)."""
    firsts = [o[0] for o in ops]
    for x in firsts:
        c.emplace_gate(f'adv_NOT_{x}', gate.NOT, (x,))
        c.emplace_gate(f'adv_IFF_{x}', gate.IFF, (x,))
    outs = []
    for x, y in adversarial_pairs(ops):
        for t in ADVERSARIAL_TYPES:
            for p, q in ((y, x), (x, y)) if swapped_first else ((x, y), (y, x)):
                c.emplace_gate(f'adv_{t}_{p}_{q}', getattr(gate, t), (p, q))
        outs += [f'adv_LT_{y}_{x}', f'adv_GEQ_{x}_{y}']
    c.set_outputs([f'adv_NOT_{firsts[0]}'] + outs[:2] + [firsts[-1]])


def make_env(mode, widths, salt=()):
    """Build an operand environment; operand t has widths[t] bits."""
    Circuit, gate = _circuit_api()
    k = sum(widths)
    if mode in ('bare', 'decorated', 'adversarial', 'adversarial2', 'twice'):
        labels = [f'{chr(97 + t)}{s}' for t, w in enumerate(widths) for s in range(w)]
        c = Circuit.bare_circuit_with_labels(labels)
        P, mask, vs = var_vectors(k)
        if mode in ('adversarial', 'adversarial2'):
            _populate_adversarial(c, gate, _split(labels, widths), swapped_first=(mode == 'adversarial2'))
        if mode == 'decorated':
            c.emplace_gate('dec_and', gate.AND, (labels[0], labels[-1]))
            c.emplace_gate('dec_not', gate.NOT, ('dec_and',))
            c.emplace_gate('dec_one', gate.ALWAYS_TRUE, ())
            c.emplace_gate('dec_or3', gate.OR, ('dec_not', 'dec_one', labels[0]))
            c.set_outputs(['dec_not', labels[0], 'dec_or3'])
        return Env(c, dict(zip(labels, vs)), P, mask, _split(labels, widths), True, mode, widths)
    if mode == 'host':
        P, mask, vs = var_vectors(k)
        c = Circuit()
        ps = [f'p{i}' for i in range(k)]
        c.add_inputs(ps)
        vec, pool, hs = {}, [], []
        for i in range(k):
            if i == 0:
                vec['p0'] = mask ^ vs[0]
                c.emplace_gate('h0', gate.NOT, ('p0',))
                vec['h0'] = vs[0]
                pool += ['p0', 'h0']
            else:
                t = _HOST_TYPES[(5 * i + k) % len(_HOST_TYPES)]
                o1, o2 = pool[(3 * i) % len(pool)], pool[(7 * i + 1) % len(pool)]
                tv = bp_op(t, [vec[o1], vec[o2]], mask)
                c.emplace_gate(f't{i}', getattr(gate, t), (o1, o2))
                vec[f't{i}'] = tv
                if i % 2:
                    vec[f'p{i}'] = vs[i] ^ tv
                    c.emplace_gate(f'h{i}', gate.XOR, (f'p{i}', f't{i}'))
                else:
                    vec[f'p{i}'] = mask ^ vs[i] ^ tv
                    c.emplace_gate(f'h{i}', gate.NXOR, (f't{i}', f'p{i}'))
                vec[f'h{i}'] = vs[i]
                pool += [f'p{i}', f't{i}', f'h{i}']
            hs.append(f'h{i}')
        c.emplace_gate('host_one', gate.ALWAYS_TRUE, ())
        c.emplace_gate('host_dead', gate.AND, ('h0', 'p0', 'host_one'))
        c.set_outputs(['h0', ps[-1], 'host_dead', hs[-1]])
        return Env(c, {p: vec[p] for p in ps}, P, mask, _split(hs, widths), True, mode, widths)
    if mode == 'hostrand':
        rng = rng_for('hostrand', tuple(widths), *salt)
        while True:
            net = G.random_net(rng, n_inputs=rng.randint(2, 5), k_gates=rng.randint(3, 8), max_nary=3,
                               permute_storage=False)
            if not N.arity(net) and N.rank(net) is not None:
                break
        c = N.build(net)
        n = len(net.inputs)
        P, mask, vs = var_vectors(n)
        nodes = list(net.gates)
        chosen = [rng.choice(nodes) for _ in range(k)]
        return Env(c, dict(zip(net.inputs, vs)), P, mask, _split(chosen, widths), False, mode, widths)
    if mode == 'random':
        rng = rng_for('random-patterns', tuple(widths), *salt)
        labels = [f'{chr(97 + t)}{s}' for t, w in enumerate(widths) for s in range(w)]
        c = Circuit.bare_circuit_with_labels(labels)
        P = 256
        mask = (1 << P) - 1
        ops = _split(labels, widths)
        # corner patterns first: every operand in {0, 1, 2^w-1, 2^(w-1), 2^w-2, 0xAA.., 0x55..} (cartesian for two
        # operands: 49 patterns, among them all-ones x all-ones), then seeded random operands
        corners = []
        per = [[0, 1, (1 << w) - 1, 1 << (w - 1), (1 << w) - 2 if w > 1 else 0,
                int('10' * w, 2) & ((1 << w) - 1), int('01' * w, 2) & ((1 << w) - 1)] for w in widths]
        import itertools
        for combo in itertools.product(*per):
            corners.append(combo)
        corners = corners[:P // 2]
        vals = [list(cmb) for cmb in corners]
        while len(vals) < P:
            vals.append([rng.getrandbits(w) for w in widths])
        in_vecs = {}
        for t, labs in enumerate(ops):
            for s, lab in enumerate(labs):
                in_vecs[lab] = sum(((vals[j][t] >> s) & 1) << j for j in range(P))
        return Env(c, in_vecs, P, mask, ops, False, mode, widths)
    raise ValueError(mode)


def env_for_generated(circuit, ops_le):
    """Environment for a circuit returned by a generate_* wrapper: `ops_le` lists its input labels per operand,
    least significant first; every input must occur exactly once."""
    flat = [l for o in ops_le for l in o]
    P, mask, vs = var_vectors(len(flat))
    return Env(circuit, dict(zip(flat, vs)), P, mask, [list(o) for o in ops_le], True, 'generated', [len(o) for o in ops_le])


# ------------------------------------------------------------------------------------------------
# expected values
# ------------------------------------------------------------------------------------------------
_CACHE = {}


def operand_values(env):
    """per pattern: tuple of operand integers (plain decoding of the operand bits)."""
    if env.bijective:
        out = []
        ws = env.widths
        if len(ws) == 1:
            return [(j,) for j in range(env.P)]
        if len(ws) == 2:
            n = ws[0]
            ma = (1 << n) - 1
            return [(j & ma, j >> n) for j in range(env.P)]
        for j in range(env.P):
            t, p = [], 0
            for w in ws:
                t.append((j >> p) & ((1 << w) - 1))
                p += w
            out.append(tuple(t))
        return out
    cols = [decode_list(vs, env.P) for vs in env.op_vecs]
    return list(zip(*cols))


def expected_vectors(env, key, fn, nbits=0):
    """bit vectors (least significant first) of fn(*operands) for every pattern; at least nbits of them.
    Cached for bijective environments (operand bit of significance s is variable s in all of them)."""
    ck = None
    if env.bijective:
        ck = (key, tuple(env.widths))
        hit = _CACHE.get(ck)
        if hit is not None and len(hit) >= nbits:
            return hit
    values = [fn(*t) for t in operand_values(env)]
    if any(v < 0 for v in values):
        raise AssertionError('oracle values must be non-negative')
    nb = max([nbits] + [v.bit_length() for v in values])
    vec = transpose(values, nb)
    if ck is not None:
        if len(_CACHE) > 4000:
            _CACHE.clear()
        _CACHE[ck] = vec
    return vec


def compare_bits(env, vals, res_le, exp):
    """res_le: result labels least significant first; exp: expected bit vectors.  Missing positions count as 0.
    Returns None or a dict describing the first failing pattern."""
    nb = max(len(res_le), len(exp))
    for i in range(nb):
        got = vals[res_le[i]] if i < len(res_le) else 0
        want = exp[i] if i < len(exp) else 0
        if got != want:
            j = lowest_diff(got, want)
            return {'pattern': j, 'bit': i, 'observed': value_at([vals[l] for l in res_le], j),
                    'expected': value_at(exp, j), 'inputs': env.assignment(j),
                    'operands': [value_at(vs, j) for vs in env.op_vecs]}
    return None


# ------------------------------------------------------------------------------------------------
# frame clauses
# ------------------------------------------------------------------------------------------------
class Frame:
    def __init__(self, env):
        self.env = env
        self.pre = N.snapshot(env.circuit)
        self.pre_vals = simulate(self.pre, env.in_vecs, env.mask)
        env.op_vecs = [[self.pre_vals[l] for l in o] for o in env.ops]
        self.post = None
        self.vals = None
        self.new = None

    def after(self, new_outputs=None, check_outputs=True):
        """-> list of (clause, detail).  new_outputs: labels the call was asked to mark as outputs (None: none)."""
        env = self.env
        pre = self.pre
        post = self.post = N.snapshot(env.circuit)
        bad = []
        for g, d in pre.gates.items():
            if g not in post.gates:
                bad.append(('frame-gate-removed', f'pre-existing gate {g!r} disappeared'))
            elif post.gates[g] != d:
                bad.append(('frame-gate-changed', f'pre-existing gate {g!r}: {d} became {post.gates[g]}'))
        self.new = [g for g in post.gates if g not in pre.gates]
        ni = [g for g in self.new if post.gates[g][0] == 'INPUT']
        if ni:
            bad.append(('frame-new-input', f'new INPUT gates {ni[:3]}'))
        elif Counter(post.inputs) != Counter(pre.inputs):
            bad.append(('frame-inputs-changed', f'inputs {pre.inputs} became {post.inputs}'))
        if check_outputs:
            if new_outputs is None:
                if post.outputs != pre.outputs:
                    bad.append(('outputs-only-when-asked', f'outputs {pre.outputs} became {post.outputs} although no outputs were requested'))
            else:
                if Counter(post.outputs) != Counter(pre.outputs) + Counter(new_outputs):
                    bad.append(('outputs-as-asked', f'outputs {pre.outputs} became {post.outputs}; requested new outputs {list(new_outputs)}'))
        wf = N.wf_violations(post)
        if wf:
            bad.append(('frame-wf', f'{wf[:3]}'))
        try:
            in_vecs = dict(env.in_vecs)
            for g in ni:
                in_vecs[g] = 0
            self.vals = simulate(post, in_vecs, env.mask)
        except Exception as e:  # noqa
            bad.append(('frame-wf', f'result cannot be evaluated: {type(e).__name__}: {e}'))
            self.vals = None
            return bad
        for g in pre.gates:
            if g in self.vals and self.vals[g] != self.pre_vals[g]:
                j = lowest_diff(self.vals[g], self.pre_vals[g])
                bad.append(('frame-function-changed', f'pre-existing gate {g!r} changed its value on {env.assignment(j)}'))
                break
        return bad

    def failures(self, fn, variant, args, new_outputs=None):
        """`after` as failure triples (clause, detail, replay) for Core.add."""
        out = []
        for clause, detail in self.after(new_outputs=new_outputs):
            out.append((clause, f'{fn}({args}): {detail}',
                        replay(fn, variant, args, self, observed=detail, outputs_after=list(self.post.outputs))))
        return out

    def added_types(self):
        return Counter(self.post.gates[g][0] for g in self.new)


class Twice:
    """'twice' operand mode: `first()` runs the generator with the operands swapped before the Frame of the checked
    call is taken; `check()` evaluates the labels that first call returned in the FINAL circuit (after the checked
    call) against the swapped expectation.  For one-operand generators the first call uses the same operand (and,
    where there is one, a different constant)."""

    def __init__(self, fn, variant, env):
        self.fn = fn
        self.v = variant
        self.env = env
        self.args = None
        self.result = None
        self.fail = []

    def first(self, f, args, *a, **kw):
        """-> True when the first call returned"""
        self.args = args
        try:
            self.result = f(*a, **kw)
            return True
        except Exception as e:  # noqa
            tn, msg, where, _ = exc_info(e)
            self.fail = [('no-exception', f'{self.fn}({args}) (first of two calls in one circuit) raised {tn}: {msg} at {where}',
                          replay(self.fn, self.v, args, None, observed=f'{tn}: {msg} at {where}', expected='no exception'))]
            return False

    def check(self, fr, clause, res_le, exp, what, second_args):
        """value of the FIRST call's result in the circuit after the second call"""
        if fr.vals is None or self.result is None:
            return []
        rp = dict(first_call=self.args, second_call=second_args)
        miss = labels_missing(fr.vals, res_le)
        if miss:
            return [(clause, f'{self.fn}: first of two calls ({self.args}) returned label {miss[0]!r} that is not a gate after the second call ({second_args})',
                     replay(self.fn, self.v, self.args, fr, **rp))]
        bad = compare_bits(self.env, fr.vals, res_le, exp)
        if bad:
            return [(clause, f'{self.fn}: result of the first of two calls ({self.args}), evaluated after the second call ({second_args}): {what}: '
                             f'operands {bad["operands"]} -> observed {bad["observed"]}, expected {bad["expected"]}',
                     replay(self.fn, self.v, self.args, fr, failing_input=bad['inputs'], operand_values=bad['operands'],
                            observed=bad['observed'], expected=bad['expected'], **rp))]
        return []


def labels_missing(vals, labels):
    return [l for l in labels if l not in vals]


def exc_info(e):
    """(type name, message, name of the innermost repository function on the traceback, set of function names)."""
    tb = traceback.extract_tb(e.__traceback__)
    names = [f.name for f in tb]
    repo = [f for f in tb if ENV.REPO in (f.filename or '')]
    where = ' <- '.join(f'{f.name}:{f.lineno}' for f in repo[::-1][:3]) if repo else ''
    return type(e).__name__, str(e)[:200], where, names


# ------------------------------------------------------------------------------------------------
# result collection (picklable, merged into the Report by the parent process)
# ------------------------------------------------------------------------------------------------
class Out:
    def __init__(self):
        self.cases = []
        self.violations = []
        self.errors = []

    def case(self, driver, key, nontrivial=True, sample=None):
        self.cases.append((driver, key, nontrivial, sample))

    def violation(self, obligation, witness, detail, replay, neutral=None):
        """neutral: the witness class this failure would have without its core-argument token (None: no such token),
        or a tuple of such classes (without the token / with one of the alternative tokens of the Core)."""
        for v in self.violations:
            if v[0] == obligation and v[1] == witness:
                return
        self.violations.append((obligation, witness, detail, replay, neutral))

    def merge_cases(self, rep, sampled):
        for driver, key, nontrivial, sample in self.cases:
            s = None
            if sample is not None and sampled.get(driver, 0) < 3:
                sampled[driver] = sampled.get(driver, 0) + 1
                s = sample
            rep.bounded_case(driver, key=key, nontrivial=nontrivial, sample=s)
        for e in self.errors:
            import sys
            print('CHECKER-ERROR (bounded driver):', e, file=sys.stderr)
            rep.error(e)
        self.cases = []


class Variant:
    __slots__ = ('be', 'mode', 'basis')

    def __init__(self, be=False, mode='bare', basis=None):
        self.be = be
        self.mode = mode
        self.basis = basis       # None or (name, family, is_string)

    def key(self):
        return (self.be, self.mode, self.basis)

    def describe(self):
        d = {'big_endian': self.be, 'operands': self.mode}
        if self.basis is not None:
            d['basis'] = self.basis[0]
        return d


XAIG_ENUM = ('GenerationBasis.XAIG', 'XAIG', False)
AIG_ENUM = ('GenerationBasis.AIG', 'AIG', False)
BASIS_SPELLINGS = [XAIG_ENUM, AIG_ENUM, ("'AIG'", 'AIG', True), ("'aig'", 'AIG', True), ("'Aig'", 'AIG', True),
                   ("'XAIG'", 'XAIG', True), ("'xaig'", 'XAIG', True)]


def basis_value(b):
    from cirbo.synthesis.generation.helpers import GenerationBasis
    if b is None:
        return None
    if not b[2]:
        return getattr(GenerationBasis, b[1])
    return b[0].strip("'")


class Core:
    """All variants of one core case (function + sizes + other arguments).  `core_token` names the class of the
    core arguments when it may matter (e.g. 'shift>len(a)', 'unequal-lengths'), else None."""

    BASE_MODES = ('bare', 'generated', 'random')

    def __init__(self, prop, fn, core_token=None, delegate=None, alt_tokens=()):
        self.prop = prop
        self.fn = fn
        self.core_token = core_token
        # other features of the same core arguments that have a token of their own in other cores (e.g. a wide odd
        # Karatsuba shape that also has unequal lengths): when the obligation fails in such a class as well, the
        # core token does not describe what the failure depends on
        self.alt_tokens = tuple(t for t in alt_tokens if t and t != core_token)
        self.delegate = delegate   # a generate_* wrapper names the add_* form it calls: a failure the add_* form
        #                            already shows (same clause, same witness, same task) is that form's finding
        self.fail = {}     # variant key -> {clause: (detail, replay, token override)}
        self.seen = set()

    def add(self, variant, failures):
        """failures: list of (clause, detail, replay dict[, witness override])."""
        self.seen.add(variant.key())
        for f in failures:
            clause, detail, replay = f[0], f[1], f[2]
            override = f[3] if len(f) > 3 else None
            self.fail.setdefault(variant.key(), {}).setdefault(clause, (detail, replay, override))

    def _fails(self, key, clause):
        return clause in self.fail.get(key, {})

    def flush(self, out):
        for vk in sorted(self.fail, key=repr):
            be, mode, basis = vk
            for clause, (detail, replay, override) in self.fail[vk].items():
                neutral = None
                if override is not None:
                    witness = override
                else:
                    toks = []
                    if be and not self._fails((False, mode, basis), clause):
                        toks.append('big-endian')
                    if mode not in self.BASE_MODES:
                        base_fails = any(self._fails((be, m, basis), clause) for m in self.BASE_MODES)
                        if not base_fails:
                            if mode == 'hostrand' and (be, 'host', basis) in self.seen and not self._fails((be, 'host', basis), clause):
                                toks.append('arbitrary-gate-operands')
                            elif mode == 'decorated' or (mode in ADVERSARIAL_MODES + ('twice',) and self._fails((be, 'decorated', basis), clause)):
                                toks.append('inputs-of-host')
                            elif mode in ADVERSARIAL_MODES or (mode == 'twice' and any(self._fails((be, m, basis), clause) for m in ADVERSARIAL_MODES)):
                                # calling twice is a special case of a host that holds colliding gates
                                toks.append('adversarial-host')
                            elif mode == 'twice':
                                toks.append('called-twice')
                            else:
                                toks.append('internal-gate-operands')
                    if basis is not None and basis != XAIG_ENUM:
                        enum_b = AIG_ENUM if basis[1] == 'AIG' else XAIG_ENUM
                        if basis[2] and not self._fails((be, mode, enum_b), clause):
                            # a string the callee does not recognise is served by the XAIG path: when that path
                            # fails for the enum too, the spelling is not what the failure depends on
                            if not (basis[1] == 'AIG' and self._fails((be, mode, XAIG_ENUM), clause)):
                                toks.append('basis-as-string')
                        elif basis[1] == 'AIG' and not self._fails((be, mode, XAIG_ENUM), clause):
                            toks.append('aig')
                    neutral = '-'.join(toks) or 'any'
                    witness = '-'.join(toks + ([self.core_token] if self.core_token else [])) or 'any'
                    if neutral == witness:
                        neutral = None
                    elif self.alt_tokens:
                        neutral = (neutral,) + tuple('-'.join(toks + [a]) for a in self.alt_tokens)
                if self.delegate is not None and any(x[0] == f'{self.prop}/{self.delegate}/{clause}' and x[1] == witness
                                                     for x in out.violations):
                    continue
                out.violation(f'{self.prop}/{self.fn}/{clause}', witness, detail, replay, neutral)


def replay(fn, variant, args, frame=None, **more):
    r = {'kind': 'bounded', 'function': fn, 'arguments': args}
    if variant is not None:
        r.update(variant.describe())
    if frame is not None and frame.pre is not None and len(frame.pre.gates) <= 160:
        r['circuit_before_call'] = frame.pre.to_json()
    r.update(more)
    return r


# ------------------------------------------------------------------------------------------------
# task runner
# ------------------------------------------------------------------------------------------------
def _run_task(t):
    import importlib
    modname, fname, prop, args = t
    mod = importlib.import_module(modname)
    out = Out()
    try:
        with deterministic_uuid(prop, fname, repr(args)):
            getattr(mod, fname)(out, *args)
    except Exception as e:  # a driver must never crash: report as a checker problem of this task
        out.errors.append(f'bounded driver task {prop}.{fname}{args!r} raised {type(e).__name__}: {e}\n' + traceback.format_exc()[-1500:])
    return out


def run_tasks(rep, prop, modname, tasks, quick):
    """tasks: list of (function name, args).  Sequential in the quick tier, forked pool in the thorough tier;
    results are merged in task order, so the outcome does not depend on scheduling.
    Violations are filed after all tasks have finished: a failure whose witness class carries a core-argument token
    (e.g. `unequal-lengths`) is dropped when the same obligation also fails in the class without that token (or with
    one of the alternative tokens of its Core), because then the token does not describe what the failure depends
    on (one root cause, one pair)."""
    items = [(modname, f, prop, a) for f, a in tasks]
    sampled = {}
    viol = []
    nproc = 1 if quick else max(1, min(16, ENV.NPROC, multiprocessing.cpu_count()))
    if nproc == 1 or len(items) < 4:
        for it in items:
            o = _run_task(it)
            o.merge_cases(rep, sampled)
            viol += o.violations
    else:
        ctx = multiprocessing.get_context('fork')
        with ctx.Pool(nproc) as pool:
            for o in pool.imap(_run_task, items, chunksize=1):
                o.merge_cases(rep, sampled)
                viol += o.violations
    have = {(v[0], v[1]) for v in viol}
    for o, w, d, r, neutral in viol:
        if neutral is not None and any((o, x) in have for x in ((neutral,) if isinstance(neutral, str) else neutral)):
            continue
        rep.violation(o, w, d, r)

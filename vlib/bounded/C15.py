"""C15 bounded stand-in: evaluation under partial assignments is sound, monotone and total.

For every circuit of the bounded space and every one of the 3^n partial assignments p (True / False /
undefined per input; undefined given both by omission and by an explicit `Undefined`):
  (S) every gate the real evaluator reports True/False has that value under every completion of p
      (oracle: den() of vlib/spec over all 2^n total assignments);
  (M) for every p' that defines exactly one more input than p, results defined under p are unchanged;
  (T) if p is total no evaluated gate is Undefined (evaluate_full_circuit: every gate;
      evaluate_circuit: the operand cone of the requested outputs; evaluate_circuit_outputs: outputs).
"""
import itertools

from .. import env
from ..spec import net as N
from ..spec import gen as G
from ..spec import ops as S
from . import _misc_common as M

NAME = 'partial-evaluation-vs-completions'
FUNCS = ('evaluate_full_circuit', 'evaluate_circuit', 'evaluate_circuit_outputs')


def _tri(v, Undefined):
    if v is True:
        return True
    if v is False:
        return False
    if v is Undefined or isinstance(v, type(Undefined)):
        return None
    return ('bad', repr(v))


def _witness(net, g):
    t, ops = net.gates[g]
    return f'op-{t}' + ('-nary>2' if len(ops) > 2 else '')


FN_OF_TYPE = {'ALWAYS_TRUE': 'always_true_', 'ALWAYS_FALSE': 'always_false_', 'AND': 'and_', 'GEQ': 'geq_', 'GT': 'gt_',
              'IFF': 'iff_', 'LEQ': 'leq_', 'LIFF': 'liff_', 'LNOT': 'lnot_', 'LT': 'lt_', 'NAND': 'nand_', 'NOR': 'nor_',
              'NOT': 'not_', 'NXOR': 'nxor_', 'OR': 'or_', 'RIFF': 'riff_', 'RNOT': 'rnot_', 'XOR': 'xor_'}


def _local_culprit(net, r_full, tab=None, comp=None):
    """Lowest gate whose reported value is wrong for some completion AND is not justified by the reported values
    of its own operands (defined although the operands leave it open, or different from the forced value): the
    operator of that gate type is unsound by itself. None if there is no such gate.  (A gate that reports more
    than the operator tables justify but is right for every completion - GT(x, x) = False - is not a culprit.)"""
    if r_full is None:
        return None
    rk = N.rank(net)
    for g in sorted(net.gates, key=lambda x: (rk[x], x)):
        t, ops = net.gates[g]
        if t == 'INPUT':
            continue
        v = r_full.get(g)
        if v is None or isinstance(v, tuple):
            continue
        if any(isinstance(r_full.get(o), tuple) for o in ops):
            continue
        if tab is not None and g in tab and all(tab[g][j] == v for j in comp):
            continue
        if S.OP3(t, [r_full.get(o) for o in ops]) != v:
            return g
    return None


def _lowest_bad(net, bad_gates):
    r = N.rank(net)
    return sorted(bad_gates, key=lambda g: (r[g], g))[0]


def check_net(acc, net):
    from cirbo.core.circuit.operators import Undefined
    n = len(net.inputs)
    try:
        c = N.build(net)
    except Exception as e:
        acc.violation('C15/setup/build', 'build-raises', M.exc_str(e), {'netlist': net.to_json()})
        return
    tab = M.all_tables(net)                      # label -> [den under X_j]
    total = list(N.assignments(n))
    out_cone = M.cone(net, net.outputs)
    last = [g for g in net.order if net.gates[g][0] != 'INPUT'][-1:]
    last_cone = M.cone(net, last)
    variants = [('evaluate_full_circuit', None, set(net.gates)),
                ('evaluate_circuit', None, out_cone),
                ('evaluate_circuit_outputs', None, set(net.outputs))]
    if last:
        variants.append(('evaluate_circuit', list(last), last_cone))
    results = {}                                 # (variant index, p) -> dict label -> True/False/None

    def call(vi, p, explicit):
        fn, outs, _ = variants[vi]
        a = {}
        for lab, v in zip(net.inputs, p):
            if v is None:
                if explicit:
                    a[lab] = Undefined
            else:
                a[lab] = v
        if fn == 'evaluate_full_circuit':
            r = c.evaluate_full_circuit(a)
        elif fn == 'evaluate_circuit_outputs':
            r = c.evaluate_circuit_outputs(a)
        elif outs is None:
            r = c.evaluate_circuit(a)
        else:
            r = c.evaluate_circuit(a, outputs=outs)
        return {g: _tri(v, Undefined) for g, v in r.items()}

    def replay(vi, p, extra):
        fn, outs, _ = variants[vi]
        d = {'kind': 'bounded', 'netlist': net.to_json(), 'function': fn, 'outputs_arg': outs,
             'partial_assignment': {lab: ('U' if v is None else v) for lab, v in zip(net.inputs, p)}}
        d.update(extra)
        return d

    def report(fn, clause, p, vi, g, detail, extra):
        """One finding per root cause: a locally unsound operator is reported once per gate type, whatever
        entry point / clause exposed it; anything else is reported per entry point and clause."""
        try:
            r_full = call(0, p, False)
        except Exception:
            r_full = None
        comp_p = [j for j, x in enumerate(total) if all(pv is None or pv == xv for pv, xv in zip(p, x))]
        cg = _local_culprit(net, r_full, tab, comp_p)
        if cg is not None:
            t = net.gates[cg][0]
            acc.violation(f'C15/{FN_OF_TYPE.get(t, t)}/sound-three-valued', f'op-{t}',
                          f'{t} gate {cg} reports {r_full[cg]} on operand values {[r_full.get(o) for o in net.gates[cg][1]]} '
                          f'(exposed by {fn}/{clause}: {detail})', replay(vi, p, dict(extra, culprit_gate=cg)))
        else:
            acc.violation(f'C15/{fn}/{clause}', _witness(net, g) if g in net.gates else 'extra-key', detail, replay(vi, p, extra))

    for p in itertools.product((False, True, None), repeat=n):
        comp = [j for j, x in enumerate(total) if all(pv is None or pv == xv for pv, xv in zip(p, x))]
        is_total = all(v is not None for v in p)
        for vi, (fn, outs, evaluated) in enumerate(variants):
            for explicit in (False, True):
                if explicit and is_total:
                    continue
                try:
                    r = call(vi, p, explicit)
                except Exception as e:
                    acc.violation(f'C15/{fn}/no-exception', 'raises-' + type(e).__name__, M.exc_str(e), replay(vi, p, {'explicit_undefined': explicit}))
                    continue
                if not explicit:
                    results[(vi, p)] = r
                acc.case(NAME, key=(net.key(), vi, p, explicit), nontrivial=not is_total and len(net.gates) > n)
                bad = [g for g, v in r.items() if isinstance(v, tuple)]
                if bad:
                    acc.violation(f'C15/{fn}/three-valued-result', 'not-a-gate-state', f'{bad[0]} -> {r[bad[0]]}', replay(vi, p, {}))
                    continue
                # (S) soundness
                wrong = [g for g, v in r.items() if v is not None and g in tab and any(tab[g][j] != v for j in comp)]
                if wrong:
                    g = _lowest_bad(net, wrong)
                    report(fn, 'sound', p, vi, g, f'gate {g} reported {r[g]} under partial assignment {p} but completions give {[tab[g][j] for j in comp]}',
                           {'gate': g, 'reported': r[g], 'completions': [tab[g][j] for j in comp]})
                # (T) totality
                if is_total:
                    undef = [g for g in evaluated if r.get(g, None) is None]
                    if undef:
                        g = _lowest_bad(net, undef)
                        report(fn, 'total-assignment-defined', p, vi, g, f'gate {g} is Undefined under the total assignment {p}', {'gate': g})
                missing = [g for g in evaluated if g not in r]
                if missing:
                    acc.violation(f'C15/{fn}/reports-evaluated-gates', 'gate-missing', f'{missing}', replay(vi, p, {}))
    # (M) monotonicity along the covering relation
    for (vi, p), r in results.items():
        fn = variants[vi][0]
        for i, v in enumerate(p):
            if v is not None:
                continue
            for b in (False, True):
                p2 = p[:i] + (b,) + p[i + 1:]
                r2 = results.get((vi, p2))
                if r2 is None:
                    continue
                changed = [g for g, val in r.items() if val is not None and r2.get(g) != val]
                if changed:
                    g = _lowest_bad(net, [x for x in changed if x in net.gates] or changed)
                    report(fn, 'monotone', p, vi, g, f'gate {g}: {r[g]} under {p} but {r2.get(g)} after additionally defining input {i}={b}',
                           {'gate': g, 'refined_assignment': [('U' if x is None else x) for x in p2]})


def _nets(chunk):
    kind = chunk[0]
    if kind == 'single':
        yield from M.single_gate_nets(max_nary=4)
    elif kind == 'enum':
        _, n_in, k, stride, offset = chunk
        alphabet = list(S.CONST) if (n_in == 0 and k > 0) else G.ALL_TYPES
        it = G.enum_nets(n_in, k, alphabet, max_nary=3)
        yield from (M.stride_sample(it, stride, offset) if stride > 1 else it)
    elif kind == 'random':
        _, idx, count = chunk
        r = M.rng('C15', 'random', idx)
        for _ in range(count):
            net = G.random_net(r, n_inputs=r.randint(0, 3), k_gates=r.randint(1, 7), max_nary=4, large_every=60)
            if N.arity(net):
                continue
            yield net


def work(acc, chunk):
    for net in _nets(chunk):
        if any(not S.arity_ok(t, len(o)) for t, o in net.gates.values()):
            continue
        check_net(acc, net)


def run_bounded(rep, quick):
    acc = M.Acc()
    acc.driver(NAME,
               'real evaluate_full_circuit / evaluate_circuit (outputs=None and outputs=[last gate]) / evaluate_circuit_outputs on all 3^n partial '
               'assignments (undefined inputs omitted and passed as Undefined) of (a) one circuit per gate type and arity 2..4, (b) all circuits with '
               '<=2 inputs (thorough <=3) and <=2 gates over all 18 gate types (arity<=3, repeated operands; quick: k=2 stride-sampled), (c) seeded random '
               'circuits <=3 inputs <=7 gates arity<=4 permuted storage; oracle: den() of vlib/spec over all completions; clauses sound / monotone '
               '(covering pairs) / total; non-trivial = properly partial assignment on a circuit with a non-input gate',
               'n<=2 (thorough 3), K<=2 enumerated; random K<=7', exhaustive=False)
    chunks = [('single',)]
    if quick:
        chunks += [('enum', n, k, 1, 0) for n in (0, 1, 2) for k in (0, 1)]
        chunks += [('enum', 1, 2, 3, 1), ('enum', 2, 2, 7, 5), ('enum', 3, 1, 1, 0)]
        chunks += [('random', i, 60) for i in range(2)]
    else:
        chunks += [('enum', n, k, 1, 0) for n in (0, 1, 2, 3) for k in (0, 1)]
        chunks += [('enum', 1, 2, 1, 0)]
        chunks += [('enum', 2, 2, 16, off) for off in range(16)]
        chunks += [('enum', 3, 2, 64 * 7, off * 7) for off in range(32)]
        chunks += [('random', i, 250) for i in range(32)]
    total = M.run_chunks(work, chunks, parallel=not quick)
    acc.merge(total)
    acc.flush(rep)

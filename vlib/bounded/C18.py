"""Bounded stand-in driver for C18: simplification passes achieve their stated effect; pipelines equal sequencing.

Clauses, each taken from the statement of C18 (oracle: vlib.spec only):
  RemoveRedundantGates/exactly-reachable   result gates = gates reachable from the outputs (+ all inputs unless removal was
                                           requested), each with its original type and operands
  RemoveRedundantGates/idempotent          applying it twice equals applying it once
  MergeDuplicateGates/no-duplicates        no two (non-input) gates with equal type and operands, operands compared as a
                                           multiset for the symmetric types
  MergeEquivalentGates/no-equal-tt         no two non-input gates with equal truth table
  MergeUnaryOperators/no-not-of-not        if every unary gate (NOT/LNOT/RNOT/IFF/LIFF/RIFF) of the argument is a negation:
                                           no negation whose significant operand is a negation
  MergeUnaryOperators/no-buffer-used       if every unary gate of the argument is a buffer: no buffer is an operand or an output
  <pipeline kind>/equals-sequencing        `a | b`, list application, TransformerComposition, cleanup give the same circuit
                                           (Circuit.__eq__ and equal inputs/outputs/gate map) as .transform() of the constituent
                                           passes one after another
A pass that raises is C03's business (C03/<pass>/returns) and is skipped here, except that a pipeline that raises while
manual sequencing works (or vice versa) violates equals-sequencing.
"""
from ..spec import net as N
from ..spec import ops as S
from . import _simp_common as C

NAME = 'simplification-normal-forms-and-pipelines'
_P = None


def _passes():
    global _P
    if _P is None:
        _P = C.passes()
    return _P


def _run(expr, net):
    """(result circuit, snapshot) or (None, 'Exc: msg')."""
    try:
        res = C.apply_expr(expr, N.build(net), _passes())
        return res, N.snapshot(res)
    except Exception as e:      # noqa
        return None, f'{type(e).__name__}: {str(e)[:160]}'


def dup_key(t, ops):
    return (t, tuple(sorted(ops))) if S.SYMMETRIC[t] else (t, tuple(ops))


def base_failures(net, expr):
    """{clause: (detail, observed, expected)} of the normal-form clauses for one base pass."""
    bad = {}
    res, r = _run(expr, net)
    if res is None:
        return bad
    if expr in ('RRG', 'RRG!'):
        reach = C.reachable(net)
        want = {g: net.gates[g] for g in net.gates if g in reach or (expr == 'RRG' and net.gates[g][0] == 'INPUT')}
        if dict(r.gates) != want:
            extra = sorted(set(r.gates) - set(want))
            missing = sorted(set(want) - set(r.gates))
            changed = sorted(g for g in set(want) & set(r.gates) if want[g] != r.gates[g])
            bad['exactly-reachable'] = (f'unexpected gates {extra}, missing gates {missing}, redefined gates {changed}',
                                        [[k, t, list(o)] for k, (t, o) in r.gates.items()], [[k, t, list(o)] for k, (t, o) in want.items()])
        res2, r2 = _run(expr, N.Net(r.inputs, r.outputs, r.gates))
        if res2 is None:
            bad['idempotent'] = (f'second application raised {r2}', r2, 'same circuit as after one application')
        elif not (res2 == res) or not C.same_circuit(r, r2):
            bad['idempotent'] = ('applying the pass twice differs from applying it once', r2.to_json(), r.to_json())
    elif expr == 'MDG':
        seen = {}
        for g, (t, ops) in r.gates.items():
            if t == 'INPUT':
                continue
            k = dup_key(t, ops)
            if k in seen:
                bad['no-duplicates'] = (f'result still has duplicate gates {seen[k]!r} and {g!r}: {t}{tuple(ops)} / {r.gates[seen[k]][1]}',
                                        r.to_json(), 'no two gates with equal type and operands')
                break
            seen[k] = g
    elif expr == 'MEG':
        gtt = N.gates_tt(r)
        seen = {}
        for g, (t, ops) in r.gates.items():
            if t == 'INPUT':
                continue
            k = tuple(gtt[g])
            if k in seen:
                bad['no-equal-tt'] = (f'result still has equivalent non-input gates {seen[k]!r} and {g!r} (truth table {[int(b) for b in k]})',
                                      r.to_json(), 'no two non-input gates with equal truth table')
                break
            seen[k] = g
    elif expr == 'MUO':
        types = {t for t, _ in net.gates.values()}
        has_neg, has_buf = bool(types & set(C.NEG)), bool(types & set(C.BUF))
        if not has_buf:
            for g, (t, ops) in r.gates.items():
                if t in C.NEG and r.gates[ops[C.SIGNIFICANT[t]]][0] in C.NEG:
                    o = ops[C.SIGNIFICANT[t]]
                    bad['no-not-of-not'] = (f'result has {g} = {t}{tuple(ops)} whose negated operand {o} = {r.gates[o][0]}{tuple(r.gates[o][1])} is a negation',
                                            r.to_json(), 'no negation of a negation')
                    break
        if not has_neg:
            bufs = {g for g, (t, _) in r.gates.items() if t in C.BUF}
            used = [(g, o) for g, (t, ops) in r.gates.items() for o in ops if o in bufs]
            outs = [o for o in r.outputs if o in bufs]
            if used or outs:
                bad['no-buffer-used'] = (f'result uses buffers: as operand {used[:3]}, as output {outs[:3]}', r.to_json(),
                                         'no buffer as operand or output')
    return bad


def pipeline_failure(net, expr):
    """None or (detail, observed, expected, kind) for the equals-sequencing clause."""
    res, r = _run(expr, net)
    cur_net, cur, cs, err = net, None, None, None
    for b in C.constituents(expr):
        cur, cs = _run(b, cur_net)
        if cur is None:
            err = f'{b}: {cs}'
            break
        cur_net = N.Net(cs.inputs, cs.outputs, cs.gates)
    if res is None and err is not None:
        return None                                  # both fail: not a C18 matter
    if res is None:
        return (f'pipeline raised {r} but manual sequencing works', r, cs.to_json(), 'pipeline-raises')
    if err is not None:
        return (f'manual sequencing raised ({err}) but the pipeline returns', r.to_json(), err, 'manual-raises')
    eq = None
    try:
        eq = bool(res == cur)
    except Exception as e:      # noqa
        eq = f'== raised {type(e).__name__}'
    if eq is not True or not C.same_circuit(r, cs):
        diffs = []
        if r.inputs != cs.inputs:
            diffs.append('inputs')
        if r.outputs != cs.outputs:
            diffs.append('outputs')
        if r.gates != cs.gates:
            diffs.append('gates')
        return (f'pipeline result differs from manual sequencing of {C.constituents(expr)} in {diffs} (== gives {eq})',
                r.to_json(), cs.to_json(), '+'.join(diffs) or 'eq-only')
    return None


_count = {}


def check(net, pipes):
    out = []
    for expr in pipes:
        if isinstance(expr, str):
            bad = base_failures(net, expr)
            for clause in bad:
                pname = 'RemoveRedundantGates' if expr in ('RRG', 'RRG!') else C.expr_name(expr)
                obligation = f'C18/{pname}/{clause}'
                k = _count[obligation] = _count.get(obligation, 0) + 1
                if k > 150:
                    continue
                small = C.shrink(net, lambda m: clause in base_failures(m, expr), budget=600 if k <= 12 else 80)
                detail, obs, exp = base_failures(small, expr)[clause]
                wc = C.wclass(small) + ('+input-removal' if expr == 'RRG!' else '')
                out.append((obligation, wc, f'{expr} on {small.to_json()["gates"]} outputs={small.outputs}: {detail}',
                            C.replay(small, expr, obs, exp, {'clause': clause, 'found_on_netlist': net.to_json()})))
        else:
            f = pipeline_failure(net, expr)
            if f is None:
                continue
            obligation = f'C18/{C.expr_name(expr)}/equals-sequencing'
            k = _count[obligation] = _count.get(obligation, 0) + 1
            if k > 150:
                continue
            kind = f[3]
            small = C.shrink(net, lambda m: (pipeline_failure(m, expr) or (0, 0, 0, None))[3] == kind, budget=600 if k <= 12 else 80)
            detail, obs, exp, kind = pipeline_failure(small, expr)
            out.append((obligation, kind + ':' + C.wclass(small),
                        f'{C.expr_str(expr)} on {small.to_json()["gates"]} outputs={small.outputs}: {detail}',
                        C.replay(small, expr, obs, exp, {'clause': 'equals-sequencing', 'constituents': C.constituents(expr),
                                                         'found_on_netlist': net.to_json()})))
    return out


C.register('C18', check)


def run_bounded(rep, quick):
    rep.bounded_driver(
        NAME,
        'normal-form predicates written from the statement (reachable set + idempotence for RemoveRedundantGates with/without input removal; '
        'no duplicate (type, operands) after MergeDuplicateGates; no two non-input gates with equal truth table after MergeEquivalentGates; '
        'no NOT-of-NOT / no used buffer after MergeUnaryOperators under the stated preconditions) and pipeline == manual sequencing for '
        '`|` (nested both ways, repeated idempotent passes), lists, TransformerComposition, apply_transformers(composition), cleanup light/heavy; '
        'same circuit space as C03: (a) all circuits with <=2 inputs and <=2 gates (quick: reduced alphabet for 2 gates; thorough: all 18 types, '
        'arity 2..3, plus 2 inputs x 3 gates reduced), several output lists, (b) seeded random circuits <=4 inputs, <=8 (quick) / <=10 (thorough) '
        'gates incl. neg-only, buffer-only and parity-with-repeated-operands families, (c) the targeted family of C03: every n-ary type T with '
        'T(x,x,y), T(x,y), T(x,y,y), T(y,x), T(x,y,x), ... side by side and T(G1,G2,c) over two duplicate gates G1, G2 (multiset comparison of the '
        'operands in no-duplicates matters exactly here); one evaluation = one (circuit, pass or pipeline) pair',
        'K<=2 exhaustive (reduced alphabet in quick); repeated-operand family 504 (quick) / 1296 (thorough) circuits of 5-9 gates; '
        'unary-chain family (chains of 2..6 (quick) / 2..8 (thorough) NOT/LNOT/RNOT/IFF/LIFF/RIFF gates, tapped at the end, at every member and by consumers; 300 / 420 circuits); '
        'random K<=8 (quick) / K<=10 (thorough)', exhaustive=False)
    C.run_chunks(rep, NAME, quick, 'C18', check)

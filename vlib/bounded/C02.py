"""C02 bounded stand-in: histories of public mutator calls on the real Circuit; after every call that returns
normally the executable WF predicate (W1..W5, W7 of the statement) and the real top_sort in both directions are
checked on the snapshot, and copy.copy is checked for equality and independence."""
import copy

from .. import env
from ..spec import net as N
from . import _circ_common as K

NAME = 'mutator-histories-keep-WF'

# functions that only forward to connect_circuit: a failure is attributed to connect_circuit, the wrapper is a feature
WRAPPERS = ('connect_left', 'connect_right', 'connect_inputs', 'extend_circuit', 'add_circuit')


# ---- the attached circuits used by the composition calls ----------------------------------------------------

def _others():
    A = K.mk(['y0', 'y1'], [('h0', 'XOR', ['y0', 'y1']), ('h1', 'NOT', ['h0'])], ['h1'])
    B = K.mk(['z0'], [('k0', 'NOT', ['z0']), ('k1', 'AND', ['k0', 'z0'])], ['k1', 'z0'],
             blocks={'kb': {'inputs': ['z0'], 'gates': ['k0'], 'outputs': ['k0']}})
    return {'A': A, 'B': B}


def _other_n(n):
    """attached circuit with n inputs w0.. and n outputs (for connect_inputs / extend right)"""
    ins = [f'w{i}' for i in range(n)]
    gates = [(f'u{i}', 'NOT', [ins[i]]) for i in range(n)]
    if n >= 2:
        gates.append(('u_and', 'AND', ins[:2]))
    return K.mk(ins, gates, [f'u{i}' for i in range(n)])


# ---- candidate calls ----------------------------------------------------------------------------------------
# an op is (function name, variant token, feature set, json-able args, callable(circuit) -> circuit or None)

def candidates(c, step):
    from cirbo.core.circuit import gate
    from cirbo.core.circuit.gate import Gate
    s = N.snapshot(c)
    G_ = list(s.gates)
    I, O = list(s.inputs), list(s.outputs)
    NI = [g for g in G_ if s.gates[g][0] != 'INPUT']
    fresh = lambda k: f'n{step}_{k}'
    ops = []

    def add(fn, variant, args, call, feats=()):
        # variant: human-readable tag kept in the replay; the witness class is built from `feats` only
        ops.append((fn, '', frozenset(feats), args if not isinstance(args, list) else {'args': args, 'variant': variant}, call))

    def gfe(g):
        f = set()
        if s.gates[g][0] == 'INPUT':
            f.add('input-gate')
        if g in O:
            f.add('output-gate')
        if any(g in b_[fld] for b_ in s.blocks.values() for fld in ('inputs', 'gates')):
            f.add('in-block')
        return f

    a = G_[0] if G_ else None
    b = G_[-1] if G_ else None
    # -- adding gates
    add('emplace_gate', 'input', [fresh('i'), 'INPUT', []], lambda c: c.emplace_gate(fresh('i'), gate.INPUT), ['no-operands', 'input-type'])
    add('emplace_gate', 'constant', [fresh('c'), 'ALWAYS_FALSE', []], lambda c: c.emplace_gate(fresh('c'), gate.ALWAYS_FALSE), ['no-operands'])
    if G_:
        add('emplace_gate', 'unary', [fresh('n'), 'NOT', [b]], lambda c: c.emplace_gate(fresh('n'), gate.NOT, (b,)))
        add('emplace_gate', 'binary', [fresh('a'), 'AND', [a, b]], lambda c: c.emplace_gate(fresh('a'), gate.AND, (a, b)), ['two-operands'])
        add('emplace_gate', 'repeated-operand', [fresh('g'), 'GT', [b, b]], lambda c: c.emplace_gate(fresh('g'), gate.GT, (b, b)), ['two-operands', 'repeated-operand'])
        add('emplace_gate', 'lr-type', [fresh('l'), 'LIFF', [a, b]], lambda c: c.emplace_gate(fresh('l'), gate.LIFF, (a, b)), ['two-operands', 'lr-type'])
        add('add_gate', 'nary3', [fresh('x'), 'XOR', [a, b, a]], lambda c: c.add_gate(Gate(fresh('x'), gate.XOR, (a, b, a))), ['three-operands', 'repeated-operand'])
    add('add_inputs', 'two', [[fresh('p'), fresh('q')]], lambda c: c.add_inputs([fresh('p'), fresh('q')]))
    # -- removing / renaming
    for g in G_[:6]:
        add('remove_gate', 'any', [g], lambda c, g=g: c.remove_gate(g), gfe(g))
        add('rename_gate', 'any', [g, fresh('r') + g], lambda c, g=g: c.rename_gate(g, fresh('r') + g), gfe(g))
    # -- interface
    add('set_outputs', 'empty', [[]], lambda c: c.set_outputs([]), ['empty'])
    if G_:
        add('set_outputs', 'repeated', [[a, b, a]], lambda c: c.set_outputs([a, b, a]), ['repeated'])
        add('mark_as_output', 'any', [a], lambda c: c.mark_as_output(a))
    if len(O) >= 2:
        add('order_outputs', 'partial', [[O[-1]]], lambda c: c.order_outputs([O[-1]]))
    if len(I) >= 2:
        add('set_inputs', 'reversed', [I[::-1]], lambda c: c.set_inputs(I[::-1]))
        add('order_inputs', 'partial', [[I[-1]]], lambda c: c.order_inputs([I[-1]]))
    if I:
        add('replace_inputs', 'to-true', [[I[0]], []], lambda c: c.replace_inputs([I[0]], []), ['to-true'])
        add('replace_inputs', 'to-false', [[], [I[-1]]], lambda c: c.replace_inputs([], [I[-1]]), ['to-false'])
    if len(I) >= 2:
        add('replace_inputs', 'mixed', [[I[0]], [I[1]]], lambda c: c.replace_inputs([I[0]], [I[1]]), ['to-true', 'to-false'])
    # -- composition
    oth = _others()

    def conn(other_name, tc, oc, right, name, fn='connect_circuit', feats=()):
        other = oth[other_name] if other_name in oth else _other_n(int(other_name[1:]))
        f = set(feats)
        flex, fnet = (oc, other) if right else (tc, s)
        if any(fnet.gates[g][0] != 'INPUT' for g in flex if g in fnet.gates):
            f.add('gate-connector')
        if len(set(flex)) < len(flex):
            f.add('repeated-connector')
        if name:
            f.add('named')
        if fn != 'connect_circuit':
            f.add(fn)
        args = {'other': other.to_json(), 'this_connectors': list(tc), 'other_connectors': list(oc), 'right_connect': right, 'name': name}

        def call(c):
            co = N.build(other)
            if fn == 'connect_circuit':
                return c.connect_circuit(co, list(tc), list(oc), right_connect=right, name=name)
            if fn == 'connect_left':
                return c.connect_left(co, list(tc), name=name)
            if fn == 'connect_right':
                return c.connect_right(co, list(oc), name=name)
            if fn == 'connect_inputs':
                return c.connect_inputs(co, name=name)
            if fn == 'extend_circuit':
                return c.extend_circuit(co, right_connect=right, name=name)
            if fn == 'add_circuit':
                return c.add_circuit(co, name=name)
        base = 'side-by-side' if not tc else ('right' if right else 'left')
        ops.append(('connect_circuit', base, frozenset(f), dict(args, function=fn), call))

    nm = fresh('blk')
    conn('A', [], [], False, '', fn='add_circuit')
    conn('A', [], [], False, nm, fn='add_circuit')
    if G_:
        conn('A', [a, b], ['y0', 'y1'], False, '')
        conn('A', [b, b], ['y1', 'y0'], False, nm)
        conn('A', [b], ['y1'], False, nm)
        conn('B', [b], ['z0'], False, nm, fn='connect_left')
    if I:
        conn('A', [I[0]], ['h0'], True, '')                       # right connection, connector = internal gate of other
        conn('A', [I[-1]], ['h1'], True, nm)
        conn('A', [I[0]], ['y0'], True, nm)                       # right connection, input to input
        conn('B', [I[0]], ['k1'], True, nm)
        if len(I) >= 2:
            conn('A', [I[1], I[0]], ['h1', 'h0'], True, nm)
            conn('A', [I[0], I[1]], ['h0', 'h0'], True, '')
        conn('B', list(I), (['k1', 'k0', 'z0'] * len(I))[:len(I)], True, nm, fn='connect_right')
        conn(f'N{len(I)}', list(I), [f'w{i}' for i in range(len(I))], True, nm, fn='connect_inputs')
        conn(f'N{len(I)}', list(I), [f'u{i}' for i in range(len(I))], True, nm, fn='extend_circuit')
    if len(O) == 1:
        conn('B', list(O), ['z0'], False, nm, fn='extend_circuit')
    # -- blocks
    if NI:
        add('make_block', 'inputs-collected', [fresh('mb'), NI[:2], NI[:1]], lambda c: c.make_block(fresh('mb'), NI[:2], NI[:1]))
        add('make_block_from_slice', 'from-inputs', [fresh('ms'), I, NI[-1:]], lambda c: c.make_block_from_slice(fresh('ms'), list(I), NI[-1:]))
    for bn in list(s.blocks)[:2]:
        add('delete_block', 'any', [bn], lambda c, bn=bn: c.delete_block(bn))
        add('remove_block', 'any', [bn], lambda c, bn=bn: c.remove_block(bn))
    # -- bench conversion, subcircuit replacement, copy
    add('into_bench', 'any', [], lambda c: c.into_bench())
    for g in NI[-2:]:
        t, gops = s.gates[g]
        leaves = list(dict.fromkeys(gops))
        sub = K.mk([f's{step}_{i}' for i in range(len(leaves))],
                   [(f't{step}', t, [f's{step}_{leaves.index(o)}' for o in gops])], [f't{step}'])
        im = {l: f's{step}_{i}' for i, l in enumerate(leaves)}
        om = {g: f't{step}'}
        add('replace_subcircuit', 'single-gate-copy', {'subcircuit': sub.to_json(), 'inputs_mapping': im, 'outputs_mapping': om},
            lambda c, sub=sub, im=im, om=om: c.replace_subcircuit(N.build(sub), dict(im), dict(om)))
        im2, om2 = {l: l for l in leaves}, {g: g}
        sub2 = K.mk(leaves, [(g, t, list(gops))], [g])
        add('replace_subcircuit', 'identity-labels', {'subcircuit': sub2.to_json(), 'inputs_mapping': im2, 'outputs_mapping': om2},
            lambda c, sub2=sub2, im2=im2, om2=om2: c.replace_subcircuit(N.build(sub2), dict(im2), dict(om2)), ['identity-labels'])
    # a two-gate region g -> h whose first gate keeps users outside the region: both gates are mapped outputs, so the
    # re-created g gets its outside users back while h (inside the replacement) registers as a user as well
    def _cone(l, seen=None):
        seen = set() if seen is None else seen
        for o in s.gates[l][1]:
            if o not in seen:
                seen.add(o)
                _cone(o, seen)
        return seen
    done = 0
    for g in NI:
        for h in NI:
            if done >= 2 or h == g or g not in s.gates[h][1]:
                continue
            outside = [u for u in NI if u not in (g, h) and g in s.gates[u][1]]
            if not outside:
                continue
            leaves = list(dict.fromkeys(list(s.gates[g][1]) + [o for o in s.gates[h][1] if o != g]))
            if any(g in _cone(l) or l in (g, h) for l in leaves):
                continue
            nm_ = {l: f'r{step}_{i}' for i, l in enumerate(leaves)}
            nm_[g] = f'rs{step}'
            sub3 = K.mk([nm_[l] for l in leaves], [(f'rs{step}', s.gates[g][0], [nm_[o] for o in s.gates[g][1]]),
                                                  (f'rt{step}', s.gates[h][0], [nm_[o] for o in s.gates[h][1]])], [f'rs{step}', f'rt{step}'])
            im3 = {l: nm_[l] for l in leaves}
            om3 = {g: f'rs{step}', h: f'rt{step}'}
            add('replace_subcircuit', 'chained-mapped-outputs', {'subcircuit': sub3.to_json(), 'inputs_mapping': im3, 'outputs_mapping': om3},
                lambda c, sub3=sub3, im3=im3, om3=om3: c.replace_subcircuit(N.build(sub3), dict(im3), dict(om3)), ['chained-mapped-outputs'])
            done += 1
    add('copy', 'continue-with-copy', [], lambda c: copy.copy(c))
    return ops


# ---- copy clause ------------------------------------------------------------------------------------------

def _copy_mutations(s):
    from cirbo.core.circuit import gate
    G_ = list(s.gates)
    muts = [('emplace_gate', lambda d: d.emplace_gate('cp_new', gate.INPUT)),
            ('set_outputs', lambda d: d.set_outputs([])),
            ('into_bench', lambda d: d.into_bench())]
    if G_:
        muts.append(('rename_gate', lambda d: d.rename_gate(G_[0], 'cp_ren')))
        muts.append(('emplace_gate', lambda d: d.emplace_gate('cp_not', gate.NOT, (G_[-1],))))
        muts.append(('remove_gate', lambda d: d.remove_gate(G_[-1])))
        muts.append(('mark_as_output', lambda d: d.mark_as_output(G_[0])))
    if s.inputs:
        muts.append(('replace_inputs', lambda d: d.replace_inputs([s.inputs[0]], [])))
        muts.append(('order_inputs', lambda d: d.order_inputs([s.inputs[-1]])))
    for bn in list(s.blocks)[:1]:
        muts.append(('rename_gate-in-block', lambda d: d.rename_gate((s.blocks[bn]['gates'] or s.blocks[bn]['inputs'] or G_)[0], 'cp_bren')))
        muts.append(('delete_block', lambda d: d.delete_block(bn)))
    return muts


def _shape(s):
    """shape features of a state for the copy clause"""
    f = set()
    if s.blocks:
        f.add('blocks')
    if not s.gates:
        f.add('empty-circuit')
    if len(set(s.outputs)) < len(s.outputs):
        f.add('repeated-outputs')
    if any(len(set(o)) < len(o) for _, o in s.gates.values()):
        f.add('repeated-operand')
    return f


def check_copy(c, s, fail):
    """copy.copy(c) == c, equal by snapshot, no shared containers, mutating the copy leaves c's snapshot unchanged."""
    try:
        d = copy.copy(c)
    except Exception as e:
        fail('copy/returns-normally', K.exc_str(e))
        return
    try:
        eq = (d == c)
    except Exception as e:
        eq = K.exc_str(e)
    if eq is not True:
        fail('copy/equal-to-original', f'copy.copy(c) == c gives {eq}')
    ds = N.snapshot(d)
    if (ds.inputs, ds.outputs, dict(ds.gates)) != (s.inputs, s.outputs, dict(s.gates)):
        fail('copy/equal-to-original', f'copy differs: {K.net_json(ds)} vs original {K.net_json(s)}')
        return
    if ds.blocks != s.blocks:
        fail('copy/blocks-equal-to-original', f'blocks of the copy {ds.blocks} vs original {s.blocks}')
        return
    wf = K.wf_first(ds, d)
    if wf:
        fail(f'copy/{wf[0]}', 'the copy is not well formed: ' + wf[1])
    shared = []
    for fld in ('_inputs', '_outputs', '_gates', '_gate_to_users', '_blocks'):
        if getattr(d, fld) is getattr(c, fld):
            shared.append(fld)
    for k, v in c._gate_to_users.items():
        if d._gate_to_users.get(k) is v:
            shared.append(f'_gate_to_users[{k}]')
    for bn, blk in c._blocks.items():
        db = d._blocks.get(bn)
        if db is blk:
            shared.append(f'_blocks[{bn}]')
        elif db is not None:
            for fld in ('_inputs', '_gates', '_outputs'):
                if getattr(db, fld) is getattr(blk, fld):
                    shared.append(f'_blocks[{bn}].{fld}')
            if db._owner is not d:
                shared.append(f'_blocks[{bn}]._owner')
    if shared:
        fail('copy/shares-no-mutable-state', f'copy shares {shared} with its original')
        return
    before = K.state_of(s)
    for mname, mut in _copy_mutations(s):
        ref = K.clone_raw(c)            # the explored state itself is never put at risk
        try:
            d2 = copy.copy(ref)
            mut(d2)
        except Exception:
            continue
        after = N.snapshot(ref)
        if K.state_of(after) != before or after.order != s.order:
            fail('copy/shares-no-mutable-state', f'{mname} on the copy changed the original: {K.net_json(s)} -> {K.net_json(after)}', mname)
            return


# ---- history exploration ------------------------------------------------------------------------------------

class Explorer:
    def __init__(self, col):
        self.col = col
        self.cases = 0
        self.keys = set()
        self.raised = 0
        self.samples = []
        self.seen = {}

    def after_call(self, start, hist, c, op):
        """c: state after the last call of hist returned normally. Returns True if exploring may continue."""
        fn, variant, feats, args, _ = op
        s = N.snapshot(c)
        f = set(feats)
        base = variant
        size = len(hist) * 100 + len(s.gates)
        rp = {'kind': 'bounded', 'start': start.to_json(), 'history': hist, 'state_after': K.net_json(s),
              'how': 'build(start) through _emplace_gate, then the calls of `history` in order on the same object'}
        ok = True

        def fail(clause, detail, extra=None):
            nonlocal ok
            ok = False
            self.col.add(f'C02/{fn}/{clause}', base, f, size, detail, dict(rp, mutation_of_copy=extra) if extra else rp)

        wf = K.wf_first(s, c)
        if wf:
            fail(wf[0], wf[1])
            return False            # everything after a broken state is a consequence
        # copy clause at this state (attributed to the call that produced the state)
        okc = True

        def failc(clause, detail, extra=None):
            nonlocal okc
            okc = False
            self.col.add(f'C02/{clause}', '', _shape(s), size, detail,
                         dict(rp, mutation_of_copy=extra) if extra else rp)
        check_copy(c, s, failc)
        return okc

    def check_start(self, start, c):
        """copy clause on the starting circuit itself (empty history): universal copy defects get the class `any`."""
        s = N.snapshot(c)
        rp = {'kind': 'bounded', 'start': start.to_json(), 'history': [], 'state_after': K.net_json(s)}
        check_copy(c, s, lambda clause, detail, extra=None: self.col.add(
            f'C02/{clause}', '', _shape(s), len(s.gates), detail, dict(rp, mutation_of_copy=extra) if extra else rp))

    def explore(self, start, c, hist, depth, step, rng=None, first_filter=None):
        if depth == 0:
            return
        if rng is None:
            key = K.state_key(N.snapshot(c))
            if self.seen.get(key, 0) >= depth:
                return
            self.seen[key] = depth
        ops = candidates(c, step)
        if rng is not None:
            rng.shuffle(ops)
        for i, op in enumerate(ops):
            if first_filter is not None and not hist and i % first_filter[1] != first_filter[0]:
                continue
            fn, variant, feats, args, call = op
            c2 = K.clone_raw(c)
            try:
                r = call(c2)
            except Exception:
                self.raised += 1
                continue
            if fn == 'copy':
                c2 = r
            h2 = hist + [{'function': args['function'] if isinstance(args, dict) and 'function' in args else fn, 'args': args}]
            self.cases += 1
            self.keys.add(hash((start.key(), repr(h2))))
            if len(self.samples) < 2 and len(h2) >= 2:
                self.samples.append({'start': start.to_json(), 'history': h2})
            if self.after_call(start, h2, c2, op):
                self.explore(start, c2, h2, depth - 1, step + 1, rng)
            if rng is not None:
                break               # random histories: one successful call per step


def starts():
    return [
        K.mk([], [], []),
        K.mk(['x0', 'x1'], [('g0', 'AND', ['x0', 'x1']), ('g1', 'NOT', ['g0'])], ['g1']),
        K.mk(['x0'], [('g0', 'GT', ['x0', 'x0']), ('g1', 'ALWAYS_TRUE', []), ('g2', 'OR', ['g0', 'g1', 'x0'])], ['g2', 'x0'],
             blocks={'B0': {'inputs': ['x0'], 'gates': ['g0'], 'outputs': ['g0']}}),
        K.mk(['x0', 'x1', 'x2'], [('g0', 'LIFF', ['x1', 'x2'])], ['g0', 'g0']),
    ]


def _worker(task):
    env.setup_import_paths()
    col = K.Collector()
    ex = Explorer(col)
    kind = task[0]
    S = starts()
    if kind == 'exhaustive':
        _, si, depth, part, parts = task
        start = S[si]
        c0 = N.build(start)
        if part == 0:
            ex.check_start(start, c0)
        ex.explore(start, c0, [], depth, 0, None, (part, parts) if parts > 1 else None)
    else:
        _, count, length, part = task[:4]
        budget = K.Budget(task[4]) if len(task) > 4 else None
        rng = K.rng_for('C02', 'random', part)
        for _i in range(count):
            if budget and budget.over():
                break
            start = rng.choice(S)
            ex.explore(start, N.build(start), [], rng.randint(3, length), 0, rng)
    return ex.cases, ex.keys, ex.raised, ex.samples, col.items


def run_bounded(rep, quick):
    d = rep.bounded_driver(
        NAME, 'histories of public mutator calls (emplace_gate/add_gate/add_inputs, remove_gate, rename_gate, set/mark/order outputs, set/order inputs, '
        'replace_inputs, connect_circuit left and right incl. internal-gate and repeated connectors, connect_left/right/inputs, extend_circuit, add_circuit, '
        'make_block(_from_slice), delete_block, remove_block, into_bench, replace_subcircuit, copy.copy) with arguments drawn from the current circuit, '
        'on 4 starting circuits; every call is tried on a raw clone of the pre-state, calls that raise are dropped; after every call that returns '
        'normally: W1..W5, W7 (block members and inputs) on the snapshot, real top_sort in both directions, copy.copy(c) == c, no shared containers, '
        'mutating the copy leaves the original unchanged. A branch stops at its first violation. non-trivial = distinct history',
        'quick: all histories of <=2 calls (about 50 candidate calls per state) + 600 random histories of length 3..6; '
        'thorough: all histories of <=3 calls + 40000 random histories of length 3..10', exhaustive=False)
    tasks = []
    if quick:
        tasks += [('exhaustive', si, 2, 0, 1) for si in range(4)]
        tasks += [('random', 600, 6, 0, 8.0)]
    else:
        tasks += [('exhaustive', si, 3, p, 16) for si in range(4) for p in range(16)]
        tasks += [('random', 2500, 10, p) for p in range(16)]
    col = K.Collector()
    raised = 0
    for cases, keys, r, samples, items in K.run_chunks(_worker, tasks, quick):
        K.account(rep, NAME, cases, keys, samples)
        raised += r
        col.merge(items)
    d['bound'] += f' [{raised} candidate calls raised and were dropped]'
    col.flush(rep)

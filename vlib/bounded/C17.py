"""Bounded stand-in drivers for C17: shipped circuit databases and lookups.

Driver `db-entries` (finite domain; ALL 2 x 349 724 entries in the thorough tier -> exhaustive=True; seeded 2 % sample in quick):
  every key of aig_db.bin.xz / xaig_db.bin.xz decodes (CircuitsDatabase.get_by_label) to a circuit that is well-formed (W1..W5 + arity),
  has log2(len(row)) inputs, whose truth table (spec evaluator on the snapshot) is exactly the key, and whose gate types belong to
  the basis of that database (AIG: INPUT, NOT/LNOT, AND, OR, NAND, NOR, GT, LT, GEQ, LEQ -- `Basis.AIG` of the statement's anchors,
  i.e. no XOR/NXOR, no buffers, no constants; XAIG: the same plus XOR, NXOR).
Driver `db-lookups`: get_by_raw_truth_table on all tables with 2 inputs and 1-2 outputs (3 outputs: all in thorough, sample in quick),
  a seeded sample with 3 inputs and 1-3 outputs (equal / complementary / permuted rows forced in), a few 4-output tables, tables the
  databases cannot hold (1 or 4 inputs), list rows and tuple rows: result computes exactly the table in the requested order (spec
  evaluator), is WF, and is None only if the table normalised BY THIS DRIVER (negate rows starting with 1, sort, drop duplicates) is not
  a key of the database.  get_by_raw_truth_table_model with don't-cares: result agrees with every defined entry and its number of
  non-trivial gates is <= that of the stored circuit of every completion (sizes counted on snapshots of the stored entries).
"""
import itertools
import random

from .. import env
from ..spec import net as N

AIG_TYPES = {'INPUT', 'NOT', 'LNOT', 'AND', 'OR', 'NAND', 'NOR', 'GT', 'LT', 'GEQ', 'LEQ'}
XAIG_TYPES = AIG_TYPES | {'XOR', 'NXOR'}
TRIVIAL = {'INPUT', 'NOT', 'LNOT', 'RNOT', 'IFF', 'LIFF', 'RIFF', 'ALWAYS_TRUE', 'ALWAYS_FALSE'}   # gates_number() default exclusion

ENTRIES = 'db-entries'
LOOKUPS = 'db-lookups'

_DBS = {}


def _rng(*salt):
    return random.Random('/'.join(str(s) for s in (env.SEED, 'C17') + salt))


def open_dbs():
    if not _DBS:
        from cirbo.circuits_db.db import CircuitsDatabase
        from cirbo.circuits_db.data_utils import DEFAULT_AIG_DB_PATH, DEFAULT_XAIG_DB_PATH
        for name, path in (('aig', DEFAULT_AIG_DB_PATH), ('xaig', DEFAULT_XAIG_DB_PATH)):
            db = CircuitsDatabase(path)
            db.open()
            _DBS[name] = db
    return _DBS


# ------------------------------------------------------------------ entries ----------
def check_entry(dbname, key):
    """[(clause, witness_class, detail, observed, expected)] for one stored entry."""
    db = _DBS[dbname]
    rows = key.split('_')
    shape = f'{dbname}:{len(rows[0])}cols-{len(rows)}rows'
    try:
        c = db.get_by_label(key)
    except Exception as e:      # noqa
        return [('decodes', f'{dbname}:{type(e).__name__}', f'get_by_label({key!r}) raised {type(e).__name__}: {e}', repr(e), 'a circuit')]
    if c is None:
        return [('decodes', f'{dbname}:none', f'get_by_label({key!r}) returned None for a stored key', None, 'a circuit')]
    s = N.snapshot(c)
    bad = []
    wf = N.wf_violations(s) + [('arity', g) for g in N.arity(s)]
    if wf:
        return [('well-formed', f'{dbname}:{wf[0][0]}', f'entry {key!r} is not well-formed: {wf[:3]}', s.to_json(), 'WF')]
    n = len(rows[0]).bit_length() - 1
    if (1 << n) != len(rows[0]) or len(s.inputs) != n:
        bad.append(('inputs', shape, f'entry {key!r} has {len(s.inputs)} inputs, key rows have {len(rows[0])} columns', s.to_json(), n))
    else:
        got = '_'.join(''.join(str(int(b)) for b in row) for row in N.tt(s))
        if got != key:
            bad.append(('tt-equals-key', shape, f'entry {key!r} computes {got!r}', got, key))
    allowed = AIG_TYPES if dbname == 'aig' else XAIG_TYPES
    foreign = sorted({t for t, _ in s.gates.values()} - allowed)
    if foreign:
        bad.append(('basis', f'{dbname}:{"+".join(foreign)}', f'entry {key!r} uses gate types {foreign} outside the {dbname.upper()} basis', foreign, sorted(allowed)))
    return bad


def _entries_chunk(arg):
    dbname, lo, hi, keys = arg
    keys = keys if keys is not None else _KEYS[dbname][lo:hi]
    out = []
    for k in keys:
        try:
            out.extend((dbname, k) + b for b in check_entry(dbname, k))
        except Exception as e:      # noqa
            out.append((dbname, k, 'driver', type(e).__name__, f'driver error on {k!r}: {e}', None, None))
    return dbname, len(keys), out[:50], keys[0] if keys else None


_KEYS = {}


def run_entries(rep, quick):
    dbs = open_dbs()
    for name, db in dbs.items():
        _KEYS[name] = list(db._dict.keys())
    total = sum(len(v) for v in _KEYS.values())
    rep.bounded_driver(
        ENTRIES,
        'every stored entry of cirbo/data/aig_db.bin.xz and xaig_db.bin.xz (2 x 349 724 keys): get_by_label decodes, result WF (W1-W5, arity), '
        'input count = log2(row length), truth table by the spec evaluator == key, gate types within the basis of the database; '
        + ('quick tier: seeded 2 % sample of each database' if quick else 'thorough tier: ALL entries (finite domain, exhaustive), 16 processes')
        + '; one evaluation = one entry; non-trivial = every entry',
        f'{total} entries' + (' (2 % sample)' if quick else ' (all)'), exhaustive=not quick)
    if quick:
        jobs = []
        for name, keys in _KEYS.items():
            r = _rng('entries', name)
            jobs.append((name, 0, 0, sorted(r.sample(keys, max(1, len(keys) // 50)))))
        results = map(_entries_chunk, jobs)
        _collect_entries(rep, results)
    else:
        import multiprocessing as mp
        jobs = []
        for name, keys in _KEYS.items():
            step = 4000
            jobs.extend((name, i, min(i + step, len(keys)), None) for i in range(0, len(keys), step))
        ctx = mp.get_context('fork')
        with ctx.Pool(min(env.NPROC, 16)) as pool:
            _collect_entries(rep, pool.imap_unordered(_entries_chunk, jobs, chunksize=1))


def _collect_entries(rep, results):
    for dbname, n, viol, first in results:
        d = rep.bounded[ENTRIES]
        d['evaluations'] += n
        d['nontrivial'].update(hash((dbname, first, i)) for i in range(n))
        if first is not None and len(d['samples']) < 3:
            d['samples'].append({'db': dbname, 'key': first})
        for dbn, key, clause, wc, detail, obs, exp in viol:
            rep.violation(f'C17/entry/{clause}' if clause != 'decodes' else 'C17/get_by_label/decodes', wc, detail,
                          {'kind': 'bounded', 'db': dbn, 'key': key, 'observed': obs, 'expected': exp,
                           'how': 'CircuitsDatabase(DEFAULT_%s_DB_PATH).get_by_label(key); vlib.spec.net.tt(snapshot(c))' % dbn.upper()})


# ------------------------------------------------------------------ lookups ----------
def my_normalise(table):
    """Normal form written from the statement: negate rows whose first entry is 1, sort, drop duplicates -> key text."""
    rows = []
    for row in table:
        row = [bool(b) for b in row]
        if row[0]:
            row = [not b for b in row]
        rows.append(''.join('1' if b else '0' for b in row))
    return '_'.join(sorted(set(rows)))


def table_flags(table):
    rows = [tuple(bool(b) for b in r) for r in table]
    f = []
    if any(r[0] for r in rows):
        f.append('negated')
    if len(set(rows)) < len(rows):
        f.append('equal')
    if any(tuple(not b for b in r) in rows for r in rows):
        f.append('complementary')
    norm = [r if not r[0] else tuple(not b for b in r) for r in rows]
    if norm != sorted(norm):
        f.append('unsorted')
    if any(len(set(r)) == 1 for r in rows):
        f.append('constant-row')
    return f


def _size_of_key(dbname, key, cache):
    k = (dbname, key)
    if k not in cache:
        raw = _DBS[dbname]._dict.get(key)
        if raw is None:
            cache[k] = None
        else:
            s = N.snapshot(_DBS[dbname].get_by_label(key))
            cache[k] = sum(1 for t, _ in s.gates.values() if t not in TRIVIAL)
    return cache[k]


def check_lookup(dbname, table, as_tuples=False):
    """[(obligation-tail, witness_class, detail, observed, expected)]"""
    db = _DBS[dbname]
    arg = [tuple(r) for r in table] if as_tuples else [list(r) for r in table]
    if as_tuples:
        arg = tuple(arg)
    flags = (['tuple-rows'] if as_tuples else []) + table_flags(table)
    cols = len(table[0])
    # witness class: the structural flags the normalisation reacts to; the cosmetic ones only when nothing else applies
    core = [f for f in flags if f in ('tuple-rows', 'equal', 'complementary')]
    wc = '+'.join(core) or next((f for f in ('unsorted', 'negated', 'constant-row') if f in flags), 'plain')
    if 'tuple-rows' in core and 'complementary' in core:
        wc = 'tuple-rows+complementary'
    key = my_normalise(table)
    stored = key in db._dict
    try:
        c = db.get_by_raw_truth_table(arg)
    except Exception as e:      # noqa
        return [('get_by_raw_truth_table/returns', f'{wc}:{type(e).__name__}', f'{dbname}: lookup of {_show(table)} raised {type(e).__name__}: {e}', repr(e),
                 'a circuit' if stored else 'None')]
    if c is None:
        if stored:
            return [('get_by_raw_truth_table/none-only-if-not-stored', wc,
                     f'{dbname}: lookup of {_show(table)} returned None although its normal form {key!r} is stored', None, f'circuit for key {key}')]
        return []
    s = N.snapshot(c)
    wf = N.wf_violations(s) + [('arity', g) for g in N.arity(s)]
    if wf:
        return [('get_by_raw_truth_table/result-wf', wc, f'{dbname}: lookup of {_show(table)}: result not WF: {wf[:3]}', s.to_json(), 'WF')]
    n = cols.bit_length() - 1
    want = [[bool(b) for b in r] for r in table]
    if len(s.inputs) != n or (1 << n) != cols or N.tt(s) != want:
        got = N.tt(s) if len(s.inputs) <= 4 else '?'
        return [('get_by_raw_truth_table/computes-table', wc,
                 f'{dbname}: lookup of {_show(table)} returned a circuit computing {_show(got) if got != "?" else got} ({len(s.inputs)} inputs)',
                 {'netlist': s.to_json(), 'tt': _show(got) if got != '?' else got}, _show(table))]
    return []


def _show(table):
    return '_'.join(''.join('-' if not isinstance(b, (bool, int)) else str(int(b)) for b in r) for r in table)


def check_model(dbname, model, cache):
    """model: rows over {False, True, None}; None = don't care."""
    from cirbo.core.logic import DontCare
    db = _DBS[dbname]
    arg = [[DontCare if v is None else v for v in row] for row in model]
    holes = [(i, j) for i, row in enumerate(model) for j, v in enumerate(row) if v is None]
    mflags = table_flags([[bool(v) for v in row] for row in model if None not in row])
    wc = f'dontcares:{"some" if holes else "none"}+' + ('+'.join(f for f in mflags if f in ('equal', 'complementary')) or 'plain')
    best = None
    for sub in itertools.product((False, True), repeat=len(holes)):
        t = [list(r) for r in model]
        for (i, j), v in zip(holes, sub):
            t[i][j] = v
        sz = _size_of_key(dbname, my_normalise(t), cache)
        if sz is not None and (best is None or sz < best):
            best = sz
    try:
        c = db.get_by_raw_truth_table_model(arg)
    except Exception as e:      # noqa
        return [('get_by_raw_truth_table_model/returns', f'{type(e).__name__}', f'{dbname}: model lookup of {_show(model)} raised {type(e).__name__}: {e}', repr(e),
                 'a circuit' if best is not None else 'None')]
    if c is None:
        if best is not None:
            return [('get_by_raw_truth_table_model/none-only-if-not-stored', wc,
                     f'{dbname}: model lookup of {_show(model)} returned None although a completion is stored', None, f'a circuit of size {best}')]
        return []
    s = N.snapshot(c)
    wf = N.wf_violations(s) + [('arity', g) for g in N.arity(s)]
    if wf:
        return [('get_by_raw_truth_table_model/result-wf', wc, f'{dbname}: model lookup of {_show(model)}: result not WF: {wf[:3]}', s.to_json(), 'WF')]
    n = len(model[0]).bit_length() - 1
    got = N.tt(s) if len(s.inputs) == n else None
    if got is None or len(got) != len(model) or any(v is not None and got[i][j] != v for i, row in enumerate(model) for j, v in enumerate(row)):
        return [('get_by_raw_truth_table_model/agrees-on-defined', wc,
                 f'{dbname}: model lookup of {_show(model)} returned a circuit computing {_show(got) if got else "?"}', s.to_json(), _show(model))]
    size = sum(1 for t, _ in s.gates.values() if t not in TRIVIAL)
    if best is not None and size > best:
        return [('get_by_raw_truth_table_model/minimal-over-completions', wc,
                 f'{dbname}: model lookup of {_show(model)} returned {size} non-trivial gates, a completion is stored with {best}', size, best)]
    return []


def lookup_tables(quick):
    """Deterministic list of (table, as_tuples)."""
    out = []
    rows2 = [tuple(bool((v >> (3 - k)) & 1) for k in range(4)) for v in range(16)]
    rows3 = [tuple(bool((v >> (7 - k)) & 1) for k in range(8)) for v in range(256)]
    for m in (1, 2):
        out.extend((list(t), False) for t in itertools.product(rows2, repeat=m))
    all3 = list(itertools.product(rows2, repeat=3))
    r = _rng('lookups')
    out.extend((list(t), False) for t in (r.sample(all3, 400) if quick else all3))
    out.extend(([row], False) for row in rows3)

    def neg(row):
        return tuple(not b for b in row)

    k3 = 1500 if quick else 20000
    for i in range(k3):
        m = r.choice((2, 3, 3))
        t = [r.choice(rows3) for _ in range(m)]
        mode = r.random()
        if mode < 0.15:
            t[1] = t[0]
        elif mode < 0.30:
            t[1] = neg(t[0])
        elif mode < 0.40 and m == 3:
            t[2] = neg(t[0])
            t[1] = t[0]
        elif mode < 0.5 and m == 3:
            t[2] = t[0]
        out.append((t, False))
    # 4 outputs: storable only through duplicates / complements
    for i in range(60 if quick else 1500):
        rows = r.choice((rows2, rows3))
        a, b, c = r.choice(rows), r.choice(rows), r.choice(rows)
        t = r.choice(([a, neg(a), b, a], [a, b, c, neg(b)], [a, b, c, r.choice(rows)], [a, a, a, a]))
        out.append((t, False))
    # tables the databases cannot hold: 1 input, 4 inputs
    out.extend(([[False, True]], False) for _ in range(1))
    out.append(([[True, False], [False, True]], False))
    out.append(([tuple(bool((0x6996 >> k) & 1) for k in range(16))], False))
    # tuple rows (RawTruthTable = Sequence[Sequence[bool]])
    for t in itertools.product(rows2, repeat=2):
        out.append((list(t), True))
    for i in range(100 if quick else 3000):
        t = [r.choice(rows3) for _ in range(r.choice((1, 2, 3)))]
        if len(t) > 1 and r.random() < 0.3:
            t[1] = neg(t[0])
        out.append((t, True))
    return out


def model_tables(quick):
    r = _rng('models')
    out = []
    # 2 inputs, 1 output: all 81 patterns
    for row in itertools.product((False, True, None), repeat=4):
        out.append([list(row)])
    for i in range(300 if quick else 4000):
        n = r.choice((2, 3))
        m = r.choice((1, 2, 2, 3))
        t = [[r.choice((False, True)) for _ in range(1 << n)] for _ in range(m)]
        if m > 1 and r.random() < 0.25:
            t[1] = [not b for b in t[0]] if r.random() < 0.5 else list(t[0])
        cells = [(i, j) for i in range(m) for j in range(1 << n)]
        for (i, j) in r.sample(cells, min(len(cells), r.randint(0, 6 if quick else 8))):
            t[i][j] = None
        out.append(t)
    return out


def run_lookups(rep, quick):
    open_dbs()
    rep.bounded_driver(
        LOOKUPS,
        'get_by_raw_truth_table on both shipped databases: all tables with 2 inputs and 1-2 outputs (3 outputs: '
        + ('400 sampled' if quick else 'all 4096') + '), all 256 single-output tables with 3 inputs, seeded tables with 3 inputs and 2-3 outputs '
        '(1500 quick / 20000 thorough; equal / complementary / permuted rows forced in), 4-output tables, 1- and 4-input tables, tuple rows; '
        'get_by_raw_truth_table_model: all 81 single-output 2-input patterns over {0,1,*} and seeded models (2-3 inputs, 1-3 outputs, up to '
        + ('6' if quick else '8') + ' don\'t-cares); oracle: spec evaluator on the returned snapshot, own normalisation for "stored", sizes of the '
        'stored circuits of all completions; one evaluation = one (database, table) lookup; non-trivial = table with >=1 non-constant row',
        '2 inputs exhaustive for <=2 outputs; 3 inputs sampled', exhaustive=False)
    cache = {}
    tables = lookup_tables(quick)
    models = model_tables(quick)
    for dbname in _DBS:
        for table, as_tuples in tables:
            try:
                bad = check_lookup(dbname, table, as_tuples)
            except Exception as e:      # noqa
                bad = [('driver/internal-error', type(e).__name__, f'driver error on {_show(table)}: {e}', None, None)]
            nontriv = any(len(set(r)) > 1 for r in table)
            rep.bounded_case(LOOKUPS, key=(dbname, _show(table), as_tuples), nontrivial=nontriv,
                             sample={'db': dbname, 'table': _show(table), 'tuple_rows': as_tuples} if nontriv and len(table) > 1 else None)
            for tail, wc, detail, obs, exp in bad:
                rep.violation(f'C17/{tail}', wc, detail, {'kind': 'bounded', 'db': dbname, 'table': _show(table), 'rows_as_tuples': as_tuples,
                                                         'observed': obs, 'expected': exp,
                                                         'how': 'CircuitsDatabase(path).get_by_raw_truth_table(rows as lists (or tuples) of bool)'})
        for model in models:
            try:
                bad = check_model(dbname, model, cache)
            except Exception as e:      # noqa
                bad = [('driver/internal-error', type(e).__name__, f'driver error on model {_show(model)}: {e}', None, None)]
            rep.bounded_case(LOOKUPS, key=(dbname, 'model', _show(model)), nontrivial=True, sample=None)
            for tail, wc, detail, obs, exp in bad:
                rep.violation(f'C17/{tail}', wc, detail, {'kind': 'bounded', 'db': dbname, 'model': _show(model), 'observed': obs, 'expected': exp,
                                                         'how': "get_by_raw_truth_table_model(rows with cirbo.core.logic.DontCare for '-')"})


def run_bounded(rep, quick):
    try:
        run_entries(rep, quick)
    except Exception as e:      # noqa
        rep.violation('C17/driver/internal-error', 'entries:' + type(e).__name__, f'entries driver failed: {e}', {'error': repr(e)})
    try:
        run_lookups(rep, quick)
    except Exception as e:      # noqa
        rep.violation('C17/driver/internal-error', 'lookups:' + type(e).__name__, f'lookups driver failed: {e}', {'error': repr(e)})

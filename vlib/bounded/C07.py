"""C07 bounded stand-in: summation generators (DESIGN §6 C07, paragraph B).

Checks, taken from the statement of C07:
  value         sum(out_i * 2^level_i) = sum(in_j * 2^weight_j) for every input value (bit-count, weighted and
                block summators), a + b * 2^shift for the two-number adders;
  levels        returned levels pairwise distinct (weighted summators; the positional generators have distinct
                levels by construction of their result list);
  length        `add_sum_two_numbers`: max(len a, len b) + 1 result bits (the docstrings state no length; this is
                the length DESIGN §6 records for the plain adder; the shifted adder only has to hold the value);
  basis         AIG requested (enum or any string spelling) => no XOR / NXOR among the ADDED gates
                (AIG set = everything `add_sum2_aig`/`add_sum3_aig` may use: any binary gate except XOR, NXOR);
  gate-count    docstring bounds: add_sum_n_bits / add_sum_n_weighted_bits / generate_sum_n_bits /
                generate_sum_weighted_bits_efficient: 4.5n-2m (XAIG), 7n-3m (AIG);  add_sum_n_weighted_bits_naive:
                5n-3m / 7n-3m;  generate_sum_weighted_bits_naive: 5n-2m / 7n-3m;  add_sum_n_bits_easy:
                "approximately 5n" read as <= 5n (reported under its own clause gate-count-approx);
  no-exception  a call inside the documented domain must not raise;
  frame-*       pre-existing gates keep label, type, operands, function; only fresh non-input gates; outputs
                untouched (these functions have no add_outputs); result well formed.

Interpretations where the statement is silent:
  * `add_sum_pow2_m1` returns a list of lists, entry k = bits of level k (several bits may share a level; that is
    its documented purpose as a block compressor), so the distinct-level clause does not apply and the identity is
    sum_k 2^k * sum(out[k]) = sum(in).
  * generate_sum_weighted_bits_* return only the output labels; the levels are taken from the corresponding add_*
    call on the same weights (any distinct level assignment satisfying the identity is accepted as a witness).
  * stockmeyer / MDFA blocks have a precondition relating their operands (x xor y supplied as an operand); the
    driver supplies that operand as an XOR gate of the host circuit.
"""
import itertools

from . import _arith_common as K
from ._arith_common import Core, Frame, Variant, make_env, replay

PROP = 'C07'
D_BITS = 'bit-count-summators'
D_WEIGHTED = 'weighted-summators'
D_ADDERS = 'two-number-adders'
D_LEAF = 'leaf-gadgets'


def _A():
    import cirbo.synthesis.generation.arithmetics as A
    import cirbo.synthesis.generation.arithmetics.summation as SM
    return A, SM


def _rev(x, be):
    x = list(x)
    return x[::-1] if be else x


def _popcount(a):
    return bin(a).count('1')


def _basis_failures(fn, v, fr, args):
    if v.basis is None or v.basis[1] != 'AIG':
        return []
    types = fr.added_types()
    bad = {t: c for t, c in types.items() if t in ('XOR', 'NXOR')}
    if bad:
        return [('basis', f'{fn} with basis={v.basis[0]} added gates {dict(types)}: XOR/NXOR are outside AIG',
                 replay(fn, v, args, fr, observed=dict(types), expected='no XOR/NXOR among added gates'))]
    return []


def _bound(fn, family, n, m):
    if fn in ('add_sum_n_bits', 'generate_sum_n_bits', 'add_sum_n_weighted_bits', 'generate_sum_weighted_bits_efficient'):
        return 4.5 * n - 2 * m if family == 'XAIG' else 7 * n - 3 * m
    if fn == 'add_sum_n_weighted_bits_naive':
        return 5 * n - 3 * m if family == 'XAIG' else 7 * n - 3 * m
    if fn == 'generate_sum_weighted_bits_naive':
        return 5 * n - 2 * m if family == 'XAIG' else 7 * n - 3 * m
    return None


def _count_failures(fn, v, n_added, n, m, args, fr=None):
    fam = 'XAIG' if v.basis is None else v.basis[1]
    b = _bound(fn, fam, n, m)
    if b is not None and n_added > b:
        return [('gate-count', f'{fn} basis={fam}: {n_added} gates added for n={n} inputs, m={m} outputs; documented bound {b}',
                 replay(fn, v, args, fr, observed=n_added, expected=f'<= {b}'))]
    return []


def _call(fn_name, f, v, args_desc, fr, *a, **kw):
    """-> (result, failures)"""
    try:
        return f(*a, **kw), []
    except Exception as e:  # noqa
        tn, msg, where, _ = K.exc_info(e)
        return None, [('no-exception', f'{fn_name}({args_desc}) raised {tn}: {msg} at {where}',
                       replay(fn_name, v, args_desc, fr, observed=f'{tn}: {msg}', expected='no exception'))]


def _value_failure(fn, v, env, fr, res_le, exp, args, what):
    miss = K.labels_missing(fr.vals, res_le)
    if miss:
        return [('value', f'{fn}({args}): returned label {miss[0]!r} is not a gate of the circuit ({what})',
                 replay(fn, v, args, fr, observed=[str(x) for x in res_le], expected='labels of gates'))]
    bad = K.compare_bits(env, fr.vals, res_le, exp)
    if bad:
        return [('value', f'{fn}({args}): {what}: operands {bad["operands"]} -> observed {bad["observed"]}, expected {bad["expected"]}',
                 replay(fn, v, args, fr, failing_input=bad['inputs'], operand_values=bad['operands'],
                        observed=bad['observed'], expected=bad['expected'], returned=[str(x) for x in res_le]))]
    return []


# ------------------------------------------------------------------------------------------------
# bit-count summators
# ------------------------------------------------------------------------------------------------
def _pow2_remainder_is_two(n):
    """does the block decomposition of add_sum_pow2_m1 end with two bits left? (classification only)"""
    L = n
    while L > 2:
        for pw in range(5, 1, -1):
            i = 2 ** pw - 1
            while L >= i:
                L = L - i + 1
    return L == 2


def task_bits(out, n, modes):
    A, SM = _A()
    for fn in ('add_sum_n_bits', 'add_sum_n_bits_easy', 'add_sum_pow2_m1'):
        core = Core(PROP, fn, 'remainder-of-two' if fn == 'add_sum_pow2_m1' and _pow2_remainder_is_two(n) else None)
        bases = K.BASIS_SPELLINGS if fn != 'add_sum_n_bits_easy' else [None]
        for mode in modes:
            for be in (False, True):
                for b in bases:
                    v = Variant(be, mode, b)
                    env = make_env(mode, [n], salt=(fn, be))
                    fr = Frame(env)
                    labs = _rev(env.ops[0], be)
                    kw = {'big_endian': be}
                    if b is not None:
                        kw['basis'] = K.basis_value(b)
                    args = {'n': n, **{k: (b[0] if k == 'basis' else x) for k, x in kw.items()}, 'input_labels': labs}
                    res, fails = _call(fn, getattr(SM, fn), v, args, fr, env.circuit, list(labs), **kw)
                    out.case(D_BITS, (fn, n, mode, be, b), nontrivial=n > 1,
                             sample={'function': fn, **{k: str(x) for k, x in args.items()}} if n == 3 and mode == 'bare' else None)
                    if not fails:
                        fails += fr.failures(fn, v, args)
                        if fr.vals is not None:
                            if fn == 'add_sum_pow2_m1':
                                flat = [l for lvl in res for l in lvl]
                                miss = K.labels_missing(fr.vals, flat)
                                if miss:
                                    fails.append(('value', f'{fn}: returned label {miss[0]!r} is not a gate', replay(fn, v, args, fr)))
                                else:
                                    mm = K.linear_mismatch([(1 << k, fr.vals[l]) for k, lvl in enumerate(res) for l in lvl],
                                                           [(1, x) for x in env.op_vecs[0]], env.P)
                                    if mm:
                                        j, got, want = mm
                                        fails.append(('value', f'{fn}({args}): sum_k 2^k*sum(out[k]) = {got}, sum(in) = {want} on {env.assignment(j)}',
                                                      replay(fn, v, args, fr, failing_input=env.assignment(j), observed=got, expected=want)))
                            else:
                                res_le = _rev(res, be)
                                exp = K.expected_vectors(env, 'popcount', _popcount)
                                fails += _value_failure(fn, v, env, fr, res_le, exp, args, 'sum(out_i*2^i) vs number of ones')
                                if fn == 'add_sum_n_bits':
                                    fails += _count_failures(fn, v, len(fr.new), n, len(res), args, fr)
                                elif len(fr.new) > 5 * n:
                                    fails.append(('gate-count-approx', f'{fn}: {len(fr.new)} gates for n={n}; docstring: approximately 5*n',
                                                  replay(fn, v, args, fr, observed=len(fr.new), expected=f'<= {5 * n}')))
                            fails += _basis_failures(fn, v, fr, args)
                    core.add(v, fails)
        core.flush(out)
    # generate_sum_n_bits
    core = Core(PROP, 'generate_sum_n_bits', delegate='add_sum_n_bits')
    for be in (False, True):
        for b in K.BASIS_SPELLINGS:
            v = Variant(be, 'generated', b)
            args = {'n': n, 'basis': b[0], 'big_endian': be}
            c, fails = _call('generate_sum_n_bits', A.generate_sum_n_bits, v, args, None, n, basis=K.basis_value(b), big_endian=be)
            out.case(D_BITS, ('generate_sum_n_bits', n, be, b), nontrivial=n > 1)
            if not fails:
                fails += _check_generated('generate_sum_n_bits', v, c, [_rev(c.inputs, be)], args,
                                          lambda env, net: (_rev(net.outputs, be), K.expected_vectors(env, 'popcount', _popcount)),
                                          n, 'sum(out_i*2^i) vs number of ones')
            core.add(v, fails)
    core.flush(out)


def _check_generated(fn, v, c, ops_le, args, spec, n, what):
    """common part for generate_* wrappers: evaluate the returned circuit, compare, basis and gate count."""
    fails = []
    net = K.N.snapshot(c)
    flat = [l for o in ops_le for l in o]
    if sorted(flat) != sorted(net.inputs):
        return [('value', f'{fn}({args}): inputs {net.inputs}, expected {len(flat)} inputs', replay(fn, v, args))]
    env = K.env_for_generated(c, ops_le)
    wf = K.N.wf_violations(net)
    if wf:
        return [('frame-wf', f'{fn}({args}): {wf[:3]}', replay(fn, v, args))]
    vals = K.simulate(net, env.in_vecs, env.mask)
    env.op_vecs = [[vals[l] for l in o] for o in env.ops]
    res_le, exp = spec(env, net)

    class _F:  # minimal stand-in for Frame in the shared helpers
        pass
    fr = _F()
    fr.vals, fr.pre, fr.post = vals, None, net
    fr.new = [g for g, (t, _) in net.gates.items() if t != 'INPUT']
    fr.added_types = lambda: K.Counter(net.gates[g][0] for g in fr.new)
    fails += _value_failure(fn, v, env, fr, res_le, exp, args, what)
    fails += _basis_failures(fn, v, fr, args)
    fails += _count_failures(fn, v, len(fr.new), n, len(net.outputs), args, None)
    return fails


# ------------------------------------------------------------------------------------------------
# weighted summators
# ------------------------------------------------------------------------------------------------
def _weighted_value(ws):
    def f(a):
        return sum(((a >> i) & 1) << w for i, w in enumerate(ws))
    return f


def _check_weighted_result(fn, v, env, fr, res, ws, args):
    fails = []
    try:
        levels = [int(p[0]) for p in res]
        labels = [p[1] for p in res]
    except Exception as e:  # noqa
        return [('value', f'{fn}({args}) returned {res!r}: not a list of (level, label)', replay(fn, v, args, fr))], None
    if len(set(levels)) != len(levels):
        fails.append(('levels', f'{fn}({args}) returned levels {levels}: not pairwise distinct',
                      replay(fn, v, args, fr, observed=levels, expected='pairwise distinct levels')))
    miss = K.labels_missing(fr.vals, labels)
    if miss:
        fails.append(('value', f'{fn}({args}): returned label {miss[0]!r} is not a gate', replay(fn, v, args, fr)))
        return fails, levels
    mm = K.linear_mismatch([(1 << l, fr.vals[g]) for l, g in zip(levels, labels)],
                           [(1 << w, x) for w, x in zip(ws, env.op_vecs[0])], env.P)
    if mm:
        j, got, want = mm
        fails.append(('value', f'{fn}({args}): sum(out_i*2^level_i) = {got} but sum(in_j*2^w_j) = {want} on {env.assignment(j)} (levels {levels})',
                      replay(fn, v, args, fr, failing_input=env.assignment(j), observed=got, expected=want, levels=levels)))
    return fails, levels


def sparse(ws):
    """Classification only: the set of weights has a gap (some level is empty although operands sit both below and
    above it).  Only then can a level receive carries but no operand while operands wait further up, which is where
    the work lists of the weighted summators (singles / (x, x xor y) pairs per level) can get out of step, e.g.
    weights [0, 0, 0, 0, 2]: four bits of level 0 leave one pair and no single bit for the empty level 1."""
    d = sorted(set(ws))
    return any(y - x > 1 for x, y in zip(d, d[1:]))


def multisets(nmax, wmax):
    """all weight vectors up to permutation: sorted tuples, 1 <= n <= nmax, weights in 0..wmax"""
    return [ws for n in range(1, nmax + 1) for ws in itertools.combinations_with_replacement(range(wmax + 1), n)]


def task_weighted(out, vectors, modes, exhaustive, bases=None, wrappers=True):
    """bases: indices into K.BASIS_SPELLINGS (None: all seven); wrappers: also run the generate_* forms."""
    A, SM = _A()
    spellings = K.BASIS_SPELLINGS if bases is None else [K.BASIS_SPELLINGS[i] for i in bases]
    for ws in vectors:
        ws = list(ws)
        n = len(ws)
        levels_hint = None
        add_form_wrong = set()     # (add_ form, basis spelling) whose own result on primary inputs fails levels / value
        tok = 'sparse-weights' if sparse(ws) else None
        for fn in ('add_sum_n_weighted_bits', 'add_sum_n_weighted_bits_naive'):
            core = Core(PROP, fn, tok)
            for mode in modes:
                for b in spellings:
                    v = Variant(False, mode, b)
                    env = make_env(mode, [n], salt=(fn, tuple(ws)))
                    fr = Frame(env)
                    pairs = list(zip(ws, env.ops[0]))
                    args = {'input_labels_with_pow': [list(p) for p in pairs], 'basis': b[0]}
                    res, fails = _call(fn, getattr(SM, fn), v, args, fr, env.circuit, list(pairs), basis=K.basis_value(b))
                    out.case(D_WEIGHTED, (fn, tuple(ws), mode, b, exhaustive), nontrivial=n > 1,
                             sample={'function': fn, 'weights': ws, 'basis': b[0]} if n == 3 and mode == 'bare' else None)
                    if not fails:
                        fails += fr.failures(fn, v, args)
                        if fr.vals is not None:
                            f2, levels = _check_weighted_result(fn, v, env, fr, res, ws, args)
                            fails += f2
                            if levels is not None and not f2 and levels_hint is None:
                                levels_hint = levels
                            if f2 and mode == 'bare':
                                add_form_wrong.add((fn, b))
                            fails += _basis_failures(fn, v, fr, args)
                            fails += _count_failures(fn, v, len(fr.new), n, len(res), args, fr)
                    core.add(v, fails)
            core.flush(out)
        if not wrappers:
            continue
        for fn, g in (('generate_sum_weighted_bits_efficient', A.generate_sum_weighted_bits_efficient),
                      ('generate_sum_weighted_bits_naive', A.generate_sum_weighted_bits_naive)):
            core = Core(PROP, fn, tok, delegate='add_sum_n_weighted_bits' if fn.endswith('efficient') else 'add_sum_n_weighted_bits_naive')
            for b in K.BASIS_SPELLINGS:
                v = Variant(False, 'generated', b)
                args = {'weights': ws, 'basis': b[0]}
                c, fails = _call(fn, g, v, args, None, list(ws), basis=K.basis_value(b))
                out.case(D_WEIGHTED, (fn, tuple(ws), b, exhaustive), nontrivial=n > 1)
                # the wrapper returns what its add_ form builds on primary inputs: when that result is already reported
                # (levels not distinct / identity broken) the outputs cannot be read at the hinted levels, same cause
                if (core.delegate, b) in add_form_wrong:
                    core.add(v, fails)
                    continue
                if not fails and levels_hint is not None:
                    net = K.N.snapshot(c)
                    if len(net.outputs) != len(levels_hint):
                        fails.append(('value', f'{fn}({args}): {len(net.outputs)} outputs, the add_ form returns levels {levels_hint}',
                                      replay(fn, v, args, observed=len(net.outputs), expected=len(levels_hint))))
                    else:
                        env = K.env_for_generated(c, [list(c.inputs)])
                        vals = K.simulate(net, env.in_vecs, env.mask)
                        mm = K.linear_mismatch([(1 << l, vals[g_]) for l, g_ in zip(levels_hint, net.outputs)],
                                               [(1 << w, vals[x]) for w, x in zip(ws, net.inputs)], env.P)
                        if mm:
                            j, got, want = mm
                            fails.append(('value', f'{fn}({args}): outputs at levels {levels_hint} give {got}, expected {want} on {env.assignment(j)}',
                                          replay(fn, v, args, failing_input=env.assignment(j), observed=got, expected=want)))
                        new = [g_ for g_, (t, _) in net.gates.items() if t != 'INPUT']

                        class _F:
                            pass
                        fr = _F()
                        fr.pre = None
                        fr.added_types = lambda net=net, new=new: K.Counter(net.gates[g_][0] for g_ in new)
                        fails += _basis_failures(fn, v, fr, args)
                        fails += _count_failures(fn, v, len(new), n, len(net.outputs), args, None)
                core.add(v, fails)
            core.flush(out)


# ------------------------------------------------------------------------------------------------
# two-number adders
# ------------------------------------------------------------------------------------------------
def task_adders(out, n, m, modes):
    A, SM = _A()
    fn = 'add_sum_two_numbers'
    core = Core(PROP, fn, None if n == m else 'unequal-lengths')
    for mode in modes:
        for be in (False, True):
            v = Variant(be, mode)
            env = make_env(mode, [n, m], salt=(fn, be))
            la, lb = _rev(env.ops[0], be), _rev(env.ops[1], be)
            args = {'input_labels_a': la, 'input_labels_b': lb, 'big_endian': be}
            tw = None
            if mode == 'twice':      # first (b, a), then the checked call (a, b) in the same circuit
                tw = K.Twice(fn, v, env)
                tw.first(SM.add_sum_two_numbers, {'input_labels_a': lb, 'input_labels_b': la, 'big_endian': be}, env.circuit, list(lb), list(la), big_endian=be)
            fr = Frame(env)
            res, fails = _call(fn, SM.add_sum_two_numbers, v, args, fr, env.circuit, list(la), list(lb), big_endian=be)
            out.case(D_ADDERS, (fn, n, m, mode, be), sample={'function': fn, 'n': n, 'm': m, 'big_endian': be} if (n, m, mode) == (2, 1, 'bare') else None)
            if not fails:
                fails += fr.failures(fn, v, args)
                if fr.vals is not None:
                    exp = K.expected_vectors(env, 'a+b', lambda a, b: a + b)
                    fails += _value_failure(fn, v, env, fr, _rev(res, be), exp, args, 'a + b')
                    if len(res) != max(n, m) + 1:
                        fails.append(('length', f'{fn}: {len(res)} result bits for widths {n},{m}; expected max(n,m)+1',
                                      replay(fn, v, args, fr, observed=len(res), expected=max(n, m) + 1)))
                    if tw is not None and tw.result is not None:
                        fails += tw.check(fr, 'value', _rev(tw.result, be), exp, 'b + a', args)
            if tw is not None:
                fails += tw.fail
            core.add(v, fails)
    core.flush(out)
    fn = 'add_sum_two_numbers_with_shift'
    for shift in range(0, n + 3):
        tok = 'shift>len(a)' if shift > n else 'shift==len(a)' if shift == n else None
        core = Core(PROP, fn, tok)
        for mode in modes:
            if mode == 'twice':
                continue
            for be in (False, True):
                v = Variant(be, mode)
                env = make_env(mode, [n, m], salt=(fn, be, shift))
                fr = Frame(env)
                la, lb = _rev(env.ops[0], be), _rev(env.ops[1], be)
                args = {'shift': shift, 'input_labels_a': la, 'input_labels_b': lb, 'big_endian': be}
                res, fails = _call(fn, SM.add_sum_two_numbers_with_shift, v, args, fr, env.circuit, shift, list(la), list(lb), big_endian=be)
                out.case(D_ADDERS, (fn, n, m, shift, mode, be),
                         sample={'function': fn, 'n': n, 'm': m, 'shift': shift} if (n, m, shift, mode, be) == (2, 2, 1, 'bare', False) else None)
                if not fails:
                    fails += fr.failures(fn, v, args)
                    if fr.vals is not None:
                        exp = K.expected_vectors(env, ('a+b<<s', shift), lambda a, b, s=shift: a + (b << s))
                        fails += _value_failure(fn, v, env, fr, _rev(res, be), exp, args, f'a + b*2^{shift}')
                core.add(v, fails)
        core.flush(out)


# ------------------------------------------------------------------------------------------------
# leaf gadgets
# ------------------------------------------------------------------------------------------------
def task_leaf(out, modes):
    A, SM = _A()
    _, gate = K._circuit_api()

    def run(fn, k, prepare, check, aig=False):
        core = Core(PROP, fn)
        for mode in modes:
            v = Variant(False, mode, K.AIG_ENUM if aig else None)
            env = make_env(mode, [1] * k, salt=(fn,))
            x = [o[0] for o in env.ops]
            operands = prepare(env.circuit, x)
            fr = Frame(env)
            args = {'input_labels': operands}
            res, fails = _call(fn, getattr(SM, fn), v, args, fr, env.circuit, list(operands))
            out.case(D_LEAF, (fn, mode), sample={'function': fn, 'operands': mode} if mode == 'bare' else None)
            if not fails:
                fails += fr.failures(fn, v, args)
                if fr.vals is not None:
                    miss = K.labels_missing(fr.vals, res)
                    if miss:
                        fails.append(('value', f'{fn}: returned label {miss[0]!r} is not a gate', replay(fn, v, args, fr)))
                    else:
                        xs = [fr.pre_vals[l] for l in x]
                        lhs, rhs, text = check(xs, [fr.vals[r] for r in res])
                        mm = K.linear_mismatch(lhs, rhs, env.P)
                        if mm:
                            j, got, want = mm
                            fails.append(('value', f'{fn}: {text}: {got} != {want} on {env.assignment(j)}',
                                          replay(fn, v, args, fr, failing_input=env.assignment(j), observed=got, expected=want)))
                    if aig:
                        fails += _basis_failures(fn, v, fr, args)
            core.add(v, fails)
        core.flush(out)

    ident = lambda c, x: list(x)
    plain = lambda xs, r: ([(1, r[0]), (2, r[1])], [(1, a) for a in xs], 'out0 + 2*out1 = sum of operands')
    run('add_sum2', 2, ident, plain)
    run('add_sum3', 3, ident, plain)
    run('add_sum2_aig', 2, ident, plain, aig=True)
    run('add_sum3_aig', 3, ident, plain, aig=True)

    def prep_stock(c, x):
        c.emplace_gate('pre_x23', gate.XOR, (x[1], x[2]))
        return [x[0], x[1], 'pre_x23']
    run('add_stockmeyer_block', 3, prep_stock, plain)

    def prep_mdfa(c, x):
        c.emplace_gate('pre_xy1', gate.XOR, (x[1], x[2]))
        c.emplace_gate('pre_xy2', gate.XOR, (x[3], x[4]))
        return [x[0], x[1], 'pre_xy1', x[3], 'pre_xy2']
    # returns (z', x', x' xor y'):  z + x1 + y1 + x2 + y2 = z' + 2*(x' + y')
    mdfa = lambda xs, r: ([(1, r[0]), (2, r[1]), (2, r[1] ^ r[2])], [(1, a) for a in xs],
                          "z' + 2*(x' + y') = z + x1 + y1 + x2 + y2 with y' = x' xor out2")
    run('add_mdfa', 5, prep_mdfa, mdfa)

    def prep_smdfa(c, x):
        c.emplace_gate('pre_xy1', gate.XOR, (x[0], x[1]))
        c.emplace_gate('pre_xy2', gate.XOR, (x[2], x[3]))
        return [x[0], 'pre_xy1', x[2], 'pre_xy2']
    run('add_simplified_mdfa', 4, prep_smdfa, mdfa)


# ------------------------------------------------------------------------------------------------
def run_bounded(rep, quick):
    W = 10 if quick else 16
    rep.bounded_driver(D_BITS, f'add_sum_n_bits (7 basis spellings), add_sum_n_bits_easy, add_sum_pow2_m1 (7 spellings), generate_sum_n_bits: all n <= {W}, '
                       'all 2^n input values bit-parallel, both endiannesses, operands = primary inputs / internal gates of a bijective host / '
                       'arbitrary (repeated) nodes of seeded random hosts (n <= 6); value, basis, gate-count, frame clauses',
                       f'n <= {W} exhaustive values', exhaustive=True)
    msn, msw = (6, 4) if quick else (7, 5)
    n_sample = 32 if quick else 160
    rep.bounded_driver(D_WEIGHTED, 'add_sum_n_weighted_bits(_naive) and generate_sum_weighted_bits_efficient/naive on all weight vectors '
                       + ('n <= 4, weights <= 2' if quick else 'n <= 5, weights <= 3') + f' (ordered), seeded random vectors up to n = {W}, weights <= 6; '
                       '7 basis spellings, operands inputs / host gates / random host nodes, all input values; levels distinct, identity, basis, gate-count, frame; '
                       f'sparse weight vectors: the two add_ forms on ALL weight multisets (sorted vectors) n <= {msn}, weights <= {msw} with basis GenerationBasis.XAIG'
                       + ('' if quick else ' and GenerationBasis.AIG') + ' on primary inputs' + ('' if quick else ' and host gates') + ', all input values, '
                       f'and {n_sample} seeded multisets of them (half with a gap in the weights, seeded permutation) through all 7 spellings, the three operand modes and the generate_ forms',
                       'all vectors to the stated size, seeded beyond', exhaustive=False)
    wa = 6 if quick else 8
    rep.bounded_driver(D_ADDERS, f'add_sum_two_numbers and add_sum_two_numbers_with_shift (shift 0..len(a)+2) on all width pairs n+m <= {W}, all operand values, '
                       'both endiannesses, operands inputs / host gates / random host nodes (n+m <= 6); '
                       f'n+m <= {wa}: adversarial hosts (gates of all 14 binary types over the first two bit positions, both operand orders) and add_sum_two_numbers called twice ((b, a) then (a, b), both results checked)',
                       f'n+m <= {W} exhaustive values', exhaustive=True)
    rep.bounded_driver(D_LEAF, 'add_sum2, add_sum3, add_sum2_aig, add_sum3_aig, add_stockmeyer_block, add_mdfa, add_simplified_mdfa: all operand values, '
                       'operands inputs / host gates / random host nodes', 'finite gadgets, exhaustive', exhaustive=True)
    tasks = []
    for n in range(1, W + 1):
        modes = ['bare', 'host'] + (['hostrand'] if n <= 6 else [])
        tasks.append(('task_bits', (n, modes)))
    nmax, wmax = (4, 2) if quick else (5, 3)
    vecs = [ws for n in range(1, nmax + 1) for ws in itertools.product(range(wmax + 1), repeat=n)]
    chunk = 40
    for i in range(0, len(vecs), chunk):
        tasks.append(('task_weighted', (vecs[i:i + chunk], ['bare', 'host', 'hostrand'], True)))
    rng = K.rng_for(PROP, 'random-weights')
    rnd = []
    for i in range(24 if quick else 320):
        n = rng.randint(nmax + 1, W if i % 4 else min(W, 8))
        wm = rng.randint(0, 6)
        rnd.append(tuple(rng.randint(0, wm) for _ in range(n)))
    for i in range(0, len(rnd), 8):
        tasks.append(('task_weighted', (rnd[i:i + 8], ['bare', 'host'], False)))
    # sparse weight vectors: every multiset to (msn, msw) for the add_ forms in the enum bases on primary inputs ...
    done = set(vecs)
    ms = [ws for ws in multisets(msn, msw) if ws not in done]
    chunk = 80
    for i in range(0, len(ms), chunk):
        tasks.append(('task_weighted', (ms[i:i + chunk], ['bare'] if quick else ['bare', 'host'], True, [0] if quick else [0, 1], False)))
    # ... and a seeded sample of them (half of it with a gap and n >= 5) in a seeded order through everything else
    rng = K.rng_for(PROP, 'sparse-sample')
    gap = [ws for ws in ms if sparse(ws) and len(ws) >= 5]
    smp = rng.sample(gap, n_sample // 2) + rng.sample(ms, n_sample - n_sample // 2)
    smp = list(dict.fromkeys(tuple(rng.sample(ws, len(ws))) for ws in smp))
    for i in range(0, len(smp), 8):
        tasks.append(('task_weighted', (smp[i:i + 8], ['bare', 'host', 'hostrand'], False)))
    for n in range(1, W):
        for m in range(1, W - n + 1):
            modes = ['bare', 'host'] + (['hostrand'] if n + m <= 6 else []) + (K.ADV_MODES if n + m <= wa else [])
            tasks.append(('task_adders', (n, m, modes)))
    tasks.append(('task_leaf', (['bare', 'host', 'hostrand'],)))
    K.run_tasks(rep, PROP, __name__, tasks, quick)

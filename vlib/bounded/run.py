"""Stand-alone runner for one bounded driver:  python -m vlib.bounded.run C13 [--tier thorough]
(prints what the driver found; used while developing drivers; registered checks go through vlib.main)"""
import importlib
import os
import sys
import time


def main(argv):
    prop = argv[0]
    if '--tier' in argv:
        os.environ['VERIF_TIER'] = argv[argv.index('--tier') + 1]
    from .. import env
    env.TIER = os.environ.get('VERIF_TIER', 'quick') or 'quick'
    env.setup_import_paths()
    from ..report import Report
    rep = Report(prop, 'other')
    mod = importlib.import_module(f'vlib.bounded.{prop}')
    t0 = time.time()
    mod.run_bounded(rep, env.TIER != 'thorough')
    for n, d in rep.bounded.items():
        print(f'driver {n}: evaluations={d["evaluations"]} distinct_nontrivial={len(d["nontrivial"])} exhaustive={d["exhaustive"]}')
    for f in rep.findings:
        print(f'FINDING obligation={f.obligation} witness={f.witness_class} replay={f.replay}\n    {f.detail[:400]}')
    print(f'{prop}: {len(rep.findings)} finding classes, {time.time()-t0:.1f}s')


if __name__ == '__main__':
    main(sys.argv[1:])

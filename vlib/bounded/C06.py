"""C06 bounded stand-in: exact synthesis is sound and complete for the requested size and basis.

Real `CircuitFinderSat(model, N, basis=..., need_normalized=...)` (+ fix_gate / forbid_wire) `.find_circuit()` - never with the
circuit_db shortcut - against an independent brute-force enumeration of *all* circuits with exactly N two-input gates:
gate g (numbered n..n+N-1 after the n inputs) reads two distinct nodes a < b < g and computes one of the basis operations
(truth tables from OP() of vlib/spec, selected by the *name* of the Operation member), every output is one of the N gates.
  soundness     the returned circuit (snapshot of its private fields, evaluated with den() of vlib/spec) has n inputs, exactly
                N further gates, each with two operands and a type of the basis, is acyclic over existing nodes, takes every
                output at a non-input gate, agrees with the model on every entry that is not a don't-care, and obeys every
                imposed constraint (gates are addressed as in the repository's tests: input i is label str(i), gate g is 's<g>'):
                  fix_gate(g, first=a, second=b)  operands of g are (a, b);   fix_gate(g, first=a) / (g, second=b): that node is an operand of g;
                  fix_gate(.., gate_type=T): type of g is T;  forbid_wire(a, g): a is not an operand of g;  need_normalized: every gate maps (0,0) to 0.
  completeness  NoSolutionError is raised iff the brute force finds no such circuit; no other exception.
  completeness under constraints with free gates (witness family, no brute force needed): a circuit W with n = N = 3 is drawn first
                (first two gates independent and in decreasing order of their predecessor pairs, outputs placed so that the gate positions
                matter), the model is W's truth table (spec evaluator); a fresh finder that gets ONLY fix_gate(g, first, second, type) of one
                gate of W, or ONLY the forbid_wire calls of the wires W does not use (into one gate / into all gates), must not raise
                NoSolutionError (W is a witness) and must return a sound circuit.  Class `constraint-with-free-gates+fix-gate|forbid-wire`.
Interpretation recorded as an assumption: "reading only inputs or earlier gates" is taken as the finder's own search space (two
*distinct* predecessors, listed in increasing order); circuits that need a repeated operand or a swapped operand order of an
asymmetric operation (e.g. NOT x1 as LNOT(x1, x0) in the AIG basis, or anything over a single input) are not demanded.
"""
import itertools
import time

from .. import env
from ..spec import net as N
from ..spec import ops as S
from . import _misc_common as M

NAME = 'find_circuit-vs-brute-force'
OPNAME_TO_TYPE = {'always_false_': 'ALWAYS_FALSE', 'always_true_': 'ALWAYS_TRUE', 'lnot_': 'LNOT', 'liff_': 'LIFF', 'rnot_': 'RNOT', 'riff_': 'RIFF',
                  'or_': 'OR', 'nor_': 'NOR', 'and_': 'AND', 'nand_': 'NAND', 'xor_': 'XOR', 'nxor_': 'NXOR', 'gt_': 'GT', 'lt_': 'LT', 'geq_': 'GEQ', 'leq_': 'LEQ'}
BASES = {
    'AIG': ['lnot_', 'and_', 'or_', 'nand_', 'nor_', 'gt_', 'lt_', 'geq_', 'leq_'],
    'XAIG': ['lnot_', 'and_', 'or_', 'nand_', 'nor_', 'gt_', 'lt_', 'geq_', 'leq_', 'xor_', 'nxor_'],
    'FULL': list(OPNAME_TO_TYPE),
}
CUSTOM = {'custom:and,xor': ['and_', 'xor_'], 'custom:nand': ['nand_'], 'custom:or,lnot,liff': ['or_', 'lnot_', 'liff_'],
          'custom:gt,always_true': ['gt_', 'always_true_'], 'custom:and,or,xor': ['and_', 'or_', 'xor_']}


def type_tt(t):
    """(f(0,0), f(0,1), f(1,0), f(1,1)) of a gate type, from the spec operator."""
    return tuple(bool(S.OP(t, [bool(p), bool(q)])) for p in (0, 1) for q in (0, 1))


def basis_types(bname):
    names = BASES.get(bname) or CUSTOM[bname]
    return [OPNAME_TO_TYPE[x] for x in names]


# ------------------------------------------------------------------------------ brute force ----
_SPACE = {}


def space(n, N_, bname, normalized):
    """All circuits of the search space: list of (gates, masks); gates = tuple of (a, b, type) for gate n+k; masks = value bitmask
    (bit t = value in row t) of every node 0..n+N-1."""
    key = (n, N_, bname, normalized)
    if key in _SPACE:
        return _SPACE[key]
    rows = 1 << n
    full = (1 << rows) - 1
    cols = []
    for i in range(n):
        cols.append(sum(1 << t for t in range(rows) if (t >> (n - 1 - i)) & 1))
    types = [(t, type_tt(t)) for t in basis_types(bname)]
    if normalized:
        types = [(t, f) for t, f in types if not f[0]]
    out = []

    def rec(k, gates, masks):
        if k == N_:
            out.append((tuple(gates), tuple(masks)))
            return
        g = n + k
        for a, b in itertools.combinations(range(g), 2):
            A, B = masks[a], masks[b]
            nA, nB = full ^ A, full ^ B
            quad = (nA & nB, nA & B, A & nB, A & B)
            for t, f in types:
                v = 0
                for bit, q in zip(f, quad):
                    if bit:
                        v |= q
                gates.append((a, b, t))
                masks.append(v)
                rec(k + 1, gates, masks)
                gates.pop()
                masks.pop()

    rec(0, [], list(cols))
    _SPACE[key] = out
    return out


def constraint_ok(gates, n, cons):
    for c in cons:
        if c[0] == 'fix':
            _, g, fp, sp, gt = c
            a, b, t = gates[g - n]
            if fp is not None and sp is not None:
                if (a, b) != (fp, sp):
                    return False
            elif fp is not None:
                if fp not in (a, b):
                    return False
            elif sp is not None:
                if sp not in (a, b):
                    return False
            if gt is not None and t != gt:
                return False
        elif c[0] == 'forbid':
            _, frm, to = c
            a, b, t = gates[to - n]
            if frm in (a, b):
                return False
    return True


def brute_exists(n, m, N_, bname, normalized, cons, care, val):
    """Some circuit of the space obeys the constraints and offers, for every output, a gate that matches it on the care rows.
    Returns a witness (gates, chosen output gates) or None."""
    if N_ == 0:
        return None if m > 0 else ((), ())
    for gates, masks in space(n, N_, bname, normalized):
        if cons and not constraint_ok(gates, n, cons):
            continue
        chosen = []
        for h in range(m):
            hit = None
            for k in range(N_):
                if (masks[n + k] ^ val[h]) & care[h] == 0:
                    hit = n + k
                    break
            if hit is None:
                break
            chosen.append(hit)
        else:
            return gates, tuple(chosen)
    return None


# ------------------------------------------------------------------------------------ checks ----
def lab(i, n):
    return str(i) if i < n else 's' + str(i)


def check_returned(case, c):
    """List of (clause, witness, detail) for a circuit returned by find_circuit."""
    n, m, N_, bname, normalized, cons, rows3 = case['n'], case['m'], case['N'], case['basis'], case['normalized'], case['constraints'], case['rows']
    net = N.snapshot(c)
    bad = []
    nonin = {g: v for g, v in net.gates.items() if v[0] != 'INPUT'}
    if len(net.inputs) != n or sum(1 for v in net.gates.values() if v[0] == 'INPUT') != n:
        bad.append(('input-count', 'inputs', f'{len(net.inputs)} inputs, model has {n}'))
    if len(nonin) != N_:
        bad.append(('exact-gate-count', 'gate-count', f'{len(nonin)} gates instead of {N_}'))
    allowed = set(basis_types(bname))
    for g, (t, ops) in nonin.items():
        if len(ops) != 2:
            bad.append(('two-input-gates', 'arity', f'gate {g} has operands {ops}'))
        if t not in allowed:
            bad.append(('gate-types-in-basis', f'basis-{bname}', f'gate {g} has type {t}, basis allows {sorted(allowed)}'))
        if normalized and t in S.GATE_TYPES and len(ops) == 2 and S.OP(t, [False, False]):
            bad.append(('obeys-need_normalized', 'need-normalized', f'gate {g} of type {t} maps (0,0) to 1'))
    wf = [w for w in N.wf_violations(N.Net(net.inputs, net.outputs, net.gates)) if w[0] in ('W1', 'W2', 'W4', 'W5')]
    if wf:
        bad.append(('reads-inputs-or-earlier-gates', 'topology', f'{wf[:2]}'))
    if len(net.outputs) != m:
        bad.append(('output-count', 'outputs', f'{len(net.outputs)} outputs, model has {m}'))
    for o in net.outputs:
        if o not in nonin:
            bad.append(('outputs-taken-at-gates', 'output-not-a-gate', f'output {o} is not a non-input gate'))
    if not wf and len(net.outputs) == m and len(net.inputs) == n:
        try:
            tt = N.tt(net)
            for h in range(m):
                for t_ in range(1 << n):
                    if rows3[h][t_] is not None and tt[h][t_] != rows3[h][t_]:
                        bad.append(('agrees-with-model', 'has-dont-cares' if any(v is None for r in rows3 for v in r) else 'fully-defined-model',
                                    f'output {h} row {t_}: circuit {tt[h][t_]}, model {rows3[h][t_]}'))
                        break
        except Exception as e:
            bad.append(('agrees-with-model', 'not-evaluable', M.exc_str(e)))
    for cst in cons:
        if cst[0] == 'fix':
            _, g, fp, sp, gt = cst
            gate = net.gates.get(lab(g, n))
            if gate is None:
                bad.append(('obeys-fix_gate', 'gate-label-missing', f'no gate {lab(g, n)}'))
                continue
            t, ops = gate
            if fp is not None and sp is not None and tuple(ops) != (lab(fp, n), lab(sp, n)):
                bad.append(('obeys-fix_gate', 'both-predecessors', f'fix_gate({g}, first={fp}, second={sp}) but operands are {ops}'))
            elif fp is not None and sp is None and lab(fp, n) not in ops:
                bad.append(('obeys-fix_gate', 'first-predecessor-only', f'fix_gate({g}, first_predecessor={fp}) but operands are {ops}'))
            elif sp is not None and fp is None and lab(sp, n) not in ops:
                bad.append(('obeys-fix_gate', 'second-predecessor-only', f'fix_gate({g}, second_predecessor={sp}) but operands are {ops}'))
            if gt is not None and t != gt:
                bad.append(('obeys-fix_gate', 'gate-type', f'fix_gate({g}, gate_type={gt}) but type is {t}'))
        else:
            _, frm, to = cst
            gate = net.gates.get(lab(to, n))
            if gate is None:
                bad.append(('obeys-forbid_wire', 'gate-label-missing', f'no gate {lab(to, n)}'))
            elif lab(frm, n) in gate[1]:
                bad.append(('obeys-forbid_wire', 'forbid-wire', f'forbid_wire({frm}, {to}) but operands of {lab(to, n)} are {gate[1]}'))
    return bad, net


def make_model(case):
    from cirbo.core.truth_table import TruthTableModel, TruthTable
    from cirbo.core.python_function import PyFunctionModel
    from cirbo.core.logic import DontCare
    rows3, n = case['rows'], case['n']
    kind = case['model_kind']
    if kind == 'TruthTableModel':
        return TruthTableModel([[DontCare if v is None else v for v in r] for r in rows3])
    if kind == 'TruthTableModel-strings':
        return TruthTableModel([''.join('*' if v is None else str(int(v)) for v in r) for r in rows3])
    if kind == 'TruthTable':
        return TruthTable([list(r) for r in rows3])

    def f(x):
        j = sum(1 << (n - 1 - i) for i, b in enumerate(x) if b)
        return [DontCare if r[j] is None else r[j] for r in rows3]
    return PyFunctionModel(f, n)


def tags(case):
    tg = [case['basis'] if case['basis'] in BASES else 'custom-basis']
    if all(v is None for r in case['rows'] for v in r):
        tg.append('all-dont-care-model')
    elif any(v is None for r in case['rows'] for v in r):
        tg.append('dont-cares')
    if case['normalized']:
        tg.append('normalized')
    for c in case['constraints']:
        if c[0] == 'forbid':
            tg.append('forbid-wire')
        else:
            _, g, fp, sp, gt = c
            tg.append('fix-both' if fp is not None and sp is not None else 'fix-first' if fp is not None else 'fix-second' if sp is not None else 'fix')
            if gt is not None:
                tg.append('fix-type')
    if case.get('time_limit'):
        tg.append('time-limit')
    return '+'.join(sorted(set(tg)))


def model_class(case):
    vals = [v for r in case['rows'] for v in r]
    return 'all-dont-care-model' if all(v is None for v in vals) else 'dont-cares' if any(v is None for v in vals) else 'defined-model'


def run_case(acc, case, known_witness=None):
    """`known_witness` = (gates, output gates) of a circuit that was built by the caller to satisfy model and constraints
    (witness family): the brute force is skipped, completeness failures get the class `constraint-with-free-gates+...`."""
    from cirbo.synthesis.circuit_search import CircuitFinderSat, Basis, Operation
    from cirbo.synthesis.exception import NoSolutionError
    from cirbo.core.circuit import gate as gate_mod
    n, m, N_, bname, normalized, cons, rows3 = case['n'], case['m'], case['N'], case['basis'], case['normalized'], case['constraints'], case['rows']
    rp = {'kind': 'bounded', 'n_inputs': n, 'model_rows': [['*' if v is None else int(v) for v in r] for r in rows3], 'model_kind': case['model_kind'], 'number_of_gates': N_,
          'basis': bname, 'basis_passed_as': case['basis_form'], 'need_normalized': normalized, 'constraints': [list(c) for c in cons], 'time_limit': case.get('time_limit')}
    care = [sum(1 << t for t in range(1 << n) if r[t] is not None) for r in rows3]
    val = [sum(1 << t for t in range(1 << n) if r[t]) for r in rows3]
    if known_witness is not None:
        witness = known_witness
        rp['constructed_witness'] = {'gates': [[n + k, a, b, t] for k, (a, b, t) in enumerate(witness[0])], 'outputs_at': list(witness[1])}
    else:
        witness = brute_exists(n, m, N_, bname, normalized, cons, care, val)
    rp['brute_force_witness'] = None if (witness is None or known_witness is not None) else {
        'gates': [[n + k, a, b, t] for k, (a, b, t) in enumerate(witness[0])], 'outputs_at': list(witness[1])}
    nontriv = n >= 2 and N_ >= 1
    acc.case(NAME, key=(n, repr(rows3), case['model_kind'], N_, bname, case['basis_form'], normalized, repr(cons), case.get('time_limit')), nontrivial=nontriv,
             sample=rp if nontriv and cons else None)
    # basis argument in the requested form
    if bname in BASES:
        basis_arg = {'enum': getattr(Basis, bname), 'str': bname, 'str-lower': bname.lower()}[case['basis_form']]
    else:
        basis_arg = [getattr(Operation, x) for x in CUSTOM[bname]]
    try:
        model = make_model(case)
        finder = CircuitFinderSat(model, N_, basis=basis_arg, need_normalized=normalized)
        order = case.get('constraints_after_cnf', False)
        if order:
            finder.get_cnf()
        for c in cons:
            if c[0] == 'fix':
                _, g, fp, sp, gt = c
                kw = {}
                if fp is not None:
                    kw['first_predecessor'] = fp
                if sp is not None:
                    kw['second_predecessor'] = sp
                if gt is not None:
                    kw['gate_type'] = getattr(gate_mod, gt)
                finder.fix_gate(g, **kw)
            else:
                finder.forbid_wire(c[1], c[2])
    except Exception as e:
        acc.violation('C06/CircuitFinderSat/setup-no-exception', tags(case) + '/raises-' + type(e).__name__, M.exc_str(e), rp)
        return
    try:
        if case.get('time_limit'):
            c = finder.find_circuit(time_limit=case['time_limit'])
        else:
            c = finder.find_circuit()
    except NoSolutionError:
        if known_witness is not None:
            kinds = sorted({'forbid-wire' if c[0] == 'forbid' else 'fix-gate' for c in cons})
            acc.violation('C06/find_circuit/complete', '+'.join(['constraint-with-free-gates'] + kinds),
                          f'NoSolutionError although the circuit the constraints were read off exists: gates {rp["constructed_witness"]}, '
                          f'constraints {[list(c) for c in cons]} [{tags(case)}]', rp)
        elif witness is not None:
            acc.violation('C06/find_circuit/complete', tags(case), f'NoSolutionError although a circuit exists: gates {rp["brute_force_witness"]}', rp)
        return
    except Exception as e:
        if case.get('time_limit'):
            acc.note('time_limit_run', f'find_circuit(time_limit={case["time_limit"]}) raised {M.exc_str(e)}')
        acc.violation('C06/find_circuit/no-other-exception', model_class(case) + '/raises-' + type(e).__name__,
                      f'find_circuit raised {M.exc_str(e)} [{tags(case)}]', rp)
        return
    if case.get('time_limit'):
        acc.note('time_limit_run', f'find_circuit(time_limit={case["time_limit"]}) returned through the pebble process pool')
    try:
        bad, net = check_returned(case, c)
    except Exception as e:
        acc.violation('C06/find_circuit/returns-a-circuit', tags(case) + '/raises-' + type(e).__name__, M.exc_str(e), rp)
        return
    rp['returned_circuit'] = net.to_json()
    for clause, wc, detail in bad:
        acc.violation(f'C06/find_circuit/sound-{clause}', wc, detail + f' [{tags(case)}]', rp)
    if not bad and witness is None:
        acc.violation('C06/find_circuit/brute-force-disagrees', tags(case), 'a circuit passing every soundness check was returned but the brute force found none (checker or interpretation problem)', rp)


# ------------------------------------------------------------------------------------- cases ----
def all_rows(n, m, r=None, limit=None):
    cells = m * (1 << n)
    if limit is None or 3 ** cells <= limit:
        for flat in itertools.product((False, True, None), repeat=cells):
            yield [list(flat[o * (1 << n):(o + 1) * (1 << n)]) for o in range(m)]
    else:
        for _ in range(limit):
            flat = [r.choice((False, True, None)) for _c in range(cells)]
            yield [list(flat[o * (1 << n):(o + 1) * (1 << n)]) for o in range(m)]


def base_case(n, rows, N_, bname, **kw):
    d = {'n': n, 'm': len(rows), 'rows': rows, 'N': N_, 'basis': bname, 'basis_form': 'enum' if bname in BASES else 'list', 'normalized': False, 'constraints': [],
         'model_kind': 'TruthTableModel'}
    d.update(kw)
    return d


def constraint_sets(n, N_, r):
    """A few combinations of constraints valid for (n, N)."""
    out = []
    gates = list(range(n, n + N_))
    if not gates or n + N_ < 3:
        return out
    g = gates[-1]
    preds = list(itertools.combinations(range(g), 2))
    a, b = r.choice(preds)
    types = ['AND', 'XOR', 'OR', 'GT', 'LNOT', 'NAND', 'RIFF']
    out.append([('fix', g, a, b, None)])
    out.append([('fix', g, a, b, r.choice(types))])
    out.append([('fix', g, a, None, None)])
    out.append([('fix', g, b, None, r.choice(types))])
    out.append([('fix', g, None, b, None)])
    out.append([('fix', g, None, a, None)])
    out.append([('forbid', a, g)])
    out.append([('forbid', b, g), ('fix', g, a, None, None)])
    out.append([('forbid', 0, g), ('forbid', 1, g)])
    if len(gates) >= 2:
        g0 = gates[0]
        out.append([('fix', g0, 0, 1, r.choice(types)), ('forbid', g0, g)])
        out.append([('fix', g, g0, None, None)])
        out.append([('fix', g, None, g0, None)])
        out.append([('forbid', g0, g), ('fix', g, None, 1, None)])
    return out


def cases_for(chunk):
    kind = chunk[0]
    r = M.rng('C06', *chunk)
    if kind == 'tiny':                       # n <= 1 and N = 0: nothing can exist
        for n, m in ((0, 1), (1, 1), (1, 2)):
            for rows in all_rows(n, m, r, 9):
                for N_ in (0, 1, 2):
                    yield base_case(n, rows, N_, r.choice(['AIG', 'XAIG', 'FULL', 'custom:and,xor']))
        for rows in ([[False, True, True, False]], [[None, None, None, None]], [[True, None, None, False], [None, None, None, None]]):
            yield base_case(2, rows, 0, 'FULL')
    elif kind == 'n2m1':                     # all don't-care patterns, one output
        _, N_, bnames, stride = chunk
        for k, rows in enumerate(all_rows(2, 1)):
            for bi, bname in enumerate(bnames):
                if stride > 1 and (k + bi) % stride:
                    continue
                forms = ['enum', 'str', 'str-lower'] if bname in BASES else ['list']
                kinds = ['TruthTableModel', 'TruthTableModel-strings', 'PyFunctionModel'] + (['TruthTable'] if all(v is not None for v in rows[0]) else [])
                yield base_case(2, rows, N_, bname, basis_form=forms[k % len(forms)], model_kind=kinds[k % len(kinds)])
    elif kind == 'n2m2':
        N_, count = chunk[1], chunk[2]
        for rows in all_rows(2, 2, r, count):
            bname = r.choice(['AIG', 'XAIG', 'FULL'] + list(CUSTOM))
            yield base_case(2, rows, N_, bname, normalized=r.random() < 0.2)
    elif kind == 'normalized':
        N_, count = chunk[1], chunk[2]
        for rows in all_rows(2, 1, r, count):
            yield base_case(2, rows, N_, r.choice(['AIG', 'XAIG', 'FULL', 'custom:or,lnot,liff', 'custom:gt,always_true']), normalized=True)
    elif kind == 'constraints':
        n, N_, count = chunk[1], chunk[2], chunk[3]
        for i in range(count):
            m = r.choice([1, 1, 2])
            rows = next(all_rows(n, m, r, 1)) if r.random() < 0.6 else [[r.random() < 0.5 for _ in range(1 << n)] for _o in range(m)]
            sets = constraint_sets(n, N_, r)
            if not sets:
                continue
            cons = sets[i % len(sets)]
            yield base_case(n, rows, N_, r.choice(['AIG', 'XAIG', 'FULL', 'FULL', 'custom:and,or,xor']), constraints=cons, normalized=r.random() < 0.1,
                            constraints_after_cnf=(i % 3 == 0))
    elif kind == 'time-limit':
        yield base_case(2, [[False, True, True, False]], 1, 'XAIG', time_limit=20)
        yield base_case(2, [[False, True, True, False]], 1, 'AIG', time_limit=20)
    elif kind == 'n3':
        N_, count, bnames = chunk[1], chunk[2], chunk[3]
        for i in range(count):
            m = r.choice([1, 1, 2])
            rows = next(all_rows(3, m, r, 1)) if r.random() < 0.5 else [[r.random() < 0.5 for _ in range(8)] for _o in range(m)]
            if r.random() < 0.5:
                # plant a solution so that satisfiable cases are frequent
                sp = space(3, N_, 'custom:and,or,xor', False)
                gates, masks = sp[r.randrange(len(sp))]
                rows = [[bool((masks[3 + r.randrange(N_)] >> t) & 1) if r.random() < 0.8 else None for t in range(8)] for _o in range(m)]
            yield base_case(3, rows, N_, r.choice(bnames), normalized=r.random() < 0.1)


def eval_gates(n, gates):
    """value bitmask (bit t = value in row t) of every node 0..n+len(gates)-1; operation tables from OP() of vlib/spec."""
    rows = 1 << n
    full = (1 << rows) - 1
    masks = [sum(1 << t for t in range(rows) if (t >> (n - 1 - i)) & 1) for i in range(n)]
    for a, b, t in gates:
        A, B = masks[a], masks[b]
        nA, nB = full ^ A, full ^ B
        v = 0
        for bit, q in zip(type_tt(t), (nA & nB, nA & B, A & nB, A & B)):
            if bit:
                v |= q
        masks.append(v)
    return masks


def random_witness(r, n, N_, bname, normalized=False):
    """A circuit W of the finder's search space (gate n+k reads a < b < n+k, type of the basis) and the outputs taken from it.
    Mostly with the first two gates independent and in DEcreasing order of their predecessor pairs (gate 3 = f(x1,x2), gate 4 =
    f(x0,x1)), and the outputs placed such that the positions of these gates matter (two outputs at different gates, or a last
    gate reading both): the circuits a search with symmetry breaking would not produce itself."""
    types = [t for t in basis_types(bname) if not (normalized and type_tt(t)[0])]
    binary = [t for t in types if t not in ('ALWAYS_TRUE', 'ALWAYS_FALSE', 'LNOT', 'RNOT', 'LIFF', 'RIFF')] or types
    shape = r.choice(['two-outputs', 'two-outputs', 'last-reads-both', 'random'])
    gates = []
    for k in range(N_):
        g = n + k
        pairs = list(itertools.combinations(range(g), 2))
        if shape != 'random' and N_ >= 3 and n >= 3 and k < 2:
            inp = list(itertools.combinations(range(n), 2))
            if k == 0:
                a, b = r.choice(inp[1:])                          # not the smallest pair
            else:
                a, b = r.choice([p for p in inp if p < (gates[0][0], gates[0][1])])
            t = r.choice(binary)
        elif shape == 'last-reads-both' and k == N_ - 1 and N_ >= 3:
            a, b = g - 2, g - 1
            t = r.choice(binary)
        elif shape == 'two-outputs' and k == N_ - 1 and N_ >= 3:
            a, b = r.choice([p for p in pairs if (g - 1 in p) != (g - 2 in p)] or pairs)   # reads exactly one of the two
            t = r.choice(binary)
        else:
            a, b = r.choice(pairs)
            t = r.choice(types)
        gates.append((a, b, t))
    last = n + N_ - 1
    if shape == 'two-outputs' and N_ >= 3:
        other = (last - 1) if (last - 2) in gates[-1][:2] else (last - 2)       # the gate the last one does not read
        outs = [last, other]
        r.shuffle(outs)
    elif shape == 'last-reads-both':
        outs = [last]
    else:
        outs = [r.randrange(n, n + N_) for _ in range(r.choice([1, 2]))]
        if last not in outs and r.random() < 0.7:
            outs[0] = last
    return tuple(gates), tuple(outs)


def unused_wires(n, gates, g):
    """every wire c -> g (c < g) that the circuit does not use"""
    a, b, _t = gates[g - n]
    return [('forbid', c, g) for c in range(g) if c not in (a, b)]


def witness_cases(chunk):
    """(case, known witness) of the family 'constraints read off a constructed circuit W while other gates stay free':
    W is drawn by `random_witness`, the model is W's truth table (spec evaluator), and a FRESH finder gets
      fix:g        only fix_gate(g, first_predecessor, second_predecessor, gate_type) of one gate g of W,
      fix-notype:g the same without gate_type (thorough),
      forbid:g     only the forbid_wire calls for every wire into g that W does not use,
      forbid:all   those of all gates (W's topology is the only one left).
    W obeys each of these, so NoSolutionError is a completeness failure without any brute force.
    Quick tier: fix:<last gate> for every W plus one of fix:<earlier gate> / forbid:g / forbid:all in rotation."""
    _, n, N_, start, count, full = chunk
    bases = ['XAIG', 'AIG', 'custom:and,or,xor', 'FULL', 'XAIG', 'AIG', 'custom:and,xor']
    for i in range(start, start + count):
        r = M.rng('C06', 'witness', n, N_, i)
        bname = bases[i % len(bases)]
        normalized = (i % 11 == 10)
        gates, outs = random_witness(r, n, N_, bname, normalized)
        masks = eval_gates(n, gates)
        rows = [[bool((masks[o] >> t) & 1) for t in range(1 << n)] for o in outs]
        last = n + N_ - 1
        if full:
            sel = [('fix', g) for g in range(n, n + N_)] + [('fix-notype', g) for g in range(n, n + N_)] + \
                  [('forbid', g) for g in range(n, n + N_)] + [('forbid', 'all')]
        else:
            # two calls per witness (a find_circuit call on n = N = 3 costs ~0.3 s with the z3-backed solver shim): always the
            # LAST gate pinned (all earlier gates free); then in rotation an earlier gate pinned / the unused wires into one
            # gate forbidden / all unused wires forbidden
            sel = [('fix', last), [('forbid', last - (i // 4) % N_), ('fix', n + (i // 4) % max(1, N_ - 1)), ('forbid', 'all'),
                                   ('fix', n + (1 + i // 4) % max(1, N_ - 1))][i % 4]]
        for what in dict.fromkeys(x for x in sel if x):
            kind, g = what
            if kind == 'fix':
                a, b, t = gates[g - n]
                cons = [('fix', g, a, b, t)]
            elif kind == 'fix-notype':
                a, b, t = gates[g - n]
                cons = [('fix', g, a, b, None)]
            elif g == 'all':
                cons = [w for gg in range(n, n + N_) for w in unused_wires(n, gates, gg)]
            else:
                cons = unused_wires(n, gates, g)
            if not cons:
                continue
            assert constraint_ok(gates, n, cons)
            yield base_case(n, rows, N_, bname, constraints=cons, normalized=normalized, constraints_after_cnf=(i % 3 == 0)), (gates, outs)


def work_witness(acc, chunk):
    budget = M.Budget(chunk[-1])
    skipped = 0
    for case, wit in witness_cases(chunk[:-1]):
        if not budget.left():
            skipped += 1
            continue
        try:
            run_case(acc, case, known_witness=wit)
        except Exception as e:
            acc.note('driver_internal_error', f'C06 witness case {case}: {M.exc_str(e)}')
    if skipped:
        acc.notes['cases_skipped_for_time'] = acc.notes.get('cases_skipped_for_time', 0) + skipped


def work(acc, chunk):
    if chunk[0] == 'witness':
        return work_witness(acc, chunk)
    budget = M.Budget(chunk[-1])
    chunk = chunk[:-1]
    skipped = 0
    for case in cases_for(chunk):
        if not budget.left():
            skipped += 1
            continue
        try:
            run_case(acc, case)
        except Exception as e:
            acc.note('driver_internal_error', f'C06 case {case}: {M.exc_str(e)}')
    if skipped:
        acc.notes['cases_skipped_for_time'] = acc.notes.get('cases_skipped_for_time', 0) + skipped


def run_bounded(rep, quick):
    try:
        import cirbo.synthesis.circuit_search  # noqa: F401
    except Exception as e:
        rep.error(f'C06 bounded driver: cirbo.synthesis cannot be imported (pysat shim path missing?): {M.exc_str(e)}')
        return
    acc = M.Acc()
    acc.driver(NAME,
               'real CircuitFinderSat(...).find_circuit() (no circuit_db; SAT solver = z3-backed pysat shim) vs. brute-force enumeration of every circuit with exactly N two-input gates '
               '(distinct predecessors a<b<g, operation tables from OP() of vlib/spec): all three-valued models with n=2, m=1 (all 81 don\'t-care patterns) for N=1 over AIG/XAIG/FULL and '
               '2 custom lists and N=2 over a rotating basis; sampled n=2, m=2; n<=1 and N=0; need_normalized; 13 shapes of fix_gate/forbid_wire combinations (before and after get_cnf); '
               'models given as TruthTableModel (values and strings), PyFunctionModel, TruthTable; bases as enum, str, list; one or two runs with time_limit (process pool); thorough adds n=3, N<=3; '
               'witness family (completeness under a constraint while other gates stay free): 40 (quick) / 300 (thorough, plus 40 with n=2 and 40 with N=2) constructed circuits W with n=3 inputs, N=3 gates '
               'over AIG/XAIG/FULL/{and,or,xor}/{and,xor}, gates 3 and 4 independent and out of canonical order, 1-2 outputs, model = truth table of W; a fresh finder with only fix_gate(g, first, second, type) '
               'of one gate of W (quick: the last gate for every W, an earlier gate for every second W; thorough: each gate, with and without type) or only the forbid_wire calls for the wires W does not use '
               '(into one gate / into all gates) must not raise NoSolutionError and must return a sound circuit; '
               'soundness of the returned circuit and completeness of NoSolutionError; non-trivial = n>=2 and N>=1',
               'n<=2 (thorough 3), m<=2, N<=2 (thorough 3); witness family n=3, N=3, m<=2', exhaustive=False)
    if quick:
        chunks = [('tiny', 2), ('time-limit', 5),
                  ('n2m1', 1, ['AIG', 'XAIG', 'FULL', 'custom:and,xor', 'custom:nand'], 2, 5),
                  ('n2m1', 2, ['AIG', 'FULL', 'XAIG', 'custom:and,or,xor'], 2, 10),
                  ('constraints', 2, 2, 130, 7), ('constraints', 2, 1, 20, 1),
                  ('n2m2', 2, 40, 3), ('n2m2', 1, 25, 1), ('normalized', 2, 20, 1), ('normalized', 1, 20, 1),
                  ('witness', 3, 3, 0, 40, False, 30)]
    else:
        chunks = [('tiny', 30), ('time-limit', 30),
                  ('n2m1', 1, ['AIG', 'XAIG', 'FULL'] + list(CUSTOM), 1, 120), ('n2m1', 2, ['AIG', 'XAIG'], 1, 200), ('n2m1', 2, ['FULL', 'custom:and,or,xor'], 1, 200),
                  ('n2m1', 2, ['custom:and,xor', 'custom:nand', 'custom:or,lnot,liff', 'custom:gt,always_true'], 1, 300), ('n2m1', 3, ['AIG', 'custom:and,or,xor'], 3, 400)]
        chunks += [('constraints', 2, 2, 400, i, 240) for i in range(4)] + [('constraints', 2, 3, 150, i, 400) for i in range(3)]
        chunks += [('constraints', 2, 1, 60, 0, 60), ('constraints', 3, 2, 120, 0, 400), ('constraints', 3, 2, 120, 1, 400)]
        chunks += [('n2m2', 2, 500, i, 240) for i in range(6)] + [('n2m2', 1, 300, 0, 120), ('n2m2', 3, 80, 0, 400), ('n2m2', 3, 80, 1, 400)]
        chunks += [('normalized', 2, 81, 120), ('normalized', 1, 81, 60), ('normalized', 3, 60, 300)]
        chunks += [('n3', 1, 150, ['AIG', 'XAIG', 'FULL'], 200), ('n3', 2, 120, ['AIG', 'XAIG', 'FULL', 'custom:and,or,xor'], 0, 400),
                   ('n3', 2, 120, ['AIG', 'XAIG', 'FULL', 'custom:and,or,xor'], 1, 400), ('n3', 3, 50, ['custom:and,or,xor', 'custom:and,xor'], 0, 500),
                   ('n3', 3, 50, ['custom:and,or,xor', 'custom:and,xor'], 1, 500)]
        chunks += [('witness', 3, 3, 25 * i, 25, True, 600) for i in range(12)] + [('witness', 2, 3, 0, 40, True, 300), ('witness', 3, 2, 0, 40, True, 300)]
    # the time_limit runs start a process pool themselves: keep them in this (non-daemonic) process
    own = [c for c in chunks if c[0] == 'time-limit']
    chunks = [c for c in chunks if c[0] != 'time-limit']
    acc.merge(M.run_chunks(work, own, parallel=False))
    total = M.run_chunks(work, chunks, parallel=not quick)
    acc.merge(total)
    acc.note('assumptions', ['SAT solver of find_circuit is the z3-backed pysat shim (sound and complete CNF solver assumed)',
                             'search space read as the finder\'s own: two distinct predecessors in increasing order (see module docstring)'])
    rep.assume('C06 bounded: "reading only inputs or earlier gates" = two distinct predecessors a<b<g (the finder\'s search space); pysat = z3-backed shim')
    acc.flush(rep)

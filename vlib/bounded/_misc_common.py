"""Shared helpers of the bounded drivers C05, C06, C11, C12, C15, C16 (no repository code in here).

* `Acc`  – picklable accumulator with the same three calls as `Report` (driver / case / violation);
           a driver fills one `Acc` per work chunk, chunks may run in worker processes, the parent
           merges them into the real `Report` in chunk order (deterministic).
* `rng`  – seeded `random.Random` that does not depend on PYTHONHASHSEED.
* `run_chunks` – run `fn(chunk)` for every chunk, in-process (quick) or in a fork pool (thorough).
* small netlist helpers on `vlib.spec.net.Net`.
"""
import itertools
import multiprocessing as mp
import random
import time
import traceback

from .. import env
from ..spec import net as N
from ..spec import ops as S


# ------------------------------------------------------------------------------- accumulator ----
class Acc:
    def __init__(self):
        self.drivers = {}       # name -> dict(rule, bound, exhaustive)
        self.cases = {}         # name -> [evaluations, set(hash(key)), samples]
        self.viol = []          # (obligation, witness_class, detail, replay_obj)
        self._seen = set()
        self.notes = {}

    def driver(self, name, rule, bound, exhaustive=False):
        self.drivers.setdefault(name, {'rule': rule, 'bound': bound, 'exhaustive': exhaustive})
        self.cases.setdefault(name, [0, set(), []])

    def case(self, name, key=None, nontrivial=True, sample=None):
        c = self.cases.setdefault(name, [0, set(), []])
        c[0] += 1
        if nontrivial and key is not None:
            c[1].add(hash(key))
        if sample is not None and len(c[2]) < 3:
            c[2].append(sample)

    def violation(self, obligation, witness_class, detail, replay_obj=None):
        k = (obligation, witness_class)
        if k in self._seen:
            return
        self._seen.add(k)
        self.viol.append((obligation, witness_class, str(detail)[:1500], replay_obj))

    def has(self, obligation, witness_class):
        return (obligation, witness_class) in self._seen

    def note(self, key, value):
        self.notes[key] = value

    def merge(self, other):
        for n, d in other.drivers.items():
            self.drivers.setdefault(n, d)
        for n, (ev, keys, samples) in other.cases.items():
            c = self.cases.setdefault(n, [0, set(), []])
            c[0] += ev
            c[1] |= keys
            for s in samples:
                if len(c[2]) < 3:
                    c[2].append(s)
        for v in other.viol:
            self.violation(*v)
        for k, v in other.notes.items():
            if isinstance(v, (int, float)) and isinstance(self.notes.get(k), (int, float)):
                self.notes[k] += v
            else:
                self.notes.setdefault(k, v)

    def flush(self, rep):
        """Write everything into the real Report."""
        for n, d in self.drivers.items():
            rep.bounded_driver(n, d['rule'], d['bound'], exhaustive=d['exhaustive'])
        for n, (ev, keys, samples) in self.cases.items():
            if n not in rep.bounded:
                rep.bounded_driver(n, '(undeclared)', '(undeclared)')
            d = rep.bounded[n]
            d['evaluations'] += ev
            d['nontrivial'] |= keys
            for s in samples:
                if len(d['samples']) < 3:
                    d['samples'].append(s)
        for ob, wc, detail, replay in self.viol:
            rep.violation(ob, wc, detail, replay)
        if 'driver_internal_error' in self.notes:
            rep.error('bounded driver internal error: ' + str(self.notes['driver_internal_error']))
        if self.notes:
            rep.extra.setdefault('bounded_notes', {}).update({k: v for k, v in self.notes.items()})


def rng(*salt):
    """Deterministic given env.SEED and the salt (string seeding: independent of PYTHONHASHSEED)."""
    return random.Random('|'.join(str(s) for s in (env.SEED,) + tuple(salt)))


def _call_chunk(args):
    fn, chunk = args
    acc = Acc()
    try:
        fn(acc, chunk)
    except Exception as e:  # a driver must never crash: report as checker-side note, keep going
        acc.note('driver_internal_error', f'{fn.__name__}{chunk!r}: {type(e).__name__}: {e}\n{traceback.format_exc()[-1500:]}')
    return acc


def run_chunks(fn, chunks, parallel):
    """fn(acc, chunk) for every chunk; returns the merged Acc (chunk order)."""
    chunks = list(chunks)
    total = Acc()
    if parallel and len(chunks) > 1:
        nproc = max(1, min(16, env.NPROC, len(chunks)))
        try:
            ctx = mp.get_context('fork')
            with ctx.Pool(nproc) as pool:
                for acc in pool.imap(_call_chunk, [(fn, c) for c in chunks]):
                    total.merge(acc)
            return total
        except Exception as e:  # fall back to in-process execution
            total = Acc()
            total.note('pool_fallback', f'{type(e).__name__}: {e}')
    for c in chunks:
        total.merge(_call_chunk((fn, c)))
    return total


class Budget:
    """Wall-clock guard so that a tier never overruns (cases skipped because of it are counted)."""

    def __init__(self, seconds):
        self.t_end = time.time() + seconds

    def left(self):
        return time.time() < self.t_end


def exc_str(e):
    return f'{type(e).__name__}: {str(e)[:200]}'


# ------------------------------------------------------------------------------- net helpers ----
def cone(net, roots):
    """Operand closure of `roots` (labels)."""
    seen, stack = set(), list(roots)
    while stack:
        g = stack.pop()
        if g in seen:
            continue
        seen.add(g)
        stack.extend(net.gates[g][1])
    return seen


def has_wide(net, labels=None):
    return any(len(o) > 2 for g, (t, o) in net.gates.items() if labels is None or g in labels)


def is_topological_storage(net):
    """Every operand of a non-input gate is stored before its user (inputs count as stored first)."""
    seen = set(net.inputs)
    for g in net.order:
        t, ops = net.gates[g]
        if t == 'INPUT':
            continue
        if any(o not in seen for o in ops):
            return False
        seen.add(g)
    return True


def permuted(net, r):
    """Same netlist, storage order shuffled."""
    items = list(net.gates.items())
    r.shuffle(items)
    return N.Net(net.inputs, net.outputs, dict(items))


def reversed_storage(net):
    items = list(net.gates.items())[::-1]
    return N.Net(net.inputs, net.outputs, dict(items))


def rename(net, mapping):
    f = lambda x: mapping.get(x, x)
    return N.Net([f(i) for i in net.inputs], [f(o) for o in net.outputs],
                 {f(k): (t, tuple(f(o) for o in ops)) for k, (t, ops) in net.gates.items()})


def all_tables(net):
    """den of every gate for every total assignment: dict label -> list over canonical index."""
    n = len(net.inputs)
    res = {g: [] for g in net.gates}
    for x in N.assignments(n):
        v = N.den_all(net, dict(zip(net.inputs, x)))
        for g in net.gates:
            res[g].append(v[g])
    return res


def single_gate_nets(max_nary=4, types=None):
    """One net per (gate type, arity): inputs x0.. feed one gate g0 (distinct operands), output g0."""
    from ..spec import gen as G
    for t in (types or G.ALL_TYPES):
        for a in G.arities(t, max_nary):
            ins = [f'x{i}' for i in range(max(a, 1))]
            gates = {x: ('INPUT', ()) for x in ins}
            gates['g0'] = (t, tuple(ins[:a]))
            yield N.Net(ins, ['g0'], gates)


def stride_sample(iterable, stride, offset=0):
    for i, x in enumerate(iterable):
        if (i - offset) % stride == 0:
            yield x


def subsets(seq, max_size=None):
    seq = list(seq)
    top = len(seq) if max_size is None else min(max_size, len(seq))
    for k in range(top + 1):
        yield from itertools.combinations(seq, k)

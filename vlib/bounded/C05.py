"""C05 bounded stand-in: the circuit-to-CNF reduction is exact.

For every circuit of the bounded space and every selection `sel` of output indices, with
`cnf = tseytin_transformation(c, sel)` over variables 1..nv (nv <= 12, all 2^nv valuations enumerated
as one big-integer bitset):
  (E) for every total input assignment a (input i <-> variable i+1): the number of satisfying valuations
      that extend a is 1 if every selected output evaluates True under a (den() of vlib/spec) and 0 otherwise
      (so: satisfiable <=> outputs true; the extension is unique; inputs are variables 1..n even if unused);
  (V) the gates of the operand cone of the selected outputs can be matched one-to-one with the
      variables n+1..nv such that every satisfying valuation gives each gate its evaluated value, and
      nv - n equals the number of non-input gates in that cone;
  (F) Cnf.from_circuit(c) is equivalent to the transformation with all outputs selected;
  (Q) is_circuit_satisfiable(c) (z3-backed pysat shim) answers True iff some assignment makes all outputs
      True; a returned model satisfies the CNF and projects onto such an assignment; no model if False.
A mismatch on a circuit that contains a gate whose own one-gate template is wrong is attributed to that
template (one finding per gate type), everything else to the clause that failed.
"""
import itertools

from .. import env
from ..spec import net as N
from ..spec import gen as G
from ..spec import ops as S
from . import _misc_common as M

NAME = 'tseytin-cnf-vs-evaluation'
NAME_Q = 'is_circuit_satisfiable-vs-evaluation'
MAXV = 12
PROC = {'INPUT': '_process_input', 'ALWAYS_TRUE': '_process_always_true', 'ALWAYS_FALSE': '_process_always_false',
        'NOT': '_process_not_or_lnot', 'LNOT': '_process_not_or_lnot', 'RNOT': '_process_rnot', 'IFF': '_process_iff_or_liff',
        'LIFF': '_process_iff_or_liff', 'RIFF': '_process_riff', 'AND': '_process_and', 'NAND': '_process_nand', 'OR': '_process_or',
        'NOR': '_process_nor', 'XOR': '_process_xor', 'NXOR': '_process_nxor', 'GT': '_process_gt', 'LT': '_process_lt',
        'GEQ': '_process_geq', 'LEQ': '_process_leq'}

_VARMASK = {}


def varmask(nv, k):
    """Bitset (python int, 2^nv bits) of the valuations v in [0, 2^nv) whose bit k is set."""
    key = (nv, k)
    m = _VARMASK.get(key)
    if m is None:
        block = ((1 << (1 << k)) - 1) << (1 << k)          # 2^k zeros then 2^k ones
        period = 1 << (k + 1)
        reps = (1 << nv) // period
        m = 0
        for i in range(reps):
            m |= block << (i * period)
        _VARMASK[key] = m
    return m


def sat_set(clauses, nv):
    """Bitset of all valuations of variables 1..nv satisfying the clause list (variable k+1 <-> bit k)."""
    full = (1 << (1 << nv)) - 1
    s = full
    for cl in clauses:
        c = 0
        for lit in cl:
            m = varmask(nv, abs(lit) - 1)
            c |= m if lit > 0 else (full ^ m)
        s &= c
        if not s:
            break
    return s


def bits_of(s):
    """Indices of the set bits of a big int."""
    out = []
    i = 0
    while s:
        low = s & -s
        out.append(low.bit_length() - 1)
        s ^= low
    return out


def nv_of(clauses, n):
    return max([n] + [abs(l) for cl in clauses for l in cl])


def input_pattern(x):
    """Bit pattern of a total assignment: input i <-> bit i (variable i+1)."""
    return sum(1 << i for i, b in enumerate(x) if b)


def analyse(net, sel_labels, clauses, tab):
    """Compare the CNF with evaluation. Returns None or (clause, kind, detail dict)."""
    n = len(net.inputs)
    for cl in clauses:
        for l in cl:
            if not isinstance(l, int) or isinstance(l, bool) or l == 0:
                return ('well-formed-cnf', 'bad-literal', {'clause': cl})
    nv = nv_of(clauses, n)
    if nv > MAXV:
        return ('skip', None, None)
    s = sat_set(clauses, nv)
    mask_in = (1 << n) - 1
    by_proj = {}
    total_sat = bin(s).count('1')
    if total_sat > 4096:
        vals = bits_of(s)[:4096]
    else:
        vals = bits_of(s)
    for v in vals:
        by_proj.setdefault(v & mask_in, []).append(v)
    want_sat = []
    for j, x in enumerate(N.assignments(n)):
        pa = input_pattern(x)
        exp = all(tab[o][j] for o in sel_labels)
        got = by_proj.get(pa, [])
        if exp:
            want_sat.append((j, pa))
        if exp and not got:
            return ('sat-iff-outputs-true', 'unsat-although-outputs-true', {'assignment': x, 'satisfying_extensions': 0})
        if not exp and got:
            return ('sat-iff-outputs-true', 'sat-although-output-false', {'assignment': x, 'a_satisfying_valuation': _val(got[0], nv)})
        if exp and len(got) > 1:
            return ('extension-unique', 'several-extensions', {'assignment': x, 'valuations': [_val(v, nv) for v in got[:3]]})
    # (V) gate values
    enc = [g for g in M.cone(net, sel_labels) if net.gates[g][0] != 'INPUT']
    if sel_labels or True:
        if nv - n != len(enc):
            # variables n+1..nv that occur in the CNF vs gates that had to be encoded
            return ('gate-values', 'variable-count', {'variables_beyond_inputs': nv - n, 'gates_in_cone': sorted(enc)})
        if want_sat and enc:
            cand = {}
            for g in enc:
                cand[g] = [k for k in range(n, nv)
                           if all(((by_proj[pa][0] >> k) & 1) == int(tab[g][j]) for j, pa in want_sat)]
                if not cand[g]:
                    return ('gate-values', 'no-variable-carries-gate-value', {'gate': g})
            if not _matching(cand):
                return ('gate-values', 'no-injective-assignment-of-variables', {'candidates': {g: [k + 1 for k in v] for g, v in cand.items()}})
    return None


def _val(v, nv):
    return [(k + 1) if (v >> k) & 1 else -(k + 1) for k in range(nv)]


def _matching(cand):
    match = {}

    def aug(g, seen):
        for k in cand[g]:
            if k in seen:
                continue
            seen.add(k)
            if k not in match or aug(match[k], seen):
                match[k] = g
                return True
        return False

    return all(aug(g, set()) for g in cand)


def selections(m, r, quick):
    """Output selections (lists of output indices) for a circuit with m outputs."""
    idx = list(range(m))
    sels = [None, []]
    sels += [[i] for i in idx]
    pairs = [list(p) for p in itertools.combinations(idx, 2)]
    if quick and len(pairs) > 3:
        pairs = r.sample(pairs, 3)
    sels += pairs
    if m >= 3:
        sels.append(idx)
    if m >= 1:
        sels.append([idx[-1], idx[-1]])
    if m >= 2:
        sels.append([idx[-1], idx[0]])
    return sels


# ---------------------------------------------------------------------------------- templates ----
_FAULTY = None


def faulty_templates():
    """(type, wide?) of the gate types whose one-gate circuit is already encoded wrongly (computed with the
    same oracle; used only to attribute failures of bigger circuits to one root cause)."""
    global _FAULTY
    if _FAULTY is not None:
        return _FAULTY
    from cirbo.sat.cnf import tseytin_transformation
    bad = {}
    for base in M.single_gate_nets(max_nary=4):
        t, ops = base.gates['g0']
        # the gate as the asserted output, and below a NOT (exposes templates that only imply one direction)
        neg = N.Net(base.inputs, ['g1'], dict(base.gates, g1=('NOT', ('g0',))))
        for net, out in ((base, 'g0'), (neg, 'g1')):
            try:
                c = N.build(net)
                clauses = [list(cl) for cl in tseytin_transformation(c).get_raw()]
                res = analyse(net, [out], clauses, M.all_tables(net))
            except Exception as e:
                res = ('no-exception', 'raises-' + type(e).__name__, {'exception': M.exc_str(e)})
                clauses = None
            if res and res[0] != 'skip':
                bad.setdefault((t, len(ops) > 2), (net, clauses, res))
    _FAULTY = bad
    return bad


def report(acc, net, sel, sel_labels, clauses, res, where='tseytin_transformation'):
    clause, kind, detail = res
    faulty = faulty_templates()
    scope = M.cone(net, sel_labels) if sel_labels is not None else set(net.gates)
    culprits = sorted({(t, len(o) > 2) for g, (t, o) in net.gates.items() if g in scope and (t, len(o) > 2) in faulty})
    replay = {'kind': 'bounded', 'netlist': net.to_json(), 'output_selection': sel, 'cnf': clauses, 'failed_clause': clause,
              'observation': kind, 'detail': detail, 'entry_point': where}
    if culprits:
        t, wide = culprits[0]
        snet, sclauses, sres = faulty[(t, wide)]
        replay['root_cause_template'] = {'netlist': snet.to_json(), 'cnf': sclauses, 'observation': sres[1], 'detail': sres[2]}
        acc.violation(f'C05/{PROC[t]}/template-denotes-gate', f'{t}-nary>2' if wide else f'{t}',
                      f'one-gate circuit {t}{snet.gates["g0"][1]}{" (asserted through a NOT above it)" if "g1" in snet.gates else ""} is encoded as {sclauses}: {sres[1]} {sres[2]} '
                      f'(also seen through {where}/{clause} on a {len(net.gates)}-node circuit)', replay)
    else:
        acc.violation(f'C05/{where}/{clause}', kind, f'{kind}: {detail}; selection {sel}; cnf {clauses}', replay)


# -------------------------------------------------------------------------------------- cases ----
def check_net(acc, net, r, quick, do_query):
    from cirbo.sat.cnf import tseytin_transformation, Cnf
    try:
        c = N.build(net)
    except Exception as e:
        acc.violation('C05/setup/build', 'build-raises', M.exc_str(e), {'netlist': net.to_json()})
        return
    tab = M.all_tables(net)
    n = len(net.inputs)
    nontriv = len(net.gates) > n
    all_clauses = None
    for sel in selections(len(net.outputs), r, quick):
        sel_labels = [net.outputs[i] for i in (range(len(net.outputs)) if sel is None else sel)]
        try:
            cnf = tseytin_transformation(c, None if sel is None else list(sel))
            clauses = [list(cl) for cl in cnf.get_raw()]
        except Exception as e:
            report(acc, net, sel, sel_labels, None, ('no-exception', 'raises-' + type(e).__name__, {'exception': M.exc_str(e)}))
            continue
        if sel is None:
            all_clauses = clauses
        res = analyse(net, sel_labels, clauses, tab)
        if res and res[0] == 'skip':
            acc.notes['skipped_more_than_12_variables'] = acc.notes.get('skipped_more_than_12_variables', 0) + 1
            continue
        acc.case(NAME, key=(net.key(), None if sel is None else tuple(sel)), nontrivial=nontriv and bool(sel_labels),
                 sample={'netlist': net.to_json(), 'selection': sel, 'cnf': clauses} if nontriv and sel_labels else None)
        if res:
            report(acc, net, sel, sel_labels, clauses, res)
    # (F) Cnf.from_circuit
    try:
        fc = [list(cl) for cl in Cnf.from_circuit(c).get_raw()]
        if all_clauses is not None:
            nv = max(nv_of(fc, n), nv_of(all_clauses, n))
            if nv <= MAXV and sat_set(fc, nv) != sat_set(all_clauses, nv):
                acc.violation('C05/Cnf.from_circuit/equals-transformation-of-all-outputs', 'different-formula',
                              f'{fc} vs {all_clauses}', {'netlist': net.to_json(), 'from_circuit': fc, 'tseytin_all_outputs': all_clauses})
    except Exception as e:
        report(acc, net, None, list(net.outputs), None, ('no-exception', 'raises-' + type(e).__name__, {'exception': M.exc_str(e)}), where='Cnf.from_circuit')
        fc = None
    # (Q) is_circuit_satisfiable
    if do_query and fc is not None:
        check_query(acc, net, c, fc, tab)


def check_query(acc, net, c, fc, tab):
    from cirbo.sat import is_circuit_satisfiable
    n = len(net.inputs)
    sat_assignments = [x for j, x in enumerate(N.assignments(n)) if all(tab[o][j] for o in net.outputs)]
    want = bool(sat_assignments)
    labels = list(net.outputs)
    try:
        res = is_circuit_satisfiable(c)
        answer, model = res.answer, res.model
    except Exception as e:
        report(acc, net, None, labels, fc, ('no-exception', 'raises-' + type(e).__name__, {'exception': M.exc_str(e)}), where='is_circuit_satisfiable')
        return
    acc.case(NAME_Q, key=net.key(), nontrivial=len(net.gates) > n and bool(net.outputs),
             sample={'netlist': net.to_json(), 'answer': answer, 'model': model})
    if bool(answer) != want or not isinstance(answer, bool):
        report(acc, net, None, labels, fc, ('answer-iff-some-assignment-makes-outputs-true', 'wrong-answer',
                                            {'answer': answer, 'satisfying_assignments': sat_assignments[:3]}), where='is_circuit_satisfiable')
        return
    if not answer:
        if model is not None:
            acc.violation('C05/is_circuit_satisfiable/no-model-when-unsatisfiable', 'model-returned', f'{model}', {'netlist': net.to_json(), 'model': model})
        return
    if model is None:
        report(acc, net, None, labels, fc, ('model-returned', 'no-model', {}), where='is_circuit_satisfiable')
        return
    val = {}
    for l in model:
        val[abs(l)] = l > 0
    # the model satisfies the CNF (variables the solver did not report may take either value)
    free = sorted({abs(l) for cl in fc for l in cl} - set(val))
    ok_cnf = True
    if len(free) <= 6:
        ok_cnf = False
        for comp in itertools.product((False, True), repeat=len(free)):
            full = dict(val)
            full.update(zip(free, comp))
            if all(any(full[abs(l)] == (l > 0) for l in cl) for cl in fc):
                ok_cnf = True
                break
    if not ok_cnf:
        report(acc, net, None, labels, fc, ('model-satisfies-cnf', 'model-falsifies-clause', {'model': model}), where='is_circuit_satisfiable')
        return
    # ... and projects onto an assignment making every output True (inputs the model leaves open: some completion)
    proj_ok = any(all((val[i + 1] == x[i]) for i in range(n) if (i + 1) in val) for x in sat_assignments)
    if not proj_ok:
        report(acc, net, None, labels, fc, ('model-projects-onto-satisfying-assignment', 'projection-does-not-satisfy',
                                            {'model': model, 'satisfying_assignments': sat_assignments[:4]}), where='is_circuit_satisfiable')


def deep_net(r, n, k):
    """large circuit with LOCALITY: operands mostly among the last few nodes, so the cone of the last gates is deep, covers most
    of the circuit and re-converges all the time (a gate and a member of its own cone as operands of one gate, in both orders)"""
    ins = [f'x{i}' for i in range(n)]
    gates = [(x, ('INPUT', ())) for x in ins]
    nodes = list(ins)
    for i in range(k):
        t = r.choice(G.ALL_TYPES)
        a = r.choice(G.arities(t, 3))
        ops = tuple(r.choice(nodes[-6:]) if r.random() < 0.8 else r.choice(nodes) for _ in range(a))
        gates.append((f'g{i}', (t, ops)))
        nodes.append(f'g{i}')
    outs = [nodes[-1], nodes[-2], r.choice(nodes)]
    r.shuffle(gates)
    return N.Net(ins, outs, dict(gates))


# ------------------------------------------------------------------- large circuits (solver oracle) ----
def check_large(acc, net, r, n_assign=8):
    """Circuits far beyond brute force (tens to hundreds of gates): behaviour that only changes beyond some size - another
    traversal for big circuits, a recursion guard - is invisible on <=7 gates.  Oracle: for sampled total input assignments
    and two output selections the CNF plus the input units is handed to z3 (used as a plain SAT solver): satisfiable iff
    every selected output is True under den(), and then the satisfying extension is unique (blocking clause -> unsat)."""
    import z3
    from cirbo.sat.cnf import tseytin_transformation
    try:
        c = N.build(net)
    except Exception as e:
        acc.violation('C05/setup/build', 'build-raises', M.exc_str(e), {'netlist': net.to_json()})
        return
    n = len(net.inputs)
    m = len(net.outputs)
    sels = [None] + ([[r.randrange(m)]] if m else [])
    asg = [tuple(r.random() < 0.5 for _ in range(n)) for _ in range(n_assign)] + [tuple([False] * n), tuple([True] * n)]
    for sel in sels:
        sel_labels = [net.outputs[i] for i in (range(m) if sel is None else sel)]
        try:
            clauses = [list(cl) for cl in tseytin_transformation(c, None if sel is None else list(sel)).get_raw()]
        except Exception as e:
            report(acc, net, sel, sel_labels, None, ('no-exception', 'raises-' + type(e).__name__, {'exception': M.exc_str(e)}))
            continue
        nv = nv_of(clauses, n)
        xs = [z3.Bool(f'v{k + 1}') for k in range(nv)]
        lit = lambda l: xs[l - 1] if l > 0 else z3.Not(xs[-l - 1])          # noqa: E731
        sol = z3.Solver()
        for cl in clauses:
            sol.add(z3.Or([lit(l) for l in cl]) if cl else z3.BoolVal(False))
        for x in asg:
            val = N.den_all(net, dict(zip(net.inputs, x)))
            exp = all(val[o] for o in sel_labels)
            sol.push()
            for k, b in enumerate(x):
                sol.add(xs[k] if b else z3.Not(xs[k]))
            st = sol.check()
            acc.case(NAME, key=(net.key(), 'large', None if sel is None else tuple(sel), x), nontrivial=True)
            bad = None
            if st == z3.sat and not exp:
                bad = ('sat-iff-outputs-true', 'sat-although-output-false', {'assignment': list(x), 'gates': len(net.gates)})
            elif st == z3.unsat and exp:
                bad = ('sat-iff-outputs-true', 'unsat-although-outputs-true', {'assignment': list(x), 'gates': len(net.gates)})
            elif st == z3.sat:
                mdl = sol.model()
                sol.add(z3.Or([xs[k] != bool(mdl.eval(xs[k], model_completion=True)) for k in range(nv)]))
                if sol.check() == z3.sat:
                    bad = ('extension-unique', 'several-extensions', {'assignment': list(x), 'gates': len(net.gates)})
            sol.pop()
            if bad:
                small = {'kind': 'bounded', 'netlist': net.to_json(), 'output_selection': sel, 'failed_clause': bad[0], 'observation': bad[1],
                         'detail': bad[2], 'entry_point': 'tseytin_transformation', 'oracle': 'z3 as SAT solver on CNF + input units'}
                acc.violation(f'C05/tseytin_transformation/{bad[0]}', bad[1] + '-large-circuit', f'{bad[1]} on a circuit with {len(net.gates)} nodes: {bad[2]}; selection {sel}', small)
                return


def with_outputs(net, outs):
    return N.Net(net.inputs, outs, net.gates)


def _nets(chunk, r):
    kind = chunk[0]
    if kind == 'single':
        for net in M.single_gate_nets(max_nary=4):
            yield with_outputs(net, list(net.gates))          # every node (inputs too) is an output
    elif kind == 'enum':
        _, n_in, k, max_nary, stride, offset = chunk
        alphabet = list(S.CONST) if (n_in == 0 and k > 0) else G.ALL_TYPES
        it = G.enum_nets(n_in, k, alphabet, max_nary=max_nary, outputs='all')
        yield from (M.stride_sample(it, stride, offset) if stride > 1 else it)
    elif kind == 'large':
        _, idx, sizes = chunk
        for k in sizes:
            yield ('large', G.random_net(r, n_inputs=r.randint(3, 6), k_gates=k, max_nary=3, max_outputs=4))
            yield ('large', deep_net(r, r.randint(3, 6), min(k, 800)))      # recursion depth of the real code stays far below the interpreter limit
    elif kind == 'random':
        _, idx, count = chunk
        for _ in range(count):
            n_in = r.randint(0, 4)
            net = G.random_net(r, n_inputs=n_in, k_gates=r.randint(1, min(7, MAXV - n_in)), max_nary=4, max_outputs=4,
                               allow_no_outputs=True)
            yield net


def work(acc, chunk):
    quick, query_stride = chunk[-2], chunk[-1]
    chunk = chunk[:-2]
    r = M.rng('C05', *chunk)
    for i, net in enumerate(_nets(chunk, r)):
        if isinstance(net, tuple):
            if all(S.arity_ok(t, len(o)) for t, o in net[1].gates.values()):
                check_large(acc, net[1], r)
            continue
        if any(not S.arity_ok(t, len(o)) for t, o in net.gates.values()):
            continue
        check_net(acc, net, r, quick, do_query=(i % query_stride == 0))


def run_bounded(rep, quick):
    try:
        import cirbo.sat  # noqa: F401
    except Exception as e:
        rep.error(f'C05 bounded driver: cirbo.sat cannot be imported (pysat shim path missing?): {M.exc_str(e)}')
        return
    acc = M.Acc()
    acc.driver(NAME,
               'real tseytin_transformation(c, sel) for every output selection sel (None, [], singletons, pairs, all, repeated index, reversed pair) of '
               '(a) one circuit per gate type and arity 2..4 with every node (inputs too) an output, (b) all circuits with <=2 inputs and <=2 gates '
               '(quick: k=2 stride-sampled; n=3,k=1 arity<=4) over all 18 gate types, outputs = every node, (c) seeded random circuits <=4 inputs <=7 gates arity<=4, '
               'dead gates, unused inputs, repeated outputs, no outputs; all 2^nv valuations of the CNF (nv<=12) enumerated: #extensions of every input '
               'assignment is 1 iff all selected outputs are True under den() of vlib/spec else 0; gate values matched to variables; Cnf.from_circuit equivalent; '
               'non-trivial = non-empty selection on a circuit with a non-input gate',
               'K<=2 enumerated, random K<=7, <=12 CNF variables; plus large circuits (quick: 40, 150, 520, 700 gates; thorough: 64 circuits up to 1100 gates) '
               'checked on 10 sampled input assignments x 2 selections with z3 as SAT oracle (sat iff outputs true, unique extension)', exhaustive=False)
    acc.driver(NAME_Q, 'real is_circuit_satisfiable (pysat replaced by the z3-backed shim) on a subsample of the same circuits: answer iff some assignment makes every output '
                       'True; model satisfies Cnf.from_circuit and projects onto such an assignment', 'subsample of the circuits above', exhaustive=False)
    if quick:
        chunks = [('single', True, 1)]
        chunks += [('enum', n, k, 3, 1, 0, True, 4) for n in (0, 1, 2) for k in (0, 1)]
        chunks += [('enum', 3, 1, 4, 2, 1, True, 16), ('enum', 1, 2, 3, 5, 2, True, 16), ('enum', 2, 2, 3, 7, 3, True, 64)]
        chunks += [('random', i, 120, True, 3) for i in range(2)]
        chunks += [('large', 0, (40, 150, 520, 700), True, 1)]
    else:
        chunks = [('single', False, 1)]
        chunks += [('enum', n, k, 3, 1, 0, False, 2) for n in (0, 1, 2) for k in (0, 1)]
        chunks += [('enum', 3, 1, 4, 1, 0, False, 4), ('enum', 1, 2, 3, 1, 0, False, 8)]
        chunks += [('enum', 2, 2, 3, 16, off, False, 40) for off in range(16)]
        chunks += [('enum', 3, 2, 3, 32 * 6, off * 6, False, 40) for off in range(32)]
        chunks += [('random', i, 300, False, 3) for i in range(32)]
        chunks += [('large', i, (30 + 7 * i, 200 + 11 * i, 510 + 13 * i, 1100), False, 1) for i in range(16)]
    faulty_templates()           # computed once in the parent (inherited by forked workers)
    total = M.run_chunks(work, chunks, parallel=not quick)
    acc.merge(total)
    acc.note('assumption', 'pysat is replaced by the z3-backed shim (sound and complete CNF solver assumed)')
    acc.flush(rep)

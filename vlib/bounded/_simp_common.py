"""Shared machinery of the bounded drivers C03 / C18 (simplification passes and pipelines).

Everything that decides pass/fail here is independent of the repository: circuits are plain
`Net`s (vlib/spec), truth tables come from `vlib.spec.net.tt / gates_tt`, structural predicates are
written from the property statements.  The repository is only *called* (the passes themselves).

Pipelines are small JSON-able expression trees so that they can be put into replay files:
    'RRG' | 'RRG!' (allow_inputs_removal=True) | 'MUO' | 'MDG' | 'MEG'
    ['pipe', e1, e2]            e1 | e2   (Python's `|`, nesting as written)
    ['list', [e...]]            Transformer.apply_transformers(c, [ ... ])
    ['comp', [e...]]            TransformerComposition([ ... ]).transform(c)
    ['applycomp', e]            Transformer.apply_transformers(c, <composition e>)
    ['cleanup', heavy]          cleanup(c, use_heavy=heavy)
"""
import itertools
import random
from collections import Counter

from .. import env
from ..spec import net as N
from ..spec import ops as S

NEG = ('NOT', 'LNOT', 'RNOT')
BUF = ('IFF', 'LIFF', 'RIFF')
SIGNIFICANT = {'NOT': 0, 'LNOT': 0, 'RNOT': 1, 'IFF': 0, 'LIFF': 0, 'RIFF': 1}   # from OP: which operand is read
PSEUDO = ('LNOT', 'RNOT', 'LIFF', 'RIFF')
ASYM = ('GT', 'LT', 'GEQ', 'LEQ')
PARITY = ('XOR', 'NXOR')

BASE = ('RRG', 'RRG!', 'MUO', 'MDG', 'MEG')


def rng(*salt):
    """Deterministic across processes (str seeds are hashed with sha512 by `random`, not by hash())."""
    return random.Random('/'.join(str(s) for s in (env.SEED,) + salt))


# ------------------------------------------------------------------ the real passes ----------
def passes():
    from cirbo.minimization.simplification import (RemoveRedundantGates, MergeUnaryOperators, MergeDuplicateGates,
                                                   MergeEquivalentGates, cleanup)
    from cirbo.core.circuit.transformer import Transformer, TransformerComposition
    return {'RRG': lambda: RemoveRedundantGates(), 'RRG!': lambda: RemoveRedundantGates(allow_inputs_removal=True),
            'MUO': MergeUnaryOperators, 'MDG': MergeDuplicateGates, 'MEG': MergeEquivalentGates, 'cleanup': cleanup,
            'Transformer': Transformer, 'TransformerComposition': TransformerComposition}


def build_obj(expr, P):
    """Transformer object for a base pass / pipe / comp expression."""
    if isinstance(expr, str):
        return P[expr]()
    k = expr[0]
    if k == 'pipe':
        return build_obj(expr[1], P) | build_obj(expr[2], P)
    if k == 'comp':
        return P['TransformerComposition']([build_obj(e, P) for e in expr[1]])
    raise ValueError(expr)


_OBJ_CACHE = {}


def reused_obj(expr, P):
    """one transformer object per expression for the whole run: a pass must not carry state from one circuit to
    the next (the same object applied to many circuits is ordinary use), so objects are deliberately re-used"""
    key = repr(expr)
    if key not in _OBJ_CACHE:
        _OBJ_CACHE[key] = build_obj(expr, P)
    return _OBJ_CACHE[key]


def apply_expr(expr, c, P):
    if isinstance(expr, str):
        return reused_obj(expr, P).transform(c)
    k = expr[0]
    if k in ('pipe', 'comp'):
        return reused_obj(expr, P).transform(c)
    if k == 'list':
        return P['Transformer'].apply_transformers(c, [build_obj(e, P) for e in expr[1]])
    if k == 'applycomp':
        return P['Transformer'].apply_transformers(c, build_obj(expr[1], P))
    if k == 'cleanup':
        return P['cleanup'](c, use_heavy=True) if expr[1] else P['cleanup'](c)
    raise ValueError(expr)


def constituents(expr):
    """The base passes a pipeline is made of, in order (what 'one after another' means)."""
    if isinstance(expr, str):
        return [expr]
    k = expr[0]
    if k == 'pipe':
        return constituents(expr[1]) + constituents(expr[2])
    if k in ('list', 'comp'):
        return [b for e in expr[1] for b in constituents(e)]
    if k == 'applycomp':
        return constituents(expr[1])
    if k == 'cleanup':
        return ['RRG', 'MUO', 'MDG'] + (['MEG'] if expr[1] else [])
    raise ValueError(expr)


def expr_name(expr):
    if isinstance(expr, str):
        return {'RRG': 'RemoveRedundantGates', 'RRG!': 'RemoveRedundantGates(allow_inputs_removal)',
                'MUO': 'MergeUnaryOperators', 'MDG': 'MergeDuplicateGates', 'MEG': 'MergeEquivalentGates'}[expr]
    k = expr[0]
    if k == 'pipe':
        return 'pipe'
    if k == 'cleanup':
        return 'cleanup(heavy)' if expr[1] else 'cleanup(light)'
    return {'list': 'apply_transformers(list)', 'comp': 'TransformerComposition', 'applycomp': 'apply_transformers(composition)'}[k]


def expr_str(expr):
    if isinstance(expr, str):
        return expr
    k = expr[0]
    if k == 'pipe':
        return '(' + expr_str(expr[1]) + ' | ' + expr_str(expr[2]) + ')'
    if k in ('list', 'comp'):
        return k + '[' + ', '.join(expr_str(e) for e in expr[1]) + ']'
    if k == 'applycomp':
        return 'applycomp(' + expr_str(expr[1]) + ')'
    return 'cleanup(heavy)' if expr[1] else 'cleanup(light)'


PIPELINES_CORE = ['RRG', 'RRG!', 'MUO', 'MDG', 'MEG', ['cleanup', False], ['cleanup', True]]
PIPELINES_MORE = [
    ['pipe', 'MUO', 'MDG'],
    ['pipe', 'RRG', 'RRG'],
    ['pipe', ['pipe', 'MDG', 'MUO'], 'MEG'],
    ['pipe', 'MDG', ['pipe', 'MUO', 'MEG']],
    ['pipe', 'RRG!', 'MUO'],
    ['pipe', 'MEG', 'RRG!'],
    ['pipe', 'MUO', 'MUO'],
    ['list', ['MUO', 'MDG']],
    ['list', [['pipe', 'MUO', 'MDG'], 'MEG', 'RRG!']],
    ['list', ['RRG', 'RRG', 'RRG!', 'RRG!']],
    ['comp', ['MEG', 'MUO']],
    ['comp', [['comp', ['MDG']], ['pipe', 'RRG', 'MEG']]],
    ['applycomp', ['pipe', 'MDG', 'MEG']],
]
PIPELINES_THOROUGH = [
    ['pipe', ['pipe', 'RRG', 'MUO'], ['pipe', 'MDG', 'MEG']],
    ['pipe', 'MEG', 'MEG'],
    ['pipe', 'RRG!', 'RRG'],
    ['list', ['RRG!']],
    ['list', [['comp', ['MUO', 'MUO']], ['pipe', 'MDG', 'MDG']]],
    ['pipe', ['pipe', ['pipe', 'MUO', 'MEG'], 'MDG'], 'RRG!'],
]


# ------------------------------------------------------------------ circuits ----------
REDUCED = [('AND', 2), ('XOR', 3), ('NOR', 2), ('GT', 2), ('LNOT', 2), ('RIFF', 2), ('NOT', 1), ('IFF', 1), ('ALWAYS_TRUE', 0)]
FULL = ([(t, a) for t in S.NARY for a in (2, 3)] + [(t, 2) for t in S.BINARY] + [(t, 1) for t in S.UNARY] + [(t, 0) for t in S.CONST])


def output_variants(ins, gs):
    nodes = ins + gs
    if not nodes:
        return [[]]
    if not gs:
        return [[ins[-1]], [ins[0], ins[0]], []] if ins else [[]]
    v = [[gs[-1]], list(gs)]
    if len(gs) > 1:
        v.append([gs[0]])                     # last gate dead
        v.append([gs[-1], gs[0], gs[-1]])     # repeated output
    else:
        v.append([gs[0], gs[0]])
    if ins:
        v.append([ins[0], gs[-1]])            # an input as output
    return v


def enum_nets(n_inputs, k_gates, alphabet, variants=output_variants):
    """All circuits with inputs x0.. and gates g0.. in topological storage order, every (type, arity)
    of `alphabet`, every operand tuple over earlier nodes (repetition allowed), several output lists."""
    ins = [f'x{i}' for i in range(n_inputs)]

    def rec(i, gates):
        if i == k_gates:
            yield list(gates)
            return
        avail = ins + [f'g{j}' for j in range(i)]
        for t, a in alphabet:
            if a > 0 and not avail:
                continue
            for ops in itertools.product(avail, repeat=a):
                gates.append((f'g{i}', (t, ops)))
                yield from rec(i + 1, gates)
                gates.pop()

    for gl in rec(0, []):
        g = {x: ('INPUT', ()) for x in ins}
        g.update(gl)
        for outs in variants(ins, [l for l, _ in gl]):
            yield N.Net(ins, outs, g)


def random_net(r, max_inputs=4, max_gates=8, families=None):
    """Seeded random circuit: all 18 gate types, n-ary arity 2..4, repeated operands, constants (sometimes with
    operands), L*/R* chains, dead logic, unused inputs, outputs that are inputs / repeated / absent, permuted
    storage order, sometimes a block.  `families` biases the type alphabet (mixed-family chains); the family
    'parity-dup' (and, less often, every family) produces n-ary gates with partly repeated operands - T(x,x,y),
    T(x,y,x,y) - followed by a gate of the same type over the de-duplicated operand set."""
    n = r.randint(0, max_inputs)
    k = r.randint(0, max_gates)
    fam = families if families is not None else r.choice(['all', 'all', 'unary-heavy', 'neg-only', 'buf-only', 'dup-heavy', 'parity-dup'])
    if fam == 'all':
        alpha = list(S.NARY) + list(S.BINARY) + list(S.UNARY) + list(S.CONST)
    elif fam == 'unary-heavy':
        alpha = ['NOT', 'IFF', 'LNOT', 'RNOT', 'LIFF', 'RIFF'] * 2 + ['AND', 'XOR', 'NOR', 'GT', 'ALWAYS_FALSE']
    elif fam == 'neg-only':
        alpha = ['NOT', 'LNOT', 'RNOT'] * 2 + ['AND', 'OR', 'NXOR', 'LEQ', 'ALWAYS_TRUE']
    elif fam == 'buf-only':
        alpha = ['IFF', 'LIFF', 'RIFF'] * 2 + ['NAND', 'XOR', 'OR', 'LT', 'ALWAYS_FALSE']
    elif fam == 'parity-dup':
        # parity gates with repeated operands next to same-type gates over the de-duplicated operand set
        alpha = ['XOR', 'XOR', 'XOR', 'NXOR', 'NXOR', 'AND', 'AND', 'OR', 'NOR', 'NOT', 'GT']
    else:
        alpha = ['AND', 'AND', 'OR', 'XOR', 'GEQ', 'GT', 'NOT', 'ALWAYS_TRUE']
    ins = [f'x{i}' for i in range(n)]
    gates = [(x, ('INPUT', ())) for x in ins]
    nodes = list(ins)
    pending = None
    for i in range(k):
        cand = [t for t in alpha if nodes or t in S.CONST]
        if not cand:
            break
        lab = f'g{i}'
        if pending is not None:
            # companion of the previous gate: same type over the operand SET (multiplicity dropped), order varied
            t, ops = pending
            pending = None
            gates.append((lab, (t, ops)))
            nodes.append(lab)
            continue
        t = r.choice(cand)
        if t in S.NARY:
            a = r.choice((2, 3, 3, 4) if fam == 'parity-dup' else (2, 2, 3, 4))
        elif t in S.BINARY:
            a = 2
        elif t in S.UNARY:
            a = 1
        else:
            a = 2 if (nodes and r.random() < 0.15) else 0
        if fam in ('dup-heavy', 'parity-dup') and nodes:
            pool = nodes[: max(2, len(nodes) // 2)]
        else:
            pool = nodes
        if a >= 2 and r.random() < 0.2:
            ops = tuple([r.choice(pool)] * a)
        elif a >= 3 and t in S.NARY and r.random() < (0.6 if fam == 'parity-dup' else 0.25):
            # some but not all operands repeated: T(x, x, y), T(x, y, x), T(x, y, y, x) ...
            lst = [r.choice(pool) for _ in range(a - 1)]
            lst.append(r.choice(lst))
            r.shuffle(lst)
            ops = tuple(lst)
        else:
            ops = tuple(r.choice(pool) for _ in range(a))
        gates.append((lab, (t, ops)))
        nodes.append(lab)
        if t in S.NARY and len(set(ops)) < len(ops) and len(set(ops)) >= 2 and r.random() < (0.6 if fam == 'parity-dup' else 0.15):
            ded = list(dict.fromkeys(ops))
            if r.random() < 0.5:
                ded.reverse()
            pending = (t, tuple(ded))
    if not nodes:
        outs = []
    else:
        m = r.choice((0, 1, 1, 1, 2, 2, 3))
        prefer = [l for l, _ in gates[n:]] or nodes
        outs = [r.choice(prefer if r.random() < 0.8 else nodes) for _ in range(m)]
        if outs and r.random() < 0.15:
            outs.append(outs[0])
    if r.random() < 0.7:
        r.shuffle(gates)
    blocks = None
    gl = [l for l, (t, _) in gates if t != 'INPUT']
    if gl and r.random() < 0.1:
        blocks = {'blk': {'inputs': ins[:1], 'gates': gl[: 1 + len(gl) // 2], 'outputs': gl[:1]}}
    return N.Net(ins, outs, dict(gates), blocks=blocks)


def _fam_net(ins, gl, outs, reverse_storage=False):
    items = [(x, ('INPUT', ())) for x in ins] + list(gl)
    if reverse_storage:
        items.reverse()                      # users stored before their operands, inputs last
    return N.Net(ins, outs, dict(items))


def repeated_operand_family(full=False):
    """Targeted family 'n-ary gates with REPEATED operands next to same-type gates over the de-duplicated operand set'.
    Multiplicity of an operand is irrelevant for AND/OR/NAND/NOR but not for the parity types: XOR(x,x,y) = y differs
    from XOR(x,y), so a pass that identifies gates by their operand *set* is wrong exactly here.  For every n-ary type T:
      literal        T(x,x,y), T(x,y), T(x,y,y), T(y,x), T(x,y,x) side by side, over 2 and 3 inputs; output lists: all five
                     (both orders), every ternary/binary pair in both orders, a single one (the others dead: a dead gate may
                     be visited first), and consumers GT/AND of them; storage order as written and reversed;
      wide           additionally T(x,y,x,y), T(x,x,x,y), T(x,x), T(x,x,x), T(y,x,x);
      after merging  two duplicate gates G1, G2 (AND(a,b)/AND(b,a), OR(a,b) twice, NOT(a) twice, XOR(a,a,b)/XOR(b,a,a))
                     feeding T(G1,G2,c), next to T(G1,c), T(c,G2), T(G2,c,G1), T(G1,G2): the repetition only appears once
                     G2 has been renamed to G1.
    Returns [(net, primary)]: primary members get every pipeline of the tier, the others (reversed storage, further
    duplicate kinds) the core passes and cleanup only.  `full` (thorough tier): one more input placement, reversed
    storage for every member, everything primary."""
    out = []
    placements = [(2, 'x0', 'x1'), (3, 'x0', 'x2')] + ([(3, 'x2', 'x1')] if full else [])
    for T in S.NARY:
        for n, x, y in placements:
            ins = [f'x{i}' for i in range(n)]
            gl = [('g0', (T, (x, x, y))), ('g1', (T, (x, y))), ('g2', (T, (x, y, y))), ('g3', (T, (y, x))), ('g4', (T, (x, y, x)))]
            five = [g for g, _ in gl]
            outsets = [five, five[::-1], ['g0', 'g1'], ['g1', 'g0'], ['g2', 'g3'], ['g3', 'g2'], ['g1', 'g4'], ['g4', 'g1'], ['g1'], ['g0']]
            cons = gl + [('k0', ('GT', ('g0', 'g1'))), ('k1', ('AND', ('g2', 'g3', 'g4')))]
            for rev in (False, True):
                for outs in outsets:
                    out.append((_fam_net(ins, gl, outs, rev), full or not rev))
                out.append((_fam_net(ins, cons, ['k0', 'k1'], rev), full or not rev))
        # wide
        ins, x, y = ['x0', 'x1'], 'x0', 'x1'
        gl = [('g0', (T, (x, y, x, y))), ('g1', (T, (x, y))), ('g2', (T, (x, x, x, y))), ('g3', (T, (x, x))), ('g4', (T, (x, x, x))),
              ('g5', (T, (y, x, x)))]
        six = [g for g, _ in gl]
        for j, outs in enumerate((six, ['g4', 'g3'], ['g0', 'g1'], ['g1', 'g0'], six[::-1], ['g3', 'g4'], ['g2', 'g1', 'g5'])):
            for rev in ((False, True) if full else (False,)):
                out.append((_fam_net(ins, gl, outs, rev), full or j < 4))
        # after merging
        for n in (2, 3):
            ins = [f'x{i}' for i in range(n)]
            a, b, c = 'x0', 'x1', ins[-1] if n == 3 else 'x0'
            for dk, (d1, d2) in enumerate(((('AND', (a, b)), ('AND', (b, a))), (('OR', (a, b)), ('OR', (a, b))), (('NOT', (a,)), ('NOT', (a,))),
                                           (('XOR', (a, a, b)), ('XOR', (b, a, a))))):
                if dk == 3 and not (full or n == 3):
                    continue
                gl = [('G1', d1), ('G2', d2), ('k1', (T, ('G1', 'G2', c))), ('k2', (T, ('G1', c))), ('k3', (T, (c, 'G2'))),
                      ('k4', (T, ('G2', c, 'G1'))), ('k5', (T, ('G1', 'G2')))]
                ks = ['k1', 'k2', 'k3', 'k4', 'k5']
                outsets = [ks, ['k1', 'k2'], ['k2', 'k1']] + ([['k3', 'k1'], ks[::-1], ['k4', 'k3'], ['k1'], ['k2']] if (full or dk == 0) else [])
                for j, outs in enumerate(outsets):
                    for rev in ((False, True) if full else (False,)):
                        out.append((_fam_net(ins, gl, outs, rev), full or (dk == 0 and j < 4)))
                if full or dk == 0:
                    out.append((_fam_net(ins, gl + [('m0', ('LT', ('k1', 'k2'))), ('m1', ('OR', ('k3', 'k4', 'k5')))], ['m0', 'm1']), True))
    return out


def unary_chain_family(full=False):
    """Targeted family 'long chains of unary gates': c1 = U1(x0), c2 = U2(c1), ..., cL = UL(c(L-1)) for L = 2..6
    (thorough: ..8), with the type patterns all-NOT, NOT/LNOT/RNOT cycling, all-IFF, IFF/LIFF/RIFF cycling and
    NOT/IFF mixed; the chain is tapped in several ways - only the end is an output, every member is an output
    (both orders), the end plus consumers AND(c_i, c_j) / XOR(c1, cL) of inner members - and stored as written or
    reversed.  MergeUnaryOperators keeps links 'odd / even number of negations away'; a wrong link only shows
    from the fourth negation on, which random circuits of <= 8 gates rarely contain.
    Returns [(net, primary)] like repeated_operand_family."""
    out = []
    pats = {'not': ['NOT'], 'neg': ['NOT', 'LNOT', 'RNOT'], 'iff': ['IFF'], 'buf': ['IFF', 'LIFF', 'RIFF'],
            'mixed': ['NOT', 'IFF', 'LNOT', 'NOT', 'RIFF']}
    for L in range(2, 9 if full else 7):
        for pname, pat in pats.items():
            ins = ['x0', 'x1']
            gl, prev = [], 'x0'
            for i in range(L):
                t = pat[i % len(pat)]
                ops = (prev,) if t in ('NOT', 'IFF') else ((prev, 'x1') if t[0] == 'L' else ('x1', prev))
                gl.append((f'c{i + 1}', (t, ops)))
                prev = f'c{i + 1}'
            ch = [g for g, _ in gl]
            cons = gl + [('k0', ('AND', (ch[0], ch[-1]))), ('k1', ('XOR', (ch[L // 2], ch[-1]))), ('k2', ('OR', (ch[-2], 'x1')))]
            cases = [(gl, [ch[-1]]), (gl, ch), (gl, ch[::-1]), (gl, [ch[-1], ch[L // 2]]),
                     (cons, ['k0', 'k1', 'k2']), (cons, ['k1', ch[-1]])]
            for j, (g, outs) in enumerate(cases):
                for rev in (False, True):
                    out.append((_fam_net(ins, g, outs, rev), full or (not rev and j in (0, 1, 4))))
    return out


# ------------------------------------------------------------------ snapshots / predicates ----------
def full_state(net):
    """Everything that 'argument unmodified' compares: inputs, outputs, gates incl. storage order, users index, blocks."""
    return (list(net.inputs), list(net.outputs), [(k,) + v for k, v in net.gates.items()],
            sorted((k, list(v)) for k, v in (net.users or {}).items() if v),
            sorted((n, sorted((f, list(l)) for f, l in b.items())) for n, b in (net.blocks or {}).items()))


def same_circuit(a, b):
    """'the same circuit' on snapshots: same inputs (order), outputs (order), same gate map label -> (type, operands)."""
    return a.inputs == b.inputs and a.outputs == b.outputs and a.gates == b.gates


def reachable(net):
    seen, stack = set(), list(net.outputs)
    while stack:
        g = stack.pop()
        if g in seen or g not in net.gates:
            continue
        seen.add(g)
        stack.extend(net.gates[g][1])
    return seen


def tt_modulo_inputs(arg, res, ta=None):
    """None if tt(res), read over the inputs res kept, equals tt(arg) on every assignment of arg's inputs
    (so dropped inputs are irrelevant); otherwise a description of the first difference.
    Precondition: res.inputs is a sub-sequence of arg.inputs."""
    ta = N.tt(arg) if ta is None else ta
    tr = N.tt(res)
    if len(ta) != len(tr):
        return f'{len(ta)} outputs vs {len(tr)}'
    if arg.inputs == res.inputs and ta == tr:
        return None
    na, pos = len(arg.inputs), [arg.inputs.index(x) for x in res.inputs]
    for j in range(1 << na):
        bits = [(j >> (na - 1 - k)) & 1 for k in range(na)]
        jr = 0
        for p in pos:
            jr = (jr << 1) | bits[p]
        for o in range(len(ta)):
            if ta[o][j] != tr[o][jr]:
                return (f'output #{o} on assignment {dict(zip(arg.inputs, bits))}: argument gives {int(ta[o][j])}, '
                        f'result gives {int(tr[o][jr])}')
    return None


def _has_equal_operands(net, ops):
    """Two operands are the same node, or are (non-input) gates of equal type over the same operand multiset
    (operand order respected for the asymmetric types): a repetition that exists literally or arises after merging."""
    if len(set(ops)) < len(ops):
        return True
    sigs = []
    for o in dict.fromkeys(ops):
        t, oo = net.gates.get(o, ('INPUT', ()))
        if t != 'INPUT':
            sigs.append((t, tuple(sorted(oo)) if S.SYMMETRIC[t] else tuple(oo)))
    return len(set(sigs)) < len(sigs)


def features(net):
    """Stable tokens describing which syntactic classes a netlist contains (used for witness classes)."""
    f = set()
    types = [t for t, _ in net.gates.values()]
    if not net.outputs:
        f.add('no-outputs')
    if not net.inputs:
        f.add('no-inputs')
    if any(net.gates.get(o, ('?',))[0] == 'INPUT' for o in net.outputs):
        f.add('output-is-input')
    if len(set(net.outputs)) < len(net.outputs):
        f.add('repeated-output')
    reach = reachable(net)
    if any(t != 'INPUT' and g not in reach for g, (t, _) in net.gates.items()):
        f.add('dead-gate')
    if any(x not in reach for x in net.inputs):
        f.add('unused-input')
    if any(len(o) > 2 for _, o in net.gates.values()):
        f.add('nary>2')
    if any(len(set(o)) < len(o) for _, o in net.gates.values()):
        f.add('repeated-operand')
    if any(t in PARITY and len(o) >= 3 and _has_equal_operands(net, o) for t, o in net.gates.values()):
        f.add('repeated-operands-parity')
    if any(t in S.CONST and o for t, o in net.gates.values()):
        f.add('const-with-operands')
    elif any(t in S.CONST for t in types):
        f.add('const')
    if any(t in PSEUDO for t in types):
        f.add('pseudo-unary')
    if any(t in NEG for t in types):
        f.add('neg')
    if any(t in BUF for t in types):
        f.add('buf')
    if any(t in ASYM for t in types):
        f.add('asym')
    if net.blocks:
        f.add('blocks')
    return f


def wclass(net):
    return '+'.join(sorted(features(net))) or 'plain'


# ------------------------------------------------------------------ shrinking ----------
def _variants(net):
    """Smaller neighbours of a netlist (each still closed: operands/outputs exist)."""
    G = net.gates
    # drop the block
    if net.blocks:
        yield N.Net(net.inputs, net.outputs, G)
    # drop an output
    for i in range(len(net.outputs)):
        yield N.Net(net.inputs, net.outputs[:i] + net.outputs[i + 1:], G, blocks=net.blocks)
    used = {o for _, ops in G.values() for o in ops}
    for g, (t, ops) in list(G.items()):
        # remove an unused node (gate or input)
        if g not in used and g not in net.outputs and not any(g in l for b in (net.blocks or {}).values() for l in b.values()):
            g2 = {k: v for k, v in G.items() if k != g}
            yield N.Net([x for x in net.inputs if x != g], net.outputs, g2, blocks=net.blocks)
        if t == 'INPUT':
            continue
        # bypass: replace every reference to g by one of its operands, then drop g
        for o in dict.fromkeys(ops):
            if any(g in l for b in (net.blocks or {}).values() for l in b.values()):
                break
            g2 = {k: (tt_, tuple(o if x == g else x for x in oo)) for k, (tt_, oo) in G.items() if k != g}
            yield N.Net(net.inputs, [o if x == g else x for x in net.outputs], g2, blocks=net.blocks)
        # reduce arity of an n-ary gate / strip operands of a constant
        if (t in S.NARY and len(ops) > 2) or (t in S.CONST and ops):
            g2 = dict(G)
            g2[g] = (t, ops[:-1])
            yield N.Net(net.inputs, net.outputs, g2, blocks=net.blocks)
        # turn a gate into an input-like simpler thing: replace by a 0-ary constant
        if t not in S.CONST:
            g2 = dict(G)
            g2[g] = ('ALWAYS_FALSE', ())
            yield N.Net(net.inputs, net.outputs, g2, blocks=net.blocks)
    # canonical storage order (inputs first, then topological)
    if N.rank(net) is not None:
        order = _canonical_order(net)
        if order != list(G) and set(order) == set(G):
            yield N.Net(net.inputs, net.outputs, {k: G[k] for k in order}, blocks=net.blocks)


def _canonical_order(net):
    r = N.rank(net)
    return list(net.inputs) + sorted((g for g, (t, _) in net.gates.items() if t != 'INPUT'), key=lambda x: (r[x], x))


def _size(net):
    canon = 0
    if N.rank(net) is not None and Counter(net.inputs) == Counter(g for g, (t, _) in net.gates.items() if t == 'INPUT'):
        canon = 0 if list(net.gates) == _canonical_order(net) else 1
    return (len(net.gates), sum(len(o) for _, o in net.gates.values()), len(net.outputs), 1 if net.blocks else 0,
            sum(1 for t, _ in net.gates.values() if t not in ('INPUT', 'ALWAYS_FALSE')), canon)


def shrink(net, fails, budget=600):
    """Greedy delta-minimisation: `fails(net) -> bool` holds for the returned netlist (if it held for `net`)."""
    cur = net
    steps = 0
    improved = True
    while improved and steps < budget:
        improved = False
        for cand in _variants(cur):
            steps += 1
            if steps > budget:
                break
            try:
                if N.rank(cand) is None or N.arity(cand) or _size(cand) >= _size(cur):
                    continue
                if fails(cand):
                    cur = cand
                    improved = True
                    break
            except Exception:
                continue
    return cur


# ------------------------------------------------------------------ running one case ----------
class Ctx:
    """Per-netlist cache: the built argument circuit is reused for the next pipeline as long as it is unmodified."""
    __slots__ = ('net', 'c', 'before', 'state', 'tt')

    def __init__(self, net):
        self.net = net
        self.c = None
        self.tt = None

    def circuit(self):
        if self.c is None:
            self.c = N.build(self.net)
            self.before = N.snapshot(self.c)
            self.state = full_state(self.before)
        return self.c

    def arg_tt(self):
        if self.tt is None:
            self.tt = N.tt(self.before)
        return self.tt


class Case:
    """One (netlist, pipeline) execution on the real code."""
    __slots__ = ('net', 'expr', 'c', 'before', 'after', 'res', 'rsnap', 'exc', 'modified', 'ctx')

    def __init__(self, net, expr, P, ctx=None):
        self.net, self.expr = net, expr
        self.ctx = ctx = ctx or Ctx(net)
        self.c = ctx.circuit()
        self.before = ctx.before
        self.res = self.rsnap = self.exc = None
        try:
            self.res = apply_expr(expr, self.c, P)
            self.rsnap = N.snapshot(self.res)
        except Exception as e:            # noqa: the property says the call must work
            self.exc = f'{type(e).__name__}: {str(e)[:160]}'
        self.after = N.snapshot(self.c)
        self.modified = full_state(self.after) != ctx.state
        if self.modified or self.res is self.c:
            ctx.c = None                  # never reuse a touched / aliased argument


def replay(net, expr, observed, expected, extra=None):
    d = {'kind': 'bounded', 'netlist': net.to_json(), 'pipeline': expr, 'pipeline_str': expr_str(expr),
         'how': 'c = vlib.spec.net.build(Net.from_json(netlist)); apply pipeline (see vlib/bounded/_simp_common.apply_expr)',
         'observed': observed, 'expected': expected}
    if extra:
        d.update(extra)
    return d


def work_list(quick, prop):
    """Deterministic list of chunks; each chunk is executed by `chunk_nets`."""
    chunks = []
    if quick:
        for n_in, k in ((0, 1), (0, 2), (1, 0), (1, 1), (2, 0), (2, 1)):
            chunks.append(('enum', n_in, k, 'FULL', 'core+more', 0, 1))
        chunks.append(('enum', 1, 2, 'REDUCED', 'core', 0, 1))
        chunks.append(('enum', 2, 2, 'REDUCED-2v', 'core', 0, 1))
        chunks.append(('family', 'repeated-operands', 'core+more', False))
        chunks.append(('family', 'unary-chains', 'core+more', False))
        chunks.append(('rand', 0, 1200, 4, 8, 'all'))
    else:
        chunks.append(('family', 'repeated-operands', 'all', True))
        chunks.append(('family', 'unary-chains', 'all', True))
        for n_in, k in ((0, 1), (0, 2), (1, 0), (1, 1), (2, 0), (2, 1)):
            chunks.append(('enum', n_in, k, 'FULL', 'all', 0, 1))
        parts = 32
        for n_in, k in ((1, 2), (2, 2)):
            for i in range(parts):
                chunks.append(('enum', n_in, k, 'FULL', 'core', i, parts))
        for i in range(parts):
            chunks.append(('enum', 2, 3, 'REDUCED3', 'core', i, parts))
        for i in range(64):
            chunks.append(('rand', i * 400, 400, 4, 10, 'all'))
    return chunks


REDUCED3 = [('AND', 2), ('XOR', 2), ('GT', 2), ('LNOT', 2), ('RIFF', 2), ('NOT', 1), ('IFF', 1), ('ALWAYS_TRUE', 0)]


def chunk_items(chunk, prop):
    """Yield (net, [pipelines]) of a chunk."""
    core, more, tho = PIPELINES_CORE, PIPELINES_MORE, PIPELINES_THOROUGH
    if chunk[0] == 'enum':
        _, n_in, k, alpha, pset, part, parts = chunk
        alphabet = {'FULL': FULL, 'REDUCED': REDUCED, 'REDUCED-2v': [(t, min(a, 2)) for t, a in REDUCED], 'REDUCED3': REDUCED3}[alpha]
        pipes = {'core': core, 'core+more': core + more, 'all': core + more + tho}[pset]
        if alpha == 'REDUCED3':
            variants = lambda ins, gs: [[gs[-1]], [gs[-1], gs[0]]]   # noqa: E731
        elif alpha == 'REDUCED-2v':
            variants = lambda ins, gs: [[gs[-1]], [ins[0], gs[-1], gs[0], gs[0]]]   # noqa: E731
        else:
            variants = output_variants
        for i, net in enumerate(enum_nets(n_in, k, alphabet, variants)):
            if i % parts != part:
                continue
            yield net, pipes
    elif chunk[0] == 'family':
        _, _fam, pset, full = chunk
        pipes = {'core': core, 'core+more': core + more, 'all': core + more + tho}[pset]
        for net, primary in (unary_chain_family(full) if _fam == 'unary-chains' else repeated_operand_family(full)):
            yield net, (pipes if primary else core)
    else:
        _, start, count, max_in, max_g, pset = chunk
        for i in range(start, start + count):
            r = rng('SIMP', 'rand', i)
            net = random_net(r, max_in, max_g)
            if N.arity(net) or N.rank(net) is None:
                continue
            extra = r.sample(more + tho, 4)
            yield net, core + extra


def run_chunks(rep, name, quick, prop, check_case, nproc=None):
    """Drive `check_case(net, pipes) -> (n_cases, violations)` over the work list; in the thorough tier the
    chunks are spread over a process pool.  Violations: list of (obligation, wclass, detail, replay)."""
    chunks = work_list(quick, prop)
    if quick:
        results = (_run_chunk((prop, ch)) for ch in chunks)
        _collect(rep, name, results)
    else:
        import multiprocessing as mp
        ctx = mp.get_context('fork')
        with ctx.Pool(min(env.NPROC, 16)) as pool:
            _collect(rep, name, pool.imap(_run_chunk, [(prop, ch) for ch in chunks]))


_CHECKERS = {}


def register(prop, fn):
    _CHECKERS[prop] = fn


def _run_chunk(arg):
    prop, chunk = arg
    fn = _CHECKERS[prop]
    out_cases, out_viol, samples = [], [], []
    for net, pipes in chunk_items(chunk, prop):
        try:
            viol = fn(net, pipes)
        except Exception as e:           # the driver must never crash
            viol = [(f'{prop}/driver/internal-error', type(e).__name__, f'driver error {type(e).__name__}: {e}',
                     {'netlist': net.to_json()})]
        nontriv = any(t != 'INPUT' for t, _ in net.gates.values())
        out_cases.append((hash(net.key()), nontriv, len(pipes)))
        if nontriv and len(samples) < 2:
            samples.append({'netlist': net.to_json(), 'pipelines': [expr_str(p) for p in pipes[:3]]})
        out_viol.extend(viol)
    # keep one representative per class inside a chunk
    seen, keep = set(), []
    for v in out_viol:
        if (v[0], v[1]) not in seen:
            seen.add((v[0], v[1]))
            keep.append(v)
    return out_cases, keep, samples


def _collect(rep, name, results):
    for cases, viol, samples in results:
        for h, nontriv, npipes in cases:
            for j in range(npipes):
                rep.bounded_case(name, key=(h, j), nontrivial=nontriv, sample=samples.pop(0) if (samples and nontriv and j == 0) else None)
        for obligation, wc, detail, rp in viol:
            rep.violation(obligation, wc, detail, rp)

"""C20 bounded stand-in: traversals (top_sort, dfs, bfs, hooks, cycle check) of the real Circuit vs. an
independent reachability / order oracle on the snapshot netlist."""
import itertools
from collections import Counter

from .. import env
from ..spec import net as N
from . import _circ_common as K

NAME = 'traversals-vs-closure-oracle'
CYC = 'cycle-check-vs-closure-oracle'


# ---- graph enumeration -------------------------------------------------------------------------

def _type_for(k, const):
    if k == 0:
        return 'ALWAYS_TRUE' if const else 'INPUT'
    return {1: 'NOT', 2: 'AND'}.get(k, 'OR')


def enum_dags(n_nodes, max_ar):
    """all multigraph DAGs on nodes v0..v{n-1} in topological numbering: node i has an operand tuple
    (length 0..max_ar, repetition allowed) over earlier nodes; sources are INPUT or a constant."""
    def rec(i, gates):
        if i == n_nodes:
            yield list(gates)
            return
        avail = [f'v{j}' for j in range(i)]
        for const in (False, True):
            gates.append((f'v{i}', _type_for(0, const), ()))
            yield from rec(i + 1, gates)
            gates.pop()
        for a in range(1, max_ar + 1):
            for ops in itertools.product(avail, repeat=a):
                gates.append((f'v{i}', _type_for(a, False), ops))
                yield from rec(i + 1, gates)
                gates.pop()
    yield from rec(0, [])


def _net(gl, perm, outs):
    order = [gl[i] for i in perm]
    ins = [k for k, t, _ in gl if t == 'INPUT']          # input list order = numbering, storage permuted
    g = {k: (t, tuple(o)) for k, t, o in order}
    return N.Net(ins, outs, g)


def _features(net, starts):
    f = set()
    if any(len(set(o)) < len(o) for _, o in net.gates.values()):
        f.add('repeated-operand')
    if starts is not None and len(set(starts)) < len(starts):
        f.add('repeated-start')
    if starts is not None and not starts:
        f.add('empty-start')
    if starts is None:
        f.add('default-start')
    return f


# ---- checks ------------------------------------------------------------------------------------

def _check_topsort(c, net, col):
    """returns True iff top_sort(inverse=True) behaved (the topsort_unvisited hook order depends on it)"""
    labels = list(net.gates)
    good = True
    for inverse in (False, True):
        base = ''
        feats = _features(net, ())
        feats.discard('empty-start')
        if inverse:
            feats.add('inverse')
        rp = {'kind': 'bounded', 'netlist': net.to_json(), 'call': f'top_sort(inverse={inverse})'}
        try:
            seq = [g.label for g in c.top_sort(inverse=inverse)]
        except Exception as e:
            col.add('C20/top_sort/returns-normally', base, feats, len(labels), K.exc_str(e), rp)
            good = False
            continue
        rp['observed'] = seq
        if Counter(seq) != Counter(labels):
            col.add('C20/top_sort/every-gate-once', base, feats, len(labels), f'yields {seq}, gates {labels}', rp)
            good = False
            continue
        pos = {l: i for i, l in enumerate(seq)}
        for g, (_, ops) in net.gates.items():
            for o in ops:
                if (pos[o] > pos[g]) if inverse else (pos[o] < pos[g]):
                    col.add('C20/top_sort/dependency-order', base, feats, len(labels),
                            f'{g} and its operand {o} in wrong order in {seq}', rp)
                    good = False
    return good


def _check_traverse(c, net, mode, inverse, starts, topsort_unvisited, col):
    # hooks receive the state mapping: reading the state of ANY gate from it (also of gates not reached yet) must
    # not influence the traversal — run once with plain recording hooks and once with hooks that read every state
    _check_traverse1(c, net, mode, inverse, starts, topsort_unvisited, col, False)
    _check_traverse1(c, net, mode, inverse, starts, topsort_unvisited, col, True)


def _check_traverse1(c, net, mode, inverse, starts, topsort_unvisited, col, reading):
    base = ''
    feats = _features(net, starts)
    if reading:
        feats.add('hooks-read-states')
    labels = list(net.gates)

    def peek(st):
        if reading:
            for l in labels:
                st[l]
    if inverse:
        feats.add('inverse')
    size = len(net.gates) * 10 + (len(starts) if starts is not None else 0)
    events = []
    unv = []
    kw = dict(inverse=inverse,
              on_enter_hook=lambda g, st: (peek(st), events.append(('enter', g.label))),
              on_discover_hook=lambda g, st: peek(st),
              unvisited_hook=lambda g, st: (peek(st), unv.append(g.label)),
              topsort_unvisited=topsort_unvisited)
    if mode == 'dfs':
        kw['on_exit_hook'] = lambda g, st: (peek(st), events.append(('exit', g.label)))
    rp = {'kind': 'bounded', 'netlist': net.to_json(),
          'call': f'{mode}({starts!r}, inverse={inverse}, topsort_unvisited={topsort_unvisited}, recording hooks)'}
    try:
        seq = [g.label for g in getattr(c, mode)(starts, **kw)]
    except Exception as e:
        col.add(f'C20/{mode}/returns-normally', base, feats, size, K.exc_str(e), rp)
        return
    eff = starts if starts is not None else (net.inputs if inverse else net.outputs)
    want = K.reach(net, eff, inverse)
    rp.update(observed=seq, expected_set=sorted(want), events=events, unvisited=unv)
    if set(seq) != want or len(seq) != len(set(seq)):
        col.add(f'C20/{mode}/yields-reachable-each-once', base, feats, size, f'yielded {seq}, reachable {sorted(want)}', rp)
        return
    enters = [l for e, l in events if e == 'enter']
    if Counter(enters) != Counter(want):
        col.add(f'C20/{mode}/enter-hook-once-per-reached-gate', base, feats, size, f'enter hooks {enters}, reachable {sorted(want)}', rp)
    if mode == 'dfs':
        exits = [l for e, l in events if e == 'exit']
        if Counter(exits) != Counter(want):
            col.add('C20/dfs/exit-hook-once-per-reached-gate', base, feats, size, f'exit hooks {exits}, reachable {sorted(want)}', rp)
        else:
            first = {}
            for i, (e, l) in enumerate(events):
                first.setdefault((e, l), i)
            for l in want:
                if first[('enter', l)] > first[('exit', l)]:
                    col.add('C20/dfs/enter-before-exit', base, feats, size, f'exit of {l} before its enter: {events}', rp)
            us = K.operand_users(net)
            for g in want:
                children = list(us[g]) if inverse else list(net.gates[g][1])
                for ch in children:
                    if ch != g and first[('exit', ch)] > first[('exit', g)]:
                        col.add('C20/dfs/exit-post-order', base, feats, size, f'exit of {g} before exit of its successor {ch}: {events}', rp)
    rest = [g for g in net.gates if g not in want]
    if Counter(unv) != Counter(rest):
        col.add(f'C20/{mode}/unvisited-hook-exactly-unreached', base, feats | ({'topsort_unvisited'} if topsort_unvisited else set()),
                size, f'unvisited hook got {unv}, unreached {rest}', rp)
    elif topsort_unvisited:
        pos = {l: i for i, l in enumerate(unv)}
        for g in rest:
            for o in net.gates[g][1]:
                if o in pos and pos[o] > pos[g]:
                    col.add(f'C20/{mode}/unvisited-hook-topological', base, feats, size,
                            f'unvisited order {unv}: {g} before its operand {o}', rp)


def _start_sets(labels, rng, exhaustive):
    out = [None]
    if exhaustive:
        for r in range(0, len(labels) + 1):
            for s in itertools.combinations(labels, r):
                out.append(list(s))
        if labels:
            out.append([labels[-1], labels[0], labels[-1]])
    else:
        out.append([])
        for _ in range(4):
            k = rng.randint(1, min(3, len(labels)))
            out.append([rng.choice(labels) for _ in range(k)])
        out.append(list(labels))
    return out


def _check_net(net, rng, exhaustive_starts, col):
    c = N.build(net)
    ts_good = _check_topsort(c, net, col)
    n = 0
    labels = list(net.gates)
    for starts in _start_sets(labels, rng, exhaustive_starts):
        for mode in ('dfs', 'bfs'):
            for inverse in (False, True):
                for tu in ((False, True) if ts_good else (False,)):     # a top_sort defect is reported once, under top_sort
                    _check_traverse(c, net, mode, inverse, starts, tu, col)
                    n += 1
    return n + 2


# ---- cyclic netlists ---------------------------------------------------------------------------

def _has_reachable_cycle(net):
    seen = K.reach(net, net.outputs, False)
    # a cycle through a reachable gate lies entirely in the reachable part: peel sinks of the sub-graph
    sub = {g: [o for o in net.gates[g][1] if o in seen] for g in seen}
    changed = True
    while changed:
        changed = False
        for g in list(sub):
            if not sub[g]:
                del sub[g]
                for h in sub:
                    sub[h] = [o for o in sub[h] if o != g]
                changed = True
    return bool(sub)


def enum_digraphs(n_nodes, max_ar):
    labels = [f'v{j}' for j in range(n_nodes)]
    opts = [()]
    for a in range(1, max_ar + 1):
        opts += list(itertools.product(labels, repeat=a))
    for combo in itertools.product(opts, repeat=n_nodes):
        yield [(labels[i], _type_for(len(combo[i]), False), combo[i]) for i in range(n_nodes)]


def _check_cycle_case(gl, outs, col):
    from cirbo.core.circuit.validation import check_circuit_has_no_cycles
    from cirbo.core.circuit.exceptions import CircuitValidationError
    net = N.Net([k for k, t, _ in gl if t == 'INPUT'], outs, {k: (t, tuple(o)) for k, t, o in gl})
    c = N.build(net)
    want = _has_reachable_cycle(net)
    feats = set()
    if any(g in ops for g, (_, ops) in net.gates.items()):
        feats.add('self-loop')
    if any(len(set(o)) < len(o) for _, o in net.gates.values()):
        feats.add('repeated-operand')
    if len(set(outs)) < len(outs):
        feats.add('repeated-output')
    rp = {'kind': 'bounded', 'netlist': net.to_json(), 'call': 'check_circuit_has_no_cycles(build(netlist))',
          'expected_cycle_reachable_from_outputs': want}
    try:
        check_circuit_has_no_cycles(c)
        got = False
    except CircuitValidationError:
        got = True
    except Exception as e:
        col.add('C20/check_circuit_has_no_cycles/raises-validation-error-only', 'cyclic' if want else 'acyclic-from-outputs',
                feats, len(gl), K.exc_str(e), rp)
        return
    if got != want:
        col.add('C20/check_circuit_has_no_cycles/raises-iff-cycle-reachable', 'missed-cycle' if want else 'false-alarm',
                feats, len(gl), f'raised={got}, cycle reachable from outputs={want}', rp)


# ---- chunks ------------------------------------------------------------------------------------

def _worker(task):
    env.setup_import_paths()
    kind = task[0]
    col = K.Collector()
    cases, keys, samples = 0, set(), []

    def done(net, n, nontrivial=True):
        nonlocal cases
        cases += n
        if nontrivial:
            keys.add(hash(net.key()))
        if len(samples) < 2 and len(net.gates) >= 2:
            samples.append({'netlist': net.to_json()})

    if kind == 'dags':
        _, n_nodes, max_ar, all_perms, part, parts = task
        rng = K.rng_for('C20', 'dags', n_nodes, max_ar, part)
        for idx, gl in enumerate(enum_dags(n_nodes, max_ar)):
            if idx % parts != part:
                continue
            perms = list(itertools.permutations(range(n_nodes))) if all_perms else \
                [tuple(range(n_nodes)), tuple(reversed(range(n_nodes)))]
            labels = [k for k, _, _ in gl]
            for perm in perms:
                for outs in ([labels[-1]] if labels else []), list(labels[:2]):
                    net = _net(gl, perm, outs)
                    done(net, _check_net(net, rng, n_nodes <= 4, col), nontrivial=n_nodes > 0)
    elif kind in ('random', 'random-large'):
        _, count, max_nodes, part = task
        rng = K.rng_for('C20', kind, part)
        for _i in range(count):
            # 'random-large': 12..max_nodes nodes - behaviour that only changes beyond some size (a counter, a threshold)
            n_nodes = rng.randint(12, max_nodes) if kind == 'random-large' else rng.randint(3, max_nodes)
            gl = []
            for i in range(n_nodes):
                a = 0 if i == 0 else rng.choice([0, 1, 2, 2, 3, 4])
                avail = [f'v{j}' for j in range(i)]
                if a and rng.random() < 0.2:
                    ops = tuple([rng.choice(avail)] * a)
                else:
                    ops = tuple(rng.choice(avail) for _ in range(a))
                gl.append((f'v{i}', _type_for(a, rng.random() < 0.3), ops))
            perm = list(range(n_nodes))
            rng.shuffle(perm)
            labels = [k for k, _, _ in gl]
            outs = [rng.choice(labels) for _ in range(rng.randint(0, 3))]
            net = _net(gl, perm, outs)
            done(net, _check_net(net, rng, False, col))
    elif kind == 'cyclic':
        _, n_nodes, max_ar, part, parts = task
        for idx, gl in enumerate(enum_digraphs(n_nodes, max_ar)):
            if idx % parts != part:
                continue
            labels = [k for k, _, _ in gl]
            outsets = [list(s) for r in range(0, n_nodes + 1) for s in itertools.combinations(labels, r)]
            outsets.append([labels[0], labels[0]])
            for outs in outsets:
                _check_cycle_case(gl, outs, col)
                cases += 1
            keys.add(hash(tuple(gl)))
            if len(samples) < 1 and n_nodes >= 2:
                samples.append({'gates': [list(map(str, g)) for g in gl]})
    elif kind == 'cyclic-random':
        _, count, part = task
        rng = K.rng_for('C20', 'cyclic-random', part)
        for _i in range(count):
            n_nodes = rng.randint(3, 6)
            labels = [f'v{j}' for j in range(n_nodes)]
            gl = []
            for i in range(n_nodes):
                a = rng.choice([0, 1, 1, 2, 2, 3])
                gl.append((labels[i], _type_for(a, False), tuple(rng.choice(labels) for _ in range(a))))
            outs = [rng.choice(labels) for _ in range(rng.randint(0, 2))]
            _check_cycle_case(gl, outs, col)
            cases += 1
            keys.add(hash(tuple(gl)))
    return kind, cases, keys, samples, col.items


def run_bounded(rep, quick):
    rep.bounded_driver(
        NAME, 'real top_sort / dfs / bfs (both directions, recording enter/exit/unvisited hooks, topsort_unvisited on and off) on '
        'every multigraph DAG (operand tuples with repetition, INPUT and constant sources, all storage orders, all start lists '
        'incl. None/empty/repeated) vs. an independent closure computation; non-trivial = distinct netlist',
        'quick: all DAGs <=3 nodes, arity<=3, all storage orders, all start subsets + 150 seeded random DAGs <=6 nodes + 12 of 12..40 nodes; '
        'thorough: all DAGs <=4 nodes arity<=3 and 5 nodes arity<=2 (2 storage orders) + 6000 random <=8 nodes + 20 per worker of 12..60 nodes', exhaustive=False)
    rep.bounded_driver(
        CYC, 'check_circuit_has_no_cycles on every digraph (self loops, multi-edges, unreachable cycles) built through the unchecked '
        '_emplace_gate x every output subset vs. "a cycle is reachable from the outputs" computed by sink peeling',
        'quick: all digraphs <=3 nodes with <=2 operands per node; thorough: + 4 nodes (<=2 operands), + random <=6 nodes', exhaustive=False)
    tasks = []
    if quick:
        for n in (0, 1, 2, 3):
            tasks.append(('dags', n, 3, True, 0, 1))
        tasks.append(('random', 150, 6, 0))
        tasks.append(('random-large', 12, 40, 0))
        for n in (1, 2, 3):
            tasks.append(('cyclic', n, 2, 0, 1))
        tasks.append(('cyclic-random', 300, 0))
    else:
        for n in (0, 1, 2, 3):
            tasks.append(('dags', n, 3, True, 0, 1))
        for p in range(16):
            tasks.append(('dags', 4, 3, False, p, 16))
        for p in range(32):
            tasks.append(('dags', 5, 2, False, p, 32))
        for p in range(16):
            tasks.append(('random', 400, 8, p))
            tasks.append(('random-large', 20, 60, p))
        for n in (1, 2, 3):
            tasks.append(('cyclic', n, 2, 0, 1))
        for p in range(16):
            tasks.append(('cyclic', 4, 2, p, 16))
        for p in range(8):
            tasks.append(('cyclic-random', 2000, p))
    col = K.Collector()
    for kind, cases, keys, samples, items in K.run_chunks(_worker, tasks, quick):
        K.account(rep, CYC if kind.startswith('cyclic') else NAME, cases, keys, samples)
        col.merge(items)
    col.flush(rep)

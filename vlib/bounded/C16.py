"""C16 bounded stand-in: the database codec never silently changes a circuit.

(a) bit level: every bit string of length <= 12 written with BitWriter.write and read back with BitReader.read is unchanged
    (padding bits of the last byte read as 0, reading past the last byte raises BitIOError); write_number(v, w) /
    read_number(w) are inverse for every width w <= 10 and every v in [0, 2^w), also inside mixed sequences;
    write_number raises BitIOError for every v outside [0, 2^w) (incl. negative v); write_byte / read_byte likewise.
(b) dictionary level: write_binary_dict -> read_binary_dict is the identity for dictionaries with empty, long (up to the
    65535 byte limit), non-ASCII keys and arbitrary byte values (lengths 0 .. 65535); every proper prefix of a written
    stream and every stream with trailing bytes is rejected with BinaryDictIOError.
(c) circuits: encode_circuit(c) raises a CircuitsDatabaseError subclass, or returns bytes b and decode_circuit(b) returns a
    circuit with the same numbers of inputs, outputs, gates, the same multiset of gate types and the same truth table
    (den() of vlib/spec) - any other exception, or a different circuit, is a violation;   for circuits whose gates all have a
    type of the format's table and the arity of that type (NOT/IFF 1, constants 0, the others 2) both calls must succeed,
    for every storage order and every input count.  CircuitsDatabase add_circuit/save/open/get_by_label through BytesIO.
"""
import io
import itertools

from .. import env
from ..spec import net as N
from ..spec import gen as G
from ..spec import ops as S
from . import _misc_common as M

NAME_A = 'bit-io-inverse'
NAME_B = 'binary-dict-io-inverse'
NAME_C = 'circuit-codec-roundtrip'
NAME_DB = 'circuits-database-roundtrip'

FORMAT_TYPES = ('NOT', 'AND', 'OR', 'NOR', 'NAND', 'XOR', 'NXOR', 'IFF', 'GEQ', 'GT', 'LEQ', 'LT', 'ALWAYS_TRUE', 'ALWAYS_FALSE')


def format_arity(t):
    # the format (decoder _get_arity and the repository's own DB tests) stores constants as two-operand gates
    if t in ('NOT', 'IFF'):
        return 1
    return 2


# ----------------------------------------------------------------------------------- (a) bits ----
def check_bits(acc, quick):
    from cirbo.circuits_db.bit_io import BitWriter, BitReader
    from cirbo.circuits_db.exceptions import BitIOError
    maxlen = 12
    for ln in range(maxlen + 1):
        for bits in itertools.product((False, True), repeat=ln):
            try:
                w = BitWriter()
                for b in bits:
                    w.write(b)
                data = bytes(w)
                ok = len(data) == (ln + 7) // 8
                rd = BitReader(data)
                back = [rd.read() for _ in range(ln)]
                pad = [rd.read() for _ in range(len(data) * 8 - ln)]
                past = None
                try:
                    rd.read()
                    past = 'no exception'
                except BitIOError:
                    pass
                except Exception as e:
                    past = M.exc_str(e)
                acc.case(NAME_A, key=('bits', bits), nontrivial=ln > 0)
                if not ok or list(back) != list(bits) or any(not isinstance(x, bool) for x in back):
                    acc.violation('C16/BitWriter.write+BitReader.read/inverse', 'bit-string', f'{bits} -> {data!r} -> {back}', {'bits': list(bits), 'bytes': list(data), 'read_back': back})
                if any(pad):
                    acc.violation('C16/BitWriter.write/padding-zero', 'bit-string', f'{bits} -> {data!r} padding {pad}', {'bits': list(bits), 'bytes': list(data)})
                if past:
                    acc.violation('C16/BitReader.read/raises-past-end', 'bit-string', f'reading past the end of {data!r}: {past}', {'bytes': list(data)})
            except Exception as e:
                acc.violation('C16/BitWriter.write+BitReader.read/no-exception', 'bit-string', M.exc_str(e), {'bits': list(bits)})
    # numbers
    for width in range(0, 11 if quick else 13):
        for v in range(1 << width):
            for prefix in ((), (True,), (False, True, True)):
                try:
                    w = BitWriter()
                    for b in prefix:
                        w.write(b)
                    w.write_number(v, width)
                    w.write(True)
                    rd = BitReader(bytes(w))
                    pre = [rd.read() for _ in prefix]
                    got = rd.read_number(width)
                    tail = rd.read()
                    acc.case(NAME_A, key=('num', width, v, prefix), nontrivial=width > 0)
                    if got != v or pre != list(prefix) or tail is not True:
                        acc.violation('C16/write_number+read_number/inverse', 'in-range-number', f'width {width} value {v} prefix {prefix}: read {got}',
                                      {'width': width, 'value': v, 'prefix_bits': list(prefix), 'read': got})
                except Exception as e:
                    acc.violation('C16/write_number+read_number/no-exception', 'in-range-number', f'width {width} value {v}: {M.exc_str(e)}', {'width': width, 'value': v})
        for v in [1 << width, (1 << width) + 1, (1 << (width + 3)) + 5, -1, -(1 << width), -5]:
            acc.case(NAME_A, key=('oor', width, v), nontrivial=True)
            try:
                w = BitWriter()
                w.write_number(v, width)
                acc.violation('C16/write_number/raises-out-of-range', 'negative-number' if v < 0 else 'too-large-number',
                              f'write_number({v}, {width}) did not raise; bytes {bytes(w)!r}', {'value': v, 'width': width})
            except BitIOError:
                pass
            except Exception as e:
                acc.violation('C16/write_number/raises-out-of-range', 'other-exception-type', f'write_number({v}, {width}) raised {M.exc_str(e)}', {'value': v, 'width': width})
    for v in list(range(256)) + [256, 300, -1]:
        acc.case(NAME_A, key=('byte', v), nontrivial=True)
        try:
            w = BitWriter()
            w.write(True)
            w.write_byte(v)
            rd = BitReader(bytes(w))
            rd.read()
            got = rd.read_byte()
            if not 0 <= v < 256:
                acc.violation('C16/write_byte/raises-out-of-range', 'byte', f'write_byte({v}) did not raise', {'value': v})
            elif got != v:
                acc.violation('C16/write_byte+read_byte/inverse', 'byte', f'{v} -> {got}', {'value': v, 'read': got})
        except BitIOError as e:
            if 0 <= v < 256:
                acc.violation('C16/write_byte+read_byte/inverse', 'byte', f'write_byte({v}) raised {M.exc_str(e)}', {'value': v})
        except Exception as e:
            acc.violation('C16/write_byte+read_byte/no-exception', 'byte', f'{v}: {M.exc_str(e)}', {'value': v})
    # mixed sequences
    r = M.rng('C16', 'bits')
    for _ in range(300 if quick else 5000):
        seq = []
        for _k in range(r.randint(1, 8)):
            wd = r.randint(0, 17)
            seq.append((wd, r.randrange(1 << wd)))
        try:
            w = BitWriter()
            for wd, v in seq:
                w.write_number(v, wd)
            rd = BitReader(bytes(w))
            got = [rd.read_number(wd) for wd, _ in seq]
            acc.case(NAME_A, key=('seq', tuple(seq)), nontrivial=True)
            if got != [v for _, v in seq]:
                acc.violation('C16/write_number+read_number/inverse', 'number-sequence', f'{seq} -> {got}', {'sequence': seq, 'read': got})
        except Exception as e:
            acc.violation('C16/write_number+read_number/no-exception', 'number-sequence', f'{seq}: {M.exc_str(e)}', {'sequence': seq})


# ----------------------------------------------------------------------------------- (b) dict ----
def key_class(d):
    ks = list(d)
    if any(any(ord(ch) > 127 for ch in k) for k in ks):
        return 'non-ascii-key'
    if any(len(k) > 255 for k in ks):
        return 'long-key'
    if any(k == '' for k in ks):
        return 'empty-key'
    if any(len(v) > 255 for v in d.values()):
        return 'long-value'
    if any(len(v) == 0 for v in d.values()):
        return 'empty-value'
    if not d:
        return 'empty-dict'
    return 'ascii-keys'


def dict_cases(quick):
    r = M.rng('C16', 'dict')
    yield {}
    yield {'': b''}
    yield {'': b'\x00', 'a': b''}
    yield {'a': b'\x01\x02', 'b': b'', 'abc': bytes(range(256))}
    yield {'key with blanks\n\t': b'\xff' * 3}
    yield {'k' * 255: b'v', 'k' * 256: b'w', 'k' * 257: b'x'}
    yield {'L' * 65535: b'max key'}
    yield {'v': b'\xab' * 65535}
    yield {'v1': b'\x00' * 256, 'v2': b'\x01' * 255}
    # non-ASCII keys (UTF-8 length differs from the number of characters)
    yield {'é': b'1'}
    yield {'ключ': b'\x00\x01', 'a': b'b'}
    yield {'a': b'b', '鍵': b''}
    yield {'\U0001F600x': b'emoji'}
    yield {'ß' * 300: b'long non ascii'}
    alphabet = 'abcXYZ019_-. '
    for _ in range(40 if quick else 600):
        d = {}
        for _k in range(r.randint(0, 5)):
            k = ''.join(r.choice(alphabet) for _c in range(r.choice([0, 1, 2, 5, 17, 300])))
            d[k] = bytes(r.randrange(256) for _c in range(r.choice([0, 1, 3, 40, 700])))
        yield d
    for _ in range(10 if quick else 100):
        d = {}
        for _k in range(r.randint(1, 3)):
            k = ''.join(r.choice('aé語üЖz') for _c in range(r.randint(1, 6)))
            d[k] = bytes(r.randrange(256) for _c in range(r.randint(0, 5)))
        yield d


def check_dicts(acc, quick):
    from cirbo.circuits_db.binary_dict_io import read_binary_dict, write_binary_dict
    from cirbo.circuits_db.exceptions import BinaryDictIOError, CircuitsDatabaseError
    r = M.rng('C16', 'dict-cut')
    for d in dict_cases(quick):
        cls = key_class(d)
        small = sum(len(k) + len(v) for k, v in d.items()) < 200
        rp = {'dict': {k: list(v) for k, v in d.items()}} if small else {'dict_shape': {repr(k[:10]) + f'..len{len(k)}': len(v) for k, v in d.items()}}
        acc.case(NAME_B, key=tuple(sorted((k, v) for k, v in d.items())), nontrivial=bool(d), sample=rp if small and d else None)
        try:
            s = io.BytesIO()
            write_binary_dict(d, s)
            data = s.getvalue()
        except Exception as e:
            acc.violation('C16/write_binary_dict/no-exception', cls, M.exc_str(e), rp)
            continue
        try:
            back = read_binary_dict(io.BytesIO(data))
            if back != d:
                acc.violation('C16/write_binary_dict+read_binary_dict/inverse', cls, f'read back {str(back)[:200]} instead of {str(d)[:200]}', dict(rp, stream=list(data[:200])))
                continue
        except Exception as e:
            acc.violation('C16/write_binary_dict+read_binary_dict/inverse', cls, f'reader raised {M.exc_str(e)} on the written stream {data[:60]!r}', dict(rp, stream=list(data[:200])))
            continue
        # truncation / trailing data (only meaningful when the plain round trip works)
        cuts = range(len(data)) if len(data) <= 80 else sorted(set([0, 1, 7, 8, 9, 10, len(data) - 1, len(data) - 2] + [r.randrange(len(data)) for _ in range(12)]))
        for cut in cuts:
            acc.case(NAME_B, key=('cut', data[:64], len(data), cut), nontrivial=True)
            try:
                got = read_binary_dict(io.BytesIO(data[:cut]))
                acc.violation('C16/read_binary_dict/rejects-truncated', 'truncated-stream', f'stream of {len(data)} bytes cut to {cut} bytes was accepted as {str(got)[:100]}', dict(rp, cut=cut))
            except BinaryDictIOError:
                pass
            except Exception as e:
                acc.violation('C16/read_binary_dict/rejects-truncated', 'truncated-stream/other-exception-type', f'cut at {cut}: {M.exc_str(e)}', dict(rp, cut=cut))
        for extra in (b'\x00', b'x', b'\x00' * 8, data):
            if not extra:
                continue
            acc.case(NAME_B, key=('trail', data[:64], len(data), extra[:8]), nontrivial=True)
            try:
                got = read_binary_dict(io.BytesIO(data + extra))
                acc.violation('C16/read_binary_dict/rejects-trailing', 'trailing-bytes', f'{len(extra)} trailing bytes accepted, result {str(got)[:100]}', dict(rp, trailing=list(extra[:16])))
            except BinaryDictIOError:
                pass
            except Exception as e:
                acc.violation('C16/read_binary_dict/rejects-trailing', 'trailing-bytes/other-exception-type', f'{M.exc_str(e)}', dict(rp, trailing=list(extra[:16])))


# -------------------------------------------------------------------------------- (c) circuits ----
def classify(net):
    """(in_format, witness class): is every gate of a type/arity the format defines, and which feature explains a failure."""
    in_format = True
    feats = []
    for g, (t, ops) in net.gates.items():
        if t == 'INPUT':
            continue
        if t not in FORMAT_TYPES:
            in_format = False
            feats.append((0, f'type-{t}'))
        elif len(ops) != format_arity(t):
            in_format = False
            if t in S.CONST:
                feats.append((1, 'const-gate-with-operands'))
            else:
                feats.append((2, 'nary>2'))
    if any(t in S.CONST and not ops for t, ops in net.gates.values()):
        feats.append((3, 'const-gate'))
    if not M.is_topological_storage(net):
        feats.append((4, 'storage-order'))
    n_gates = len(net.gates)
    if not net.inputs and n_gates and (n_gates & (n_gates - 1)) == 0:
        feats.append((5, 'zero-inputs-pow2-gates'))
    if not net.inputs:
        feats.append((6, 'zero-inputs'))
    if not net.outputs:
        feats.append((7, 'zero-outputs'))
    feats.sort()
    return in_format, [f for _, f in feats]


_FAULTY = None


def faulty_types():
    """Gate types of the format whose plain one-gate circuit (format arity, topological storage, one output) already fails the
    round trip: failures of bigger circuits containing such a gate are attributed to that type."""
    global _FAULTY
    if _FAULTY is None:
        _FAULTY = set()
        probe = M.Acc()
        for net in M.single_gate_nets(max_nary=2, types=FORMAT_TYPES):
            t, ops = net.gates['g0']
            if t in S.CONST or len(ops) != format_arity(t):
                continue
            _check_circuit(probe, net, attribute=False)
            if probe.viol:
                _FAULTY.add(t)
                probe = M.Acc()
    return _FAULTY


def pick_witness(net, feats, stage, exc_name, attribute=True):
    """One class per root cause.  Precedence follows what the codec does first with the circuit."""
    fs = list(feats)
    if stage == 'encode' and 'zero-inputs-pow2-gates' in fs and exc_name == 'BitIOError':
        return 'zero-inputs-pow2-gates'          # word size too small for the gate count
    if attribute:
        hit = sorted(t for t, _ in net.gates.values() if t in faulty_types())
        if hit:
            return f'type-{hit[0]}'
    for f in fs:
        if f.startswith('type-'):
            return f
    for f in ('nary>2', 'const-gate-with-operands', 'const-gate', 'storage-order', 'zero-inputs', 'zero-outputs'):
        if f in fs:
            return f
    return 'format-circuit'


def check_circuit(acc, net):
    """True iff encode+decode succeeded and gave the same circuit."""
    return _check_circuit(acc, net, attribute=True)


def _check_circuit(acc, net, attribute):
    from cirbo.circuits_db.circuits_encoding import encode_circuit, decode_circuit
    from cirbo.circuits_db.exceptions import CircuitsDatabaseError
    in_format, feats = classify(net)
    try:
        c = N.build(net)
    except Exception as e:
        acc.violation('C16/setup/build', 'build-raises', M.exc_str(e), {'netlist': net.to_json()})
        return False
    nontriv = len(net.gates) > len(net.inputs)
    acc.case(NAME_C, key=net.key(), nontrivial=nontriv, sample={'netlist': net.to_json(), 'in_format': in_format} if nontriv else None)
    rp = {'kind': 'bounded', 'netlist': net.to_json(), 'uses_only_format_types_and_arities': in_format, 'features': feats}
    try:
        data = encode_circuit(c)
    except CircuitsDatabaseError as e:
        if in_format:
            acc.violation('C16/encode_circuit/succeeds-on-format-circuits', pick_witness(net, feats, 'encode', type(e).__name__, attribute),
                          f'encode_circuit raised {M.exc_str(e)} on a circuit that uses only gate types and arities of the format', rp)
        return False
    except Exception as e:
        acc.violation('C16/encode_circuit/raises-only-codec-errors', pick_witness(net, feats, 'encode', type(e).__name__, attribute) + '/' + type(e).__name__,
                      f'encode_circuit raised {M.exc_str(e)}', rp)
        return False
    rp['encoded_bytes'] = list(data)
    try:
        c2 = decode_circuit(data)
        got = N.snapshot(c2)
    except Exception as e:
        acc.violation('C16/encode_circuit+decode_circuit/decodes-to-same-circuit', pick_witness(net, feats, 'decode', type(e).__name__, attribute),
                      f'encode_circuit returned {data!r} but decode_circuit raised {M.exc_str(e)}', rp)
        return False
    prob = None
    want_types = sorted(t for t, _ in net.gates.values())
    if len(got.inputs) != len(net.inputs):
        prob = f'{len(got.inputs)} inputs instead of {len(net.inputs)}'
    elif len(got.outputs) != len(net.outputs):
        prob = f'{len(got.outputs)} outputs instead of {len(net.outputs)}'
    elif len(got.gates) != len(net.gates):
        prob = f'{len(got.gates)} gates instead of {len(net.gates)}'
    elif sorted(t for t, _ in got.gates.values()) != want_types:
        prob = f'gate types {sorted(t for t, _ in got.gates.values())} instead of {want_types}'
    else:
        try:
            if N.wf_violations(N.Net(got.inputs, got.outputs, got.gates)):
                prob = 'decoded circuit is not well formed'
            elif N.tt(got) != N.tt(net):
                prob = f'truth table {N.tt(got)} instead of {N.tt(net)}'
        except Exception as e:
            prob = f'decoded circuit cannot be evaluated: {M.exc_str(e)}'
    if prob:
        rp['decoded'] = got.to_json()
        acc.violation('C16/encode_circuit+decode_circuit/decodes-to-same-circuit', pick_witness(net, feats, 'decode', 'different', attribute),
                      f'silently different circuit: {prob}', rp)
        return False
    return True


def check_db(acc, nets):
    """add_circuit(label=...) -> save -> open -> get_by_label for circuits of the format (ASCII labels)."""
    from cirbo.circuits_db.db import CircuitsDatabase
    items = []
    try:
        db = CircuitsDatabase()
        db.open()
        for i, net in enumerate(nets):
            label = f'circuit_{i}'
            db.add_circuit(N.build(net), label=label)
            items.append((label, net))
        stream = io.BytesIO()
        db.save(stream)
        db.close()
        db2 = CircuitsDatabase(io.BytesIO(stream.getvalue()))
        db2.open()
        for label, net in items:
            got = db2.get_by_label(label)
            acc.case(NAME_DB, key=net.key(), nontrivial=True)
            ok = got is not None and N.tt(N.snapshot(got)) == N.tt(net) and len(got.gates) == len(net.gates)
            if not ok:
                acc.violation('C16/CircuitsDatabase/add-save-open-get', 'format-circuit', f'label {label}: stored circuit comes back different', {'netlist': net.to_json()})
        if db2.get_by_label('no such label') is not None:
            acc.violation('C16/CircuitsDatabase/get_by_label-missing', 'missing-label', 'returned a circuit for an absent label', {})
        db2.close()
    except Exception as e:
        acc.violation('C16/CircuitsDatabase/add-save-open-get', 'raises-' + type(e).__name__, M.exc_str(e), {'netlists': [n.to_json() for _, n in items[:3]]})


def special_nets():
    """Hand-picked shapes named in the statement: zero inputs / outputs, constants, out-of-order storage."""
    for k in range(1, 10):      # k constants, no inputs, with and without outputs
        gates = {f'c{i}': ('ALWAYS_TRUE' if i % 2 else 'ALWAYS_FALSE', ()) for i in range(k)}
        yield N.Net([], [f'c{k - 1}'], gates)
        yield N.Net([], [], gates)
        yield N.Net([], [f'c{i}' for i in range(k)], gates)
    yield N.Net([], [], {})
    for n in range(1, 6):       # inputs only
        ins = [f'x{i}' for i in range(n)]
        yield N.Net(ins, [], {x: ('INPUT', ()) for x in ins})
        yield N.Net(ins, ins[::-1] + ins, {x: ('INPUT', ()) for x in ins})
    # constants next to inputs
    yield N.Net(['x0'], ['g'], {'x0': ('INPUT', ()), 'k': ('ALWAYS_TRUE', ()), 'g': ('AND', ('x0', 'k'))})
    yield N.Net(['x0'], ['k'], {'x0': ('INPUT', ()), 'k': ('ALWAYS_FALSE', ())})
    # a constant given two operands, as the decoder expects
    yield N.Net(['x0', 'x1'], ['k'], {'x0': ('INPUT', ()), 'x1': ('INPUT', ()), 'k': ('ALWAYS_TRUE', ('x0', 'x1'))})
    # out-of-order storage of a chain
    yield N.Net(['x0', 'x1'], ['g1'], {'g1': ('NOT', ('g0',)), 'g0': ('AND', ('x0', 'x1')), 'x0': ('INPUT', ()), 'x1': ('INPUT', ())})
    yield N.Net(['x0', 'x1'], ['g1'], {'x0': ('INPUT', ()), 'x1': ('INPUT', ()), 'g1': ('NOT', ('g0',)), 'g0': ('AND', ('x0', 'x1'))})
    yield N.Net(['x0', 'x1'], ['g1'], {'x1': ('INPUT', ()), 'g0': ('AND', ('x0', 'x1')), 'x0': ('INPUT', ()), 'g1': ('NOT', ('g0',))})
    # many inputs, few gates (word size driven by the input count) and the reverse
    for n in (3, 4, 7, 8, 9):
        ins = [f'x{i}' for i in range(n)]
        gates = {x: ('INPUT', ()) for x in ins}
        gates['g'] = ('XOR', (ins[0], ins[-1]))
        yield N.Net(ins, ['g'], gates)
    for k in (1, 2, 3, 4, 6, 7, 8, 14, 15, 16, 17):
        gates = {'x0': ('INPUT', ())}
        prev = 'x0'
        for i in range(k):
            gates[f'g{i}'] = ('NOT', (prev,))
            prev = f'g{i}'
        yield N.Net(['x0'], [prev], gates)


def circuit_nets(chunk, r):
    kind = chunk[0]
    if kind == 'special':
        yield from special_nets()
    elif kind == 'single':
        yield from M.single_gate_nets(max_nary=4)
    elif kind == 'enum':
        _, n_in, k, stride, offset = chunk
        alphabet = list(S.CONST) if (n_in == 0 and k > 0) else G.ALL_TYPES
        it = G.enum_nets(n_in, k, alphabet, max_nary=3, outputs=lambda nodes: [nodes[-1:], [], nodes])
        yield from (M.stride_sample(it, stride, offset) if stride > 1 else it)
    elif kind == 'random':
        _, idx, count, fmt_only = chunk
        alphabet = list(FORMAT_TYPES) if fmt_only else G.ALL_TYPES
        for _ in range(count):
            net = G.random_net(r, n_inputs=r.randint(0, 4), k_gates=r.randint(0, 9), alphabet=alphabet, max_nary=2 if fmt_only else 4,
                               max_outputs=4, allow_no_outputs=True, permute_storage=False, large_every=60)
            if fmt_only:
                # constants without operands (the generator may give none anyway)
                net = N.Net(net.inputs, net.outputs, {g: (t, () if t in S.CONST else o) for g, (t, o) in net.gates.items()})
            yield net


def work(acc, chunk):
    mode = chunk[0]
    if mode == 'bits':
        check_bits(acc, chunk[1])
        return
    if mode == 'dict':
        check_dicts(acc, chunk[1])
        return
    chunk = chunk[1:]
    r = M.rng('C16', *chunk)
    db_nets = []
    for net in circuit_nets(chunk, r):
        if any(not S.arity_ok(t, len(o)) for t, o in net.gates.values()):
            continue
        if len(net.inputs) > 9:
            continue
        passed = check_circuit(acc, net)
        nodes = len(net.gates)
        if 1 < nodes <= 4:
            perms = itertools.permutations(list(net.gates.items()))
        else:
            perms = (r.sample(list(net.gates.items()), nodes) for _ in range(3 if nodes > 1 else 0))
        for items in itertools.islice(perms, 24):
            pn = N.Net(net.inputs, net.outputs, dict(items))
            if pn.order != net.order:
                check_circuit(acc, pn)
        in_format, feats = classify(net)
        if passed and in_format and not feats and len(db_nets) < 40:
            db_nets.append(net)
    if db_nets:
        check_db(acc, db_nets)


def run_bounded(rep, quick):
    acc = M.Acc()
    acc.driver(NAME_A, 'real BitWriter/BitReader: all bit strings of length <=12; write_number/read_number for all widths <=10 (thorough 12) x all in-range values x 3 bit '
                       'offsets; out-of-range and negative values must raise BitIOError; write_byte/read_byte 0..255 and out of range; seeded sequences of mixed widths <=17',
               'lengths <=12, widths <=10/12 (exhaustive part) + seeded sequences', exhaustive=False)
    acc.driver(NAME_B, 'real write_binary_dict -> read_binary_dict on hand-picked and seeded dictionaries (empty dict, empty key, keys of 255/256/257/65535 characters, values of '
                       '0..65535 bytes, non-ASCII keys); every prefix of short streams (sampled cuts of long ones) and 4 kinds of trailing data must raise BinaryDictIOError',
               'about 65 (thorough 700) dictionaries', exhaustive=False)
    acc.driver(NAME_C, 'real encode_circuit -> decode_circuit on hand-picked shapes (0 inputs with 1..9 constants, 0 outputs, inputs only, chains of 1..17 gates, many inputs), one '
                       'circuit per gate type and arity 2..4, enumerated circuits <=2 inputs <=2 gates over all 18 types (quick: sampled) with output lists last/none/all, seeded random '
                       'circuits (format types only, and all types) <=4 inputs <=9 gates; every storage permutation of circuits with <=4 nodes (else 3 random); oracle: counts, '
                       'type multiset, truth table by den() of vlib/spec; non-trivial = circuit with a non-input gate', 'K<=2 enumerated, random K<=9', exhaustive=False)
    acc.driver(NAME_DB, 'CircuitsDatabase.add_circuit(label) -> save(BytesIO) -> open -> get_by_label for the topologically stored format circuits of each chunk', '<=40 per chunk', exhaustive=False)
    if quick:
        chunks = [('bits', True), ('dict', True), ('c', 'special'), ('c', 'single')]
        chunks += [('c', 'enum', n, k, 1, 0) for n in (0, 1, 2) for k in (0, 1)]
        chunks += [('c', 'enum', 2, 2, 41, 5), ('c', 'random', 0, 150, True), ('c', 'random', 1, 100, False)]
    else:
        chunks = [('bits', False), ('dict', False), ('c', 'special'), ('c', 'single')]
        chunks += [('c', 'enum', n, k, 1, 0) for n in (0, 1, 2) for k in (0, 1)]
        chunks += [('c', 'enum', 1, 2, 1, 0)]
        chunks += [('c', 'enum', 2, 2, 16 * 3, off * 3) for off in range(16)]
        chunks += [('c', 'random', i, 400, True) for i in range(8)] + [('c', 'random', 100 + i, 400, False) for i in range(8)]
    faulty_types()
    total = M.run_chunks(work, chunks, parallel=not quick)
    acc.merge(total)
    acc.flush(rep)

"""Helpers shared by the bounded drivers of the circuit-structure properties (C02 C10 C13 C14 C19 C20).

Nothing in here calls the repository's evaluation / traversal code: states are read through the
private fields (vlib.spec.net.snapshot), reference results are computed on plain `Net`s."""
import hashlib
import random
import time
from collections import Counter

from .. import env
from ..spec import net as N
from ..spec.net import Net


# ---------------------------------------------------------------------------------------------
# determinism

def rng_for(*salt):
    """Seeded RNG that does not depend on PYTHONHASHSEED (str hashes are randomised per process)."""
    h = hashlib.sha256(repr((env.SEED,) + tuple(salt)).encode()).digest()
    return random.Random(int.from_bytes(h[:8], 'big'))


class Budget:
    """Soft wall-clock guard for the *random* part of a driver (the exhaustive parts are sized by
    construction). `over()` becomes True after `seconds`."""

    def __init__(self, seconds):
        self.t_end = time.time() + seconds

    def over(self):
        return time.time() > self.t_end


# ---------------------------------------------------------------------------------------------
# failure collection with minimal witness classes

class Collector:
    """Failures are recorded as (obligation, base, feature set). At flush time only the minimal
    feature sets per (obligation, base) are reported, so that a defect that shows on plain inputs
    gives ONE class (`base`), and a defect that needs a special input shape gives `base+feature`.
    The smallest reproducer of each class is kept."""

    def __init__(self):
        self.items = {}

    def add(self, obligation, base, feats, size, detail, replay):
        key = (obligation, base, frozenset(feats))
        old = self.items.get(key)
        if old is None or size < old[0]:
            self.items[key] = (size, detail, replay)

    def merge(self, items):
        for (o, b, f), (size, detail, replay) in items.items():
            self.add(o, b, f, size, detail, replay)

    @staticmethod
    def cls(base, feats):
        parts = ([base] if base else []) + sorted(feats)
        return '+'.join(parts) if parts else 'any'

    def flush(self, rep):
        groups = {}
        for (o, b, f), v in self.items.items():
            groups.setdefault((o, b), []).append((f, v))
        for (o, b) in sorted(groups):
            lst = groups[(o, b)]
            minimal = [(f, v) for f, v in lst if not any(g < f for g, _ in lst)]
            for f, (size, detail, replay) in sorted(minimal, key=lambda t: sorted(t[0])):
                rep.violation(o, self.cls(b, f), detail, replay)


def run_chunks(worker, tasks, quick, nproc=None):
    """Run `worker(task)` for every task; sequentially in the quick tier, in a fork pool otherwise.
    Results are returned in task order (determinism)."""
    if quick or len(tasks) <= 1:
        return [worker(t) for t in tasks]
    import multiprocessing as mp
    n = max(1, min(16, nproc or env.NPROC, len(tasks)))
    try:
        ctx = mp.get_context('fork')
        with ctx.Pool(n) as pool:
            return pool.map(worker, tasks, chunksize=1)
    except Exception:      # no fork / resource problem: fall back to in-process
        return [worker(t) for t in tasks]


def account(rep, name, cases, keys=(), samples=()):
    """book the cases executed by a chunk (possibly in a worker process) on a bounded driver: same effect as calling
    rep.bounded_case once per case."""
    d = rep.bounded[name]
    d['evaluations'] += cases
    d['nontrivial'] |= set(keys)
    for s in samples:
        if len(d['samples']) < 3:
            d['samples'].append(s)


# ---------------------------------------------------------------------------------------------
# raw state handling of the real Circuit (no repository algorithm involved)

def clone_raw(c):
    """Field-by-field clone of a real Circuit (gates are immutable objects and may be shared).
    Used to restart from a pre-state; deliberately NOT copy.copy (that is under test)."""
    from cirbo.core.circuit import Circuit
    from cirbo.core.circuit.circuit import Block
    d = Circuit()
    d._inputs = list(c._inputs)
    d._outputs = list(c._outputs)
    d._gates = dict(c._gates)
    d._gate_to_users = {k: list(v) for k, v in c._gate_to_users.items()}
    d._blocks = {n: Block(n, d, list(b._inputs), list(b._gates), list(b._outputs)) for n, b in c._blocks.items()}
    return d


def users_norm(users):
    return {k: Counter(v) for k, v in (users or {}).items() if v}


def state_of(net):
    """Everything observable of a snapshot, order of the gate map and of user lists ignored."""
    return (list(net.inputs), list(net.outputs), dict(net.gates), users_norm(net.users),
            {n: {f: list(v) for f, v in b.items()} for n, b in (net.blocks or {}).items()})


def state_key(net):
    s = state_of(net)
    return (tuple(s[0]), tuple(s[1]), tuple(sorted(s[2].items())),
            tuple(sorted((k, tuple(sorted(v.items()))) for k, v in s[3].items())),
            tuple(sorted((n, tuple((f, tuple(v)) for f, v in sorted(b.items()))) for n, b in s[4].items())))


def net_json(net):
    j = net.to_json()
    if net.users is not None:
        j['users_index'] = {k: list(v) for k, v in net.users.items()}
    return j


def wf_first(net, c=None):
    """First violated WF clause of C02's statement on a snapshot, or None.
    W7 is restricted to what the statement says (block *member and input* labels); a block whose
    `outputs` name a removed gate is not demanded by the statement and is ignored here.
    If `c` is given and the static clauses hold, the real top_sort is run in both directions."""
    for clause, detail in N.wf_violations(net):
        if clause == 'W7' and '.outputs names' in detail:
            continue
        return clause, detail
    if c is not None:
        ts = N.topsort_ok(c, net)
        if ts:
            return ts[0]
    return None


# ---------------------------------------------------------------------------------------------
# reference graph computations on Nets

def operand_users(net):
    """user multiset derived from operands: g -> Counter(users)."""
    u = {g: Counter() for g in net.gates}
    for g, (_, ops) in net.gates.items():
        for o in ops:
            u.setdefault(o, Counter())[g] += 1
    return u


def reach(net, starts, inverse):
    """closure of `starts` under operands (inverse=False) or users (inverse=True)."""
    if inverse:
        us = operand_users(net)
        nxt = lambda g: list(us.get(g, ()))
    else:
        nxt = lambda g: list(net.gates[g][1])
    seen = set()
    todo = list(starts)
    while todo:
        g = todo.pop()
        if g in seen:
            continue
        seen.add(g)
        todo.extend(nxt(g))
    return seen


def cone(net, roots, leaves):
    """gates strictly between `leaves` and `roots`: closure of roots under operands that stops at leaves.
    Returns (set of cone gates incl. roots, set of INPUT gates hit that are not leaves)."""
    leaves = set(leaves)
    seen, hit = set(), set()
    todo = [r for r in roots if r not in leaves]
    while todo:
        g = todo.pop()
        if g in seen:
            continue
        seen.add(g)
        for o in net.gates[g][1]:
            if o in leaves:
                continue
            if net.gates[o][0] == 'INPUT':
                hit.add(o)
                continue
            todo.append(o)
    return seen, hit


def topo_order(net):
    r = N.rank(net)
    return sorted(net.gates, key=lambda g: (r[g], net.order.index(g)))


def relabel(net, f):
    """image of a Net under a label map (function)."""
    gates = {f(k): (t, tuple(f(o) for o in ops)) for k, (t, ops) in net.gates.items()}
    blocks = {n: {fld: [f(x) for x in v] for fld, v in b.items()} for n, b in (net.blocks or {}).items()}
    return Net([f(i) for i in net.inputs], [f(o) for o in net.outputs], gates, blocks=blocks)


def mk(inputs, gates, outputs, blocks=None):
    g = {x: ('INPUT', ()) for x in inputs}
    for k, t, ops in gates:
        g[k] = (t, tuple(ops))
    return Net(inputs, outputs, g, blocks=blocks)


def exc_str(e):
    return f'{type(e).__name__}: {str(e)[:160]}'

"""C13 bounded stand-in: cirbo.sat.build_miter on pairs of small circuits vs. the pointwise definition
"True exactly where the two output vectors differ"."""

from .. import env
from ..spec import net as N
from ..spec import gen as G
from . import _circ_common as K

NAME = 'build_miter-vs-pointwise-definition'
SHAPES = 'build_miter-rejects-different-shapes'

ALPHA = ('AND', 'OR', 'XOR', 'NOR', 'GT', 'LEQ', 'RNOT', 'LIFF', 'NOT', 'IFF', 'ALWAYS_TRUE')


def _outsel(nodes):
    """1..3 outputs; inputs as outputs, repeated outputs."""
    res = [nodes[-1:], nodes[:1]]
    if len(nodes) >= 2:
        res += [[nodes[-1], nodes[0]], [nodes[-1], nodes[-1]], [nodes[0], nodes[-1], nodes[0]]]
    else:
        res += [[nodes[0], nodes[0]]]
    return res


def pool(n_in, k_max, max_nary=2):
    res = []
    for k in range(0, k_max + 1):
        if n_in == 0 and k == 0:
            continue
        alpha = ALPHA if n_in > 0 else ('ALWAYS_TRUE', 'ALWAYS_FALSE')
        for net in G.enum_nets(n_in, k, alpha, max_nary=max_nary, outputs=_outsel):
            res.append(net)
    return res


def _features(l, r, same_obj):
    f = set()
    if len(l.outputs) == 1:
        f.add('single-output')
    if len(l.inputs) == 0:
        f.add('zero-inputs')
    if any(o in n.inputs for n in (l, r) for o in n.outputs):
        f.add('output-is-input')
    if any(len(set(n.outputs)) < len(n.outputs) for n in (l, r)):
        f.add('repeated-output')
    if set(l.gates) & set(r.gates):
        f.add('shared-labels')
    if set(l.inputs) == set(r.inputs) and list(l.inputs) != list(r.inputs):
        f.add('same-input-labels-other-order')
    if same_obj:
        f.add('same-object')
    if l.blocks or r.blocks:
        f.add('operand-blocks')
    return f


def check_pair(l, r, col, same_obj=False):
    from cirbo.sat import build_miter
    cl = N.build(l)
    cr = cl if same_obj else N.build(r)
    pl, pr = N.snapshot(cl), N.snapshot(cr)
    feats = _features(l, r, same_obj)
    size = len(l.gates) + len(r.gates) + len(l.outputs)
    rp = {'kind': 'bounded', 'left': l.to_json(), 'right': r.to_json(), 'call': 'build_miter(build(left), build(right))'}
    try:
        m = build_miter(cl, cr)
    except Exception as e:
        col.add('C13/build_miter/returns-normally', '', feats, size, K.exc_str(e), rp)
        return
    # operands unmodified
    for side, c, p in (('left', cl, pl), ('right', cr, pr)):
        q = N.snapshot(c)
        if K.state_of(q) != K.state_of(p) or q.order != p.order:
            col.add('C13/build_miter/operands-unmodified', side, feats, size, f'{side} operand changed: {K.net_json(p)} -> {K.net_json(q)}', rp)
    ms = N.snapshot(m)
    rp['miter'] = K.net_json(ms)
    n = len(l.inputs)
    if len(ms.inputs) != n:
        col.add('C13/build_miter/input-count', '', feats, size, f'miter has inputs {ms.inputs}, left has {l.inputs}', rp)
        return
    if len(ms.outputs) != 1:
        col.add('C13/build_miter/one-output', '', feats, size, f'miter outputs {ms.outputs}', rp)
        return
    bad_wf = [cl_ for cl_, _ in N.wf_violations(ms) if cl_ in ('W1', 'W2', 'W4', 'W5')]
    if bad_wf:
        col.add('C13/build_miter/evaluable-netlist', '', feats, size, f'miter netlist is not a well formed DAG: {N.wf_violations(ms)[:2]}', rp)
        return
    tl, tr = N.tt(l), N.tt(r)
    out = ms.outputs[0]
    raising = None
    for j, x in enumerate(N.assignments(n)):
        want = any(tl[i][j] != tr[i][j] for i in range(len(l.outputs)))
        got = N.den_all(ms, dict(zip(ms.inputs, x)))[out]      # fold semantics, also for a one-operand OR
        if got != want:
            col.add('C13/build_miter/true-iff-outputs-differ', '', feats, size,
                    f'input {x} (left input order): miter={got}, outputs differ={want}', dict(rp, assignment=x, expected=want, observed=got))
            break
        # the real evaluation of the built miter must be possible and agree
        try:
            real = m.evaluate(list(x))
        except Exception as e:
            raising = (x, K.exc_str(e))
            break
        if real != [want]:
            col.add('C13/build_miter/real-evaluate-agrees', '', feats, size, f'input {x}: Circuit.evaluate gives {real}, expected {[want]}',
                    dict(rp, assignment=x, expected=[want], observed=real))
            break
    if raising:
        bad_ar = N.arity(ms)
        col.add('C13/build_miter/evaluates', '', feats, size,
                f'evaluating the miter raises {raising[1]} on input {raising[0]}; gates with illegal operand count: '
                f'{[(g, ms.gates[g][0], len(ms.gates[g][1])) for g in bad_ar]}', dict(rp, assignment=raising[0]))


def check_shapes(l, r, col):
    from cirbo.sat import build_miter
    from cirbo.sat.exceptions import MiterDifferentShapesError
    cl, cr = N.build(l), N.build(r)
    base = 'inputs-differ' if len(l.inputs) != len(r.inputs) else 'outputs-differ'
    rp = {'kind': 'bounded', 'left': l.to_json(), 'right': r.to_json(), 'call': 'build_miter(build(left), build(right))'}
    try:
        build_miter(cl, cr)
        col.add('C13/build_miter/rejects-different-shapes', base, set(), len(l.gates) + len(r.gates), 'returned normally', rp)
    except MiterDifferentShapesError:
        pass
    except Exception as e:
        col.add('C13/build_miter/rejects-different-shapes', base, {'other-exception'}, len(l.gates) + len(r.gates), K.exc_str(e), rp)


def _rename(net, pre):
    return K.relabel(net, lambda s: pre + s)


def _worker(task):
    env.setup_import_paths()
    col = K.Collector()
    cases, keys, samples = {NAME: 0, SHAPES: 0}, {NAME: set(), SHAPES: set()}, []
    kind = task[0]

    def pair(l, r, same=False):
        check_pair(l, r, col, same)
        cases[NAME] += 1
        keys[NAME].add(hash((l.key(), r.key(), same)))
        if len(samples) < 2 and len(l.gates) > len(l.inputs):
            samples.append({'left': l.to_json(), 'right': r.to_json()})

    if kind == 'pairs':
        _, n_in, k_max, stride, part, parts = task
        P = pool(n_in, k_max)
        idx = 0
        for a, l in enumerate(P):
            for b, r in enumerate(P):
                if len(l.outputs) != len(r.outputs):
                    continue
                idx += 1
                if idx % parts != part or (idx // parts) % stride != 0:
                    continue
                pair(l, r)                                   # shared labels
                if (a + b) % 2 == 0:
                    pair(l, _rename(r, 'r_'))                # disjoint labels
                if len(r.inputs) >= 2 and (a + 2 * b) % 3 == 0:
                    # same input LABELS listed in a different order: circuits are compared by input POSITION, not by label
                    pair(l, N.Net(list(reversed(r.inputs)), r.outputs, r.gates, blocks=r.blocks))
            if a % parts == part:
                pair(l, l, same=True)
    elif kind == 'wide':
        # many outputs, the two circuits differing in exactly ONE output position (every position in turn): a reduction
        # of the pairwise xors that loses an operand shows only here
        for m in range(1, task[1] + 1):
            ins = ['x0', 'x1']
            gl = {'x0': ('INPUT', ()), 'x1': ('INPUT', ())}
            for j in range(m):
                gl[f'o{j}'] = (('AND', 'OR', 'XOR')[j % 3], ('x0', 'x1'))
            left = N.Net(ins, [f'o{j}' for j in range(m)], gl)
            pair(left, _rename(left, 'r_'))
            for k in range(m):
                gr = dict(gl)
                t, ops = gr[f'o{k}']
                gr[f'o{k}'] = ({'AND': 'NAND', 'OR': 'NOR', 'XOR': 'NXOR'}[t], ops)
                right = N.Net(ins, [f'o{j}' for j in range(m)], gr)
                pair(left, right)
                pair(right, _rename(left, 'r_'))
    elif kind == 'shapes':
        P = [p for n_in in (0, 1, 2) for p in pool(n_in, 1)]
        rng = K.rng_for('C13', 'shapes')
        rng.shuffle(P)
        P = P[:task[1]]
        for l in P:
            for r in P:
                if len(l.inputs) != len(r.inputs) or len(l.outputs) != len(r.outputs):
                    check_shapes(l, r, col)
                    cases[SHAPES] += 1
                    keys[SHAPES].add(hash((l.key(), r.key())))
    else:
        _, count, part = task[:3]
        budget = K.Budget(task[3]) if len(task) > 3 else None
        rng = K.rng_for('C13', 'random', part)
        for _i in range(count):
            if budget and budget.over():
                break
            n_in = rng.randint(0, 3)
            m = rng.randint(1, 3)
            nets = []
            for side in range(2):
                while True:
                    net = G.random_net(rng, n_inputs=n_in, k_gates=rng.randint(0 if n_in else 1, 6), max_outputs=3,
                                       prefix='' if rng.random() < 0.5 else 'lr'[side] + '_')
                    if not N.arity(net) and net.gates:
                        break
                nodes = list(net.gates)
                outs = [rng.choice(nodes) for _ in range(m)]
                blocks = {}
                if rng.random() < 0.3:
                    blocks['blk'] = {'inputs': list(net.inputs), 'gates': [g for g in nodes if g not in net.inputs][:2], 'outputs': outs[:1]}
                nets.append(N.Net(net.inputs, outs, net.gates, blocks=blocks))
            pair(nets[0], nets[1])
    return cases, keys, samples, col.items


def run_bounded(rep, quick):
    rep.bounded_driver(
        NAME, 'build_miter(l, r) for pairs of equal shape from the pool of all circuits with n inputs and <=K gates over '
        f'{list(ALPHA)} x 5 output selections (1..3 outputs, outputs that are inputs, repeated outputs), with shared and with disjoint '
        'labels, with the same input labels listed in another order, l is r, and seeded random pairs (0..3 inputs, <=6 gates, operand blocks): input count, one output, value under the spec '
        'evaluator (fold semantics) == "output vectors differ" for every assignment in the left input order, the real Circuit.evaluate '
        'of the miter returns the same and does not raise, both operands unmodified (gates, order, users, blocks); '
        'non-trivial = distinct (left, right) pair',
        'quick: n<=1 K<=1 all pairs, n=2 K<=1 every 4th pair + 1500 random; thorough: n<=2, K<=1 all pairs, n=1 K<=2 every 10th pair + 80000 random', exhaustive=False)
    rep.bounded_driver(
        SHAPES, 'build_miter on pairs whose input or output counts differ must raise MiterDifferentShapesError',
        'quick: 40x40 sampled pool circuits; thorough: 120x120', exhaustive=False)
    tasks = []
    if quick:
        tasks += [('pairs', 0, 1, 1, 0, 1), ('pairs', 1, 1, 1, 0, 1), ('pairs', 2, 1, 4, 0, 1), ('shapes', 40), ('random', 1500, 0, 8.0), ('wide', 12)]
    else:
        tasks += [('pairs', 0, 1, 1, 0, 1), ('shapes', 120), ('wide', 20)]
        tasks += [('pairs', 1, 1, 1, p, 8) for p in range(8)]
        tasks += [('pairs', 2, 1, 1, p, 16) for p in range(16)]
        tasks += [('pairs', 1, 2, 10, p, 16) for p in range(16)]
        tasks += [('random', 5000, p) for p in range(16)]
    col = K.Collector()
    for cases, keys, samples, items in K.run_chunks(_worker, tasks, quick):
        K.account(rep, NAME, cases[NAME], keys[NAME], samples)
        K.account(rep, SHAPES, cases[SHAPES], keys[SHAPES])
        col.merge(items)
    col.flush(rep)

"""C08 bounded stand-in: multiplier and squarer generators (DESIGN §6 C08, paragraph B).

Checks, taken from the statement of C08:
  value         the returned bits decode to a*b (a^2) for every operand value (both endiannesses);
  length        n+m result bits, n+m-1 when one width is 1; squares 2n, or 1 when n = 1;
  no-exception  every call with n, m >= 1 must work;
  frame-*       only fresh non-input gates, pre-existing gates keep label/type/operands/function, outputs untouched,
                result well formed.

Functions: add_mul (DEFAULT), add_mul_karatsuba_with_efficient_sum (KARATSUBA), add_mul_karatsuba (exported, used by
add_square), add_mul_alter, add_mul_dadda, add_mul_wallace, add_mul_pow2_m1, generate_mul(type=every MulMode);
add_square, add_square_pow2_m1, generate_square(type=every SquareMode).
Small widths: all operand values, bit-parallel, operands = primary inputs / internal gates of a bijective host /
arbitrary nodes of random hosts; n+m <= 6 (8 thorough) also the adversarial hosts of _arith_common (gates of all 14
binary types over the first two bit positions of the operands in both operand orders) and, for add_mul, the
call-twice mode ((b, a) first, then the checked call (a, b) in the same circuit, both results checked).
Wide: the widths that reach the Karatsuba recursion (n >= 20 or n = 18; the longer operand decides, the shorter one
is padded) and the squarer split (n >= 48, n not in {49, 53}) on 256 patterns in one bit-parallel batch = corner
operand values (0, 1, 2^n-1 = all ones, 2^(n-1), 2^n-2, 0xAAAA.., 0x5555..; all 49 pairs) followed by 207 seeded
random operand pairs.  The quick tier runs the recursing forms (the two Karatsuba forms + generate_mul[KARATSUBA],
add_square + generate_square[DEFAULT]) on (18,18), (20,20), (21,21), (23,22), (21,11), (40,40) and squares
n = 48, 50, 53, 54: shapes with an ODD split (n odd at some level of the recursion: the high half is one bit longer
than the low half, so the middle term needs 2*mid+2 bits) next to shapes without one.  A failure that shows only on
shapes with an odd split gets the token `wide-odd-split` (`kar_odd_split` / `sq_odd_split` replay the size recursion
of multiplication.py / square.py for classification only).
"""
from . import _arith_common as K
from ._arith_common import Core, Frame, Variant, make_env, replay

PROP = 'C08'
D_MUL = 'multipliers-small'
D_SQ = 'squarers-small'
D_WIDE = 'wide-karatsuba-and-split'

MUL_FUNCS = ['add_mul', 'add_mul_karatsuba_with_efficient_sum', 'add_mul_karatsuba', 'add_mul_alter', 'add_mul_dadda',
             'add_mul_wallace', 'add_mul_pow2_m1']
MODE_TO_FUNC = {'DEFAULT': 'add_mul', 'KARATSUBA': 'add_mul_karatsuba_with_efficient_sum', 'ALTER': 'add_mul_alter',
                'DADDA': 'add_mul_dadda', 'WALLACE': 'add_mul_wallace', 'POW2_M1': 'add_mul_pow2_m1'}
SQ_FUNCS = ['add_square', 'add_square_pow2_m1']
SQ_MODE_TO_FUNC = {'DEFAULT': 'add_square', 'POW2_M1': 'add_square_pow2_m1'}


def _A():
    import cirbo.synthesis.generation.arithmetics as A
    return A


def _rev(x, be):
    x = list(x)
    return x[::-1] if be else x


def mul_len(n, m):
    return n + m - 1 if (n == 1 or m == 1) else n + m


def sq_len(n):
    return 1 if n == 1 else 2 * n


def _call(fn_name, f, v, args, fr, *a, **kw):
    try:
        return f(*a, **kw), []
    except Exception as e:  # noqa
        tn, msg, where, _ = K.exc_info(e)
        return None, [('no-exception', f'{fn_name}({args}) raised {tn}: {msg} at {where}',
                       replay(fn_name, v, args, fr, observed=f'{tn}: {msg}', expected='no exception'))]


def _value_and_length(fn, v, env, vals, res_le, exp, want_len, args, fr, what):
    fails = []
    miss = K.labels_missing(vals, res_le)
    if miss:
        fails.append(('value', f'{fn}({args}): returned label {miss[0]!r} is not a gate of the circuit',
                      replay(fn, v, args, fr, observed=[str(x) for x in res_le], expected='labels of gates')))
    else:
        bad = K.compare_bits(env, vals, res_le, exp)
        if bad:
            fails.append(('value', f'{fn}({args}): {what}: operands {bad["operands"]} -> observed {bad["observed"]}, expected {bad["expected"]}',
                          replay(fn, v, args, fr, failing_input=bad['inputs'], operand_values=bad['operands'],
                                 observed=bad['observed'], expected=bad['expected'])))
    if len(res_le) != want_len:
        fails.append(('length', f'{fn}({args}): {len(res_le)} result bits, expected {want_len}',
                      replay(fn, v, args, fr, observed=len(res_le), expected=want_len)))
    return fails


def _width_token(n, m=None):
    if m is None:
        return 'width=1' if n == 1 else None
    if n == 1 or m == 1:
        return 'a-width-is-1'
    return None if n == m else 'unequal-lengths'


def _wallace_gap(n, m):
    """Classification only (not part of the oracle): replay which cells of the Wallace partial-product matrix are
    occupied through the 3->2 row reduction of add_mul_wallace and report whether one of the two final rows has an
    internal hole.  The final adder of add_mul_wallace collects the non-placeholder labels of each row as if they were
    contiguous, so this is the class of shapes on which its result can be wrong."""
    if n == 1 or m == 1:
        return False
    c = [[False] * m for _ in range(n + m)]
    for i in range(m):
        for j in range(n):
            c[i + j][i] = True
    while len(c[0]) != 2:
        rows = len(c[0])
        cn = [[False] * (2 * (rows // 3)) for _ in range(n + m)]
        for row in range(0, rows - rows % 3, 3):
            for col in range(n + m):
                k = sum(1 for r in range(row, row + 3) if c[col][r])
                for i in range(0 if k == 0 else 1 if k == 1 else 2):
                    if col + i < n + m:
                        cn[col + i][2 * (row // 3) + i] = True
        for row in range(rows - rows % 3, rows):
            for col in range(n + m):
                cn[col].append(c[col][row])
        c = cn
    for r in (0, 1):
        occ = [col for col in range(n + m) if c[col][r]]
        if occ and (r == 0 and occ[0] != 0 or len(occ) != occ[-1] - occ[0] + 1):
            return True
    return False


def _token(fn, n, m):
    if 'wallace' in fn.lower() and _wallace_gap(n, m):
        return 'hole-in-final-rows'
    return _width_token(n, m)


KAR_FUNCS = ['add_mul_karatsuba_with_efficient_sum', 'add_mul_karatsuba']


def kar_odd_split(n):
    """Classification only: does the Karatsuba recursion (both forms: split when n >= 20 or n == 18; sub-products of
    sizes n - n//2, n//2 and n - n//2 + 1) started on n-bit operands split an odd size somewhere?"""
    if n < 20 and n != 18:
        return False
    if n % 2:
        return True
    mid = n // 2
    return kar_odd_split(n - mid) or kar_odd_split(mid) or kar_odd_split(n - mid + 1)


def sq_odd_split(n):
    """Classification only: add_square splits n >= 48 (except 49, 53) into squares of n//2 and n - n//2 bits and a
    Karatsuba product of the two halves (padded to the longer one)."""
    if n < 48 or n in (49, 53):
        return False
    mid = n // 2
    return bool(n % 2) or sq_odd_split(mid) or sq_odd_split(n - mid) or kar_odd_split(n - mid)


def _wide_core(fn, tok, odd, delegate=None):
    if odd:
        return Core(PROP, fn, 'wide-odd-split', delegate=delegate, alt_tokens=[tok])
    return Core(PROP, fn, tok, delegate=delegate)


def _mul_cases(out, driver, n, m, modes, funcs, wide=False):
    A = _A()
    for fn in funcs:
        core = _wide_core(fn, _token(fn, n, m), wide and fn in KAR_FUNCS and kar_odd_split(max(n, m)))
        for mode in modes:
            if mode == 'twice' and fn != 'add_mul':
                continue
            for be in (False, True):
                v = Variant(be, mode)
                env = make_env(mode, [n, m], salt=(fn, be))
                la, lb = _rev(env.ops[0], be), _rev(env.ops[1], be)
                args = {'len(a)': n, 'len(b)': m, 'big_endian': be} if wide else {'input_labels_a': la, 'input_labels_b': lb, 'big_endian': be}
                tw = None
                if mode == 'twice':      # first (b, a), then the checked call (a, b) in the same circuit
                    tw = K.Twice(fn, v, env)
                    tw.first(getattr(A, fn), {'input_labels_a': lb, 'input_labels_b': la, 'big_endian': be}, env.circuit, list(lb), list(la), big_endian=be)
                fr = Frame(env)
                res, fails = _call(fn, getattr(A, fn), v, args, fr,
                                   env.circuit, list(la), list(lb), big_endian=be)
                out.case(driver, (fn, n, m, mode, be), sample={'function': fn, 'n': n, 'm': m, 'big_endian': be, 'operands': mode}
                         if (n, m) in ((2, 3), (18, 18)) and not be else None)
                if not fails:
                    fails += fr.failures(fn, v, args)
                    if fr.vals is not None:
                        exp = K.expected_vectors(env, 'a*b', lambda a, b: a * b)
                        fails += _value_and_length(fn, v, env, fr.vals, _rev(res, be), exp, mul_len(n, m), args, fr, 'a*b')
                        if tw is not None and tw.result is not None:
                            fails += tw.check(fr, 'value', _rev(tw.result, be), exp, 'b*a', args)
                if tw is not None:
                    fails += tw.fail
                core.add(v, fails)
        core.flush(out)
    for mname, fn in MODE_TO_FUNC.items():
        if fn not in funcs:
            continue
        gname = f'generate_mul[{mname}]'
        core = _wide_core(gname, _token(fn, n, m), wide and fn in KAR_FUNCS and kar_odd_split(max(n, m)), delegate=fn)
        for be in (False, True):
            v = Variant(be, 'generated')
            args = {'size_of_input_a': n, 'size_of_input_b': m, 'type': f'MulMode.{mname}', 'big_endian': be}
            c, fails = _call(gname, A.generate_mul, v, args, None, n, m, type=getattr(A.MulMode, mname), big_endian=be)
            out.case(driver, (gname, n, m, be))
            if not fails:
                fails += _check_generated(gname, v, c, [n, m], be, args, 'a*b', lambda a, b: a * b, mul_len(n, m), wide)
            core.add(v, fails)
        core.flush(out)


def _check_generated(fn, v, c, widths, be, args, key, f, want_len, wide):
    net = K.N.snapshot(c)
    if len(net.inputs) != sum(widths):
        return [('value', f'{fn}({args}): {len(net.inputs)} inputs, expected {sum(widths)}', replay(fn, v, args))]
    wf = K.N.wf_violations(net)
    if wf:
        return [('frame-wf', f'{fn}({args}): {wf[:3]}', replay(fn, v, args))]
    ops_le, p = [], 0
    for w in widths:
        ops_le.append(_rev(net.inputs[p:p + w], be))
        p += w
    if wide:
        renv = make_env('random', widths, salt=(fn, be))
        env = K.Env(c, {}, renv.P, renv.mask, ops_le, False, 'generated-random', widths)
        for t, labs in enumerate(ops_le):
            for s, lab in enumerate(labs):
                env.in_vecs[lab] = renv.in_vecs[renv.ops[t][s]]
    else:
        env = K.env_for_generated(c, ops_le)
    vals = K.simulate(net, env.in_vecs, env.mask)
    env.op_vecs = [[vals[l] for l in o] for o in env.ops]
    exp = K.expected_vectors(env, key, f)
    return _value_and_length(fn, v, env, vals, _rev(net.outputs, be), exp, want_len, args, None, key)


def _sq_cases(out, driver, n, modes, funcs, wide=False):
    A = _A()
    for fn in funcs:
        core = _wide_core(fn, _width_token(n), wide and fn == 'add_square' and sq_odd_split(n))
        for mode in modes:
            for be in (False, True):
                v = Variant(be, mode)
                env = make_env(mode, [n], salt=(fn, be))
                fr = Frame(env)
                la = _rev(env.ops[0], be)
                args = {'len(a)': n, 'big_endian': be} if wide else {'input_labels': la, 'big_endian': be}
                res, fails = _call(fn, getattr(A, fn), v, args, fr, env.circuit, list(la), big_endian=be)
                out.case(driver, (fn, n, mode, be), nontrivial=n > 1,
                         sample={'function': fn, 'n': n, 'big_endian': be, 'operands': mode} if n in (3, 48) and not be else None)
                if not fails:
                    fails += fr.failures(fn, v, args)
                    if fr.vals is not None:
                        exp = K.expected_vectors(env, 'a*a', lambda a: a * a)
                        fails += _value_and_length(fn, v, env, fr.vals, _rev(res, be), exp, sq_len(n), args, fr, 'a^2')
                core.add(v, fails)
        core.flush(out)
    for mname, fn in SQ_MODE_TO_FUNC.items():
        if fn not in funcs:
            continue
        gname = f'generate_square[{mname}]'
        core = _wide_core(gname, _width_token(n), wide and fn == 'add_square' and sq_odd_split(n), delegate=fn)
        for be in (False, True):
            v = Variant(be, 'generated')
            args = {'number_inputs': n, 'type': f'SquareMode.{mname}', 'big_endian': be}
            c, fails = _call(gname, A.generate_square, v, args, None, n, type=getattr(A.SquareMode, mname), big_endian=be)
            out.case(driver, (gname, n, be), nontrivial=n > 1)
            if not fails:
                fails += _check_generated(gname, v, c, [n], be, args, 'a*a', lambda a: a * a, sq_len(n), wide)
            core.add(v, fails)
        core.flush(out)


def task_mul(out, n, m, modes):
    _mul_cases(out, D_MUL, n, m, modes, MUL_FUNCS)


def task_sq(out, n, modes):
    _sq_cases(out, D_SQ, n, modes, SQ_FUNCS)


def task_wide_mul(out, n, m, funcs):
    _mul_cases(out, D_WIDE, n, m, ['random'], funcs, wide=True)


def task_wide_sq(out, n, funcs):
    _sq_cases(out, D_WIDE, n, ['random'], funcs, wide=True)


def run_bounded(rep, quick):
    W = 10 if quick else 16
    wa = 6 if quick else 8
    rep.bounded_driver(D_MUL, f'7 add_mul* forms and generate_mul for the 6 MulMode values on all width pairs n+m <= {W}, all 2^(n+m) operand values '
                       'bit-parallel, both endiannesses, operands = primary inputs / internal gates of a bijective host / arbitrary nodes of random hosts (n+m <= 6); '
                       f'n+m <= {wa}: adversarial hosts (gates of all 14 binary types over the first two bit positions of the operands, both operand orders) and add_mul called twice ((b, a) then (a, b), both results checked); '
                       'value a*b, result length, frame clauses' + ('; plus the thin shapes (2,11),(2,12),(11,2),(3,11),(1,13),(13,1) on primary inputs' if quick else ''),
                       f'n+m <= {W} exhaustive values', exhaustive=True)
    rep.bounded_driver(D_SQ, f'add_square, add_square_pow2_m1, generate_square (2 modes), all n <= {W}, all operand values, both endiannesses, '
                       'operands inputs / host gates / random host nodes (n <= 6); value a^2, length 2n (1 for n=1), frame clauses',
                       f'n <= {W} exhaustive values', exhaustive=True)
    rep.bounded_driver(D_WIDE, 'widths reaching the Karatsuba recursion / squarer split: ' +
                       ('mul (18,18),(20,20),(21,21),(23,22),(21,11),(40,40) both Karatsuba forms + generate_mul[KARATSUBA]; squares n = 48, 50, 53, 54 add_square + generate_square[DEFAULT]' if quick else
                        'mul (18,18) all forms; (20,20),(21,20),(20,21),(21,21),(23,22),(21,11),(25,25),(37,37),(18,5),(20,1),(1,20),(24,25),(40,40) Karatsuba forms + generate_mul; thin shapes (2,20),(20,2),(3,28),(28,3),(4,30),(5,33),(2,40) all forms; squares n = 48, 49, 50, 53, 54, 64 both forms + generate_square')
                       + '; 256 patterns in one bit-parallel batch = the 49 pairs of corner operand values (0, 1, all ones, 2^(n-1), 2^n-2, 0xAA.., 0x55..) then seeded random operands, both endiannesses; '
                       'shapes whose recursion splits an odd size are classified wide-odd-split', '256 patterns per circuit', exhaustive=False)
    tasks = []
    for n in range(1, W):
        for m in range(1, W - n + 1):
            modes = ['bare', 'host'] + (['hostrand'] if n + m <= 6 else []) + (K.ADV_MODES if n + m <= wa else [])
            tasks.append(('task_mul', (n, m, modes)))
    if quick:   # thin shapes beyond the quick width bound (cheap; the long-by-short shapes stress the row reductions)
        for n, m in ((2, 11), (2, 12), (11, 2), (3, 11), (1, 13), (13, 1)):
            tasks.append(('task_mul', (n, m, ['bare'])))
    for n in range(1, W + 1):
        modes = ['bare', 'host'] + (['hostrand'] if n <= 6 else [])
        tasks.append(('task_sq', (n, modes)))
    kar = KAR_FUNCS
    if quick:
        # the recursing forms only; shapes without an odd split first ((18,18), (20,20), n = 48, 53), then shapes whose
        # recursion splits an odd size: 21, 23, 21 (short operand padded), 40 -> inner 21; squares 50 -> 25, 54 -> 27
        for n, m in ((18, 18), (20, 20), (21, 21), (23, 22), (21, 11), (40, 40)):
            tasks.append(('task_wide_mul', (n, m, kar)))
        for n in (48, 50, 53, 54):
            tasks.append(('task_wide_sq', (n, ['add_square'])))
    else:
        tasks.append(('task_wide_mul', (18, 18, MUL_FUNCS)))
        for n, m in ((20, 20), (21, 20), (20, 21), (21, 21), (23, 22), (21, 11), (25, 25), (37, 37), (18, 5), (20, 1), (1, 20), (24, 25), (40, 40)):
            tasks.append(('task_wide_mul', (n, m, kar)))
        for n, m in ((2, 20), (20, 2), (3, 28), (28, 3), (4, 30), (5, 33), (2, 40)):   # thin shapes, every form
            tasks.append(('task_wide_mul', (n, m, MUL_FUNCS)))
        for n in (48, 49, 50, 53, 54, 64):
            tasks.append(('task_wide_sq', (n, SQ_FUNCS)))
    K.run_tasks(rep, PROP, __name__, tasks, quick)

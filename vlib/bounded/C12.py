"""C12 bounded stand-in: all function representations answer every protocol query alike and correctly.

For every function f: {0,1}^n -> {0,1}^m of the bounded space (given as a table rows[o][j], j the canonical big-endian index)
three real objects are built - a Circuit (DNF-style netlist built here, checked with den() of vlib/spec to compute f),
a TruthTable and a PyFunction (callable doing a table lookup, fresh list each call) - and every query of the Function
protocol with every index argument is compared with a reference definition written from the docstrings of
boolean_function.py:
   evaluate / evaluate_at / get_truth_table           rows
   is_constant(_at)                                   every output row constant
   is_monotone(_at)(inverse)                          row never decreases (never increases if inverse) along j = 0..2^n-1
   is_symmetric(_at)                                  row constant on every Hamming-weight class
   is_dependent_on_input_at(o, i)                     two inputs differing only at i with different output o
   is_output_equal_to_input(_negation)(o, i)          row o equals (the negation of) input column i
   get_significant_inputs_of(o)                       sorted list of the i with dependence
   find_negations_to_make_symmetric(S)                by definition: a returned vector neg makes x -> f(x xor neg)|S symmetric; None only if no vector does
   input_size / output_size
Further: PyFunction around callables that return their argument object; model completion (TruthTableModel.define,
PyFunctionModel.define, Function.define); from_int_unary_func / from_int_binary_func bit order; core/utils index functions.
Agreement of the three representations is a corollary of each being equal to the definition.
"""
import itertools

from .. import env
from ..spec import net as N
from . import _misc_common as M

NAME = 'protocol-queries-vs-definitions'
NAME_ALIAS = 'pyfunction-callable-returns-argument'
NAME_MODEL = 'model-completion'
NAME_INT = 'integer-function-wrappers'
NAME_UTIL = 'canonical-index-utils'


# ------------------------------------------------------------------------------ reference ----
def idx_of(x):
    n = len(x)
    return sum(1 << (n - 1 - i) for i, b in enumerate(x) if b)


def inputs_of(n):
    return [tuple(x) for x in N.assignments(n)]


class Ref:
    def __init__(self, n, rows):
        self.n, self.m, self.rows = n, len(rows), [list(map(bool, r)) for r in rows]
        self.X = inputs_of(n)

    def evaluate(self, x):
        return [r[idx_of(x)] for r in self.rows]

    def is_constant_at(self, o):
        return len(set(self.rows[o])) == 1

    def is_constant(self):
        return all(self.is_constant_at(o) for o in range(self.m))

    def is_monotone_at(self, o, inverse):
        r = self.rows[o]
        if inverse:
            return all(r[j] >= r[j + 1] for j in range(len(r) - 1))
        return all(r[j] <= r[j + 1] for j in range(len(r) - 1))

    def is_monotone(self, inverse):
        return all(self.is_monotone_at(o, inverse) for o in range(self.m))

    def sym_under(self, outs, neg):
        for k in range(self.n + 1):
            seen = set()
            for x in self.X:
                if sum(x) == k:
                    y = tuple(b != ng for b, ng in zip(x, neg))
                    j = idx_of(y)
                    seen.add(tuple(self.rows[o][j] for o in outs))
            if len(seen) > 1:
                return False
        return True

    def is_symmetric_at(self, o):
        return self.sym_under([o], [False] * self.n)

    def is_symmetric(self):
        return all(self.is_symmetric_at(o) for o in range(self.m))

    def depends(self, o, i):
        for x in self.X:
            if not x[i]:
                y = x[:i] + (True,) + x[i + 1:]
                if self.rows[o][idx_of(x)] != self.rows[o][idx_of(y)]:
                    return True
        return False

    def equal_input(self, o, i, negated):
        return all(self.rows[o][idx_of(x)] == (x[i] != negated) for x in self.X)

    def significant(self, o):
        return [i for i in range(self.n) if self.depends(o, i)]

    def some_negation(self, outs):
        return any(self.sym_under(outs, neg) for neg in itertools.product((False, True), repeat=self.n))


# --------------------------------------------------------------------------- representations ----
def circuit_net(n, rows):
    """DNF-style netlist for the table; an output that equals an input column is that input itself."""
    ins = [f'x{i}' for i in range(n)]
    gates = {x: ('INPUT', ()) for x in ins}
    X = inputs_of(n)
    outs = []
    for o, row in enumerate(rows):
        row = list(row)
        direct = [i for i in range(n) if all(row[j] == X[j][i] for j in range(len(X)))]
        if direct and o % 2 == 0:
            outs.append(ins[direct[0]])
            continue
        ones = [j for j, v in enumerate(row) if v]
        if not ones or len(ones) == len(row):
            gates[f'k{o}'] = ('ALWAYS_TRUE' if ones else 'ALWAYS_FALSE', ())
            outs.append(f'k{o}')
            continue
        terms = []
        for j in ones:
            lits = []
            for i in range(n):
                if X[j][i]:
                    lits.append(ins[i])
                else:
                    gates.setdefault(f'nx{i}', ('NOT', (ins[i],)))
                    lits.append(f'nx{i}')
            if len(lits) == 1:
                terms.append(lits[0])
            else:
                gates[f'm{o}_{j}'] = ('AND', tuple(lits))
                terms.append(f'm{o}_{j}')
        if len(terms) == 1:
            if gates[terms[0]][0] == 'INPUT':
                gates[f'y{o}'] = ('IFF', (terms[0],))
                outs.append(f'y{o}')
            else:
                outs.append(terms[0])
        else:
            gates[f'y{o}'] = ('OR', tuple(terms))
            outs.append(f'y{o}')
    return N.Net(ins, outs, gates)


def table_callable(n, rows):
    rows = [list(map(bool, r)) for r in rows]

    def f(x):
        j = sum(1 << (n - 1 - i) for i, b in enumerate(x) if b)
        return [r[j] for r in rows]
    return f


def build_reps(acc, n, rows):
    from cirbo.core.truth_table import TruthTable
    from cirbo.core.python_function import PyFunction
    reps = {}
    rp = {'n': n, 'rows': [[int(v) for v in r] for r in rows]}
    try:
        net = circuit_net(n, rows)
        if N.tt(net) != [list(map(bool, r)) for r in rows]:
            acc.note('driver_internal_error', f'circuit_net does not compute {rows}')
        else:
            reps['Circuit'] = N.build(net)
            rp['circuit_netlist'] = net.to_json()
    except Exception as e:
        acc.violation('C12/Circuit/construct', 'raises-' + type(e).__name__, M.exc_str(e), rp)
    try:
        reps['TruthTable'] = TruthTable([list(r) for r in rows])
    except Exception as e:
        acc.violation('C12/TruthTable.__init__/construct', wclass(n) + '/raises-' + type(e).__name__, M.exc_str(e), rp)
    try:
        reps['PyFunction'] = PyFunction(table_callable(n, rows), n)
    except Exception as e:
        acc.violation('C12/PyFunction.__init__/construct', wclass(n) + '/raises-' + type(e).__name__, M.exc_str(e), rp)
    return reps, rp


def wclass(n):
    return 'input-size-0' if n == 0 else 'any-function'


_EMPTY_INDEX_BROKEN = None


def empty_index_broken():
    """Does input_to_canonical_index([]) fail?  (root cause of every TruthTable failure with zero inputs)"""
    global _EMPTY_INDEX_BROKEN
    if _EMPTY_INDEX_BROKEN is None:
        from cirbo.core.utils import input_to_canonical_index
        try:
            _EMPTY_INDEX_BROKEN = input_to_canonical_index([]) != 0
        except Exception:
            _EMPTY_INDEX_BROKEN = True
    return _EMPTY_INDEX_BROKEN


def queries(ref):
    """(method name, args tuple, kwargs, expected value or checker)"""
    n, m = ref.n, ref.m
    q = []
    for x in ref.X:
        q.append(('evaluate', (list(x),), {}, ('seq', ref.evaluate(x))))
        for o in range(m):
            q.append(('evaluate_at', (list(x), o), {}, ('bool', ref.rows[o][idx_of(x)])))
    q.append(('get_truth_table', (), {}, ('table', ref.rows)))
    q.append(('is_constant', (), {}, ('bool', ref.is_constant())))
    q.append(('is_symmetric', (), {}, ('bool', ref.is_symmetric())))
    for inv in (False, True):
        q.append(('is_monotone', (), {'inverse': inv}, ('bool', ref.is_monotone(inv))))
    q.append(('is_monotone', (), {}, ('bool', ref.is_monotone(False))))
    for o in range(m):
        q.append(('is_constant_at', (o,), {}, ('bool', ref.is_constant_at(o))))
        q.append(('is_symmetric_at', (o,), {}, ('bool', ref.is_symmetric_at(o))))
        q.append(('is_monotone_at', (o,), {}, ('bool', ref.is_monotone_at(o, False))))
        for inv in (False, True):
            q.append(('is_monotone_at', (o,), {'inverse': inv}, ('bool', ref.is_monotone_at(o, inv))))
        q.append(('get_significant_inputs_of', (o,), {}, ('seq', ref.significant(o))))
        for i in range(n):
            q.append(('is_dependent_on_input_at', (o, i), {}, ('bool', ref.depends(o, i))))
            q.append(('is_output_equal_to_input', (o, i), {}, ('bool', ref.equal_input(o, i, False))))
            q.append(('is_output_equal_to_input_negation', (o, i), {}, ('bool', ref.equal_input(o, i, True))))
    subsets = [list(s) for k in range(0, m + 1) for s in itertools.combinations(range(m), k)]
    if m >= 2:
        subsets.append([m - 1, 0])
    for s in subsets:
        q.append(('find_negations_to_make_symmetric', (s,), {}, ('negations', s)))
    return q


def judge(ref, kind, want, got):
    """None if the answer is right, else a description."""
    if kind == 'bool':
        if not isinstance(got, bool) or got != want:
            return f'returned {got!r}, definition gives {want!r}'
    elif kind == 'seq':
        try:
            g = list(got)
        except Exception:
            return f'returned {got!r}, definition gives {want!r}'
        if g != list(want) or any(not isinstance(v, (bool, int)) for v in g):
            return f'returned {got!r}, definition gives {want!r}'
    elif kind == 'table':
        try:
            g = [list(r) for r in got]
        except Exception:
            return f'returned {got!r}'
        if g != [list(r) for r in want]:
            return f'returned {g!r}, definition gives {want!r}'
    elif kind == 'negations':
        outs = want
        if got is None:
            if ref.some_negation(outs):
                neg = next(ng for ng in itertools.product((False, True), repeat=ref.n) if ref.sym_under(outs, ng))
                return f'returned None although negations {list(neg)} make outputs {outs} symmetric'
        else:
            try:
                g = list(got)
            except Exception:
                return f'returned {got!r}'
            if len(g) != ref.n or any(not isinstance(v, bool) for v in g):
                return f'returned {got!r}: not a vector of {ref.n} booleans'
            if not ref.sym_under(outs, g):
                return f'returned {g} but outputs {outs} are not symmetric under these negations'
    return None


def check_function(acc, n, rows, driver=NAME):
    ref = Ref(n, rows)
    reps, rp = build_reps(acc, n, rows)
    nontriv = n > 0 and not ref.is_constant()
    for cname, obj in reps.items():
        try:
            if obj.input_size != n or obj.output_size != ref.m:
                acc.violation(f'C12/{cname}.input_size+output_size/equals-definition', wclass(n), f'{obj.input_size}x{obj.output_size} instead of {n}x{ref.m}', rp)
        except Exception as e:
            acc.violation(f'C12/{cname}.input_size+output_size/equals-definition', wclass(n) + '/raises-' + type(e).__name__, M.exc_str(e), rp)
        for meth, args, kwargs, (kind, want) in queries(ref):
            acc.case(driver, key=(cname, n, tuple(map(tuple, ref.rows)), meth, repr(args), repr(kwargs)), nontrivial=nontriv,
                     sample=dict(rp, representation=cname, query=meth, args=repr(args)) if nontriv and meth == 'is_monotone' else None)
            call = f'{cname}.{meth}({", ".join([repr(a) for a in args] + [f"{k}={v!r}" for k, v in kwargs.items()])})'
            try:
                got = getattr(obj, meth)(*[list(a) if isinstance(a, list) else a for a in args], **kwargs)
            except Exception as e:
                if n == 0 and cname == 'TruthTable' and isinstance(e, ValueError) and empty_index_broken():
                    acc.violation('C12/input_to_canonical_index/defined-on-empty-input', 'input-size-0',
                                  f'input_to_canonical_index([]) raises, so a TruthTable with zero inputs cannot be queried: {call} -> {M.exc_str(e)}',
                                  dict(rp, call=call, reproduce='from cirbo.core.truth_table import TruthTable; TruthTable([[True]]).evaluate([])'))
                else:
                    acc.violation(f'C12/{cname}.{meth}/equals-definition', wclass(n) + '/raises-' + type(e).__name__, f'{call} raised {M.exc_str(e)}', dict(rp, call=call))
                continue
            prob = judge(ref, kind, want, got)
            if prob:
                acc.violation(f'C12/{cname}.{meth}/equals-definition', wclass(n), f'{call} on rows {rp["rows"]}: {prob}', dict(rp, call=call, observed=repr(got)))


# ----------------------------------------------------------------------- aliasing callables ----
def check_alias(acc, quick):
    """PyFunction around callables that hand back their own argument object (identity and a projection-free
    permutation done in place would be exotic; the identity is what a user writes as `lambda x: x`)."""
    from cirbo.core.python_function import PyFunction
    for n in (1, 2, 3):
        X = inputs_of(n)
        rows = [[x[o] for x in X] for o in range(n)]
        ref = Ref(n, rows)
        for variant in ('lambda x: x', 'lambda x: x (output_size given)'):
            try:
                obj = PyFunction(lambda x: x, n) if variant == 'lambda x: x' else PyFunction(lambda x: x, n, output_size=n)
            except Exception as e:
                acc.violation('C12/PyFunction.__init__/construct', 'callable-returns-argument/raises-' + type(e).__name__, M.exc_str(e), {'n': n})
                continue
            rp = {'n': n, 'callable': 'lambda x: x', 'construct': f'PyFunction(lambda x: x, {n})', 'rows': [[int(v) for v in r] for r in rows]}
            for meth, args, kwargs, (kind, want) in queries(ref):
                acc.case(NAME_ALIAS, key=(n, variant, meth, repr(args), repr(kwargs)), nontrivial=True, sample=dict(rp, query=meth) if meth == 'is_symmetric' else None)
                call = f'PyFunction(lambda x: x, {n}).{meth}({", ".join([repr(a) for a in args] + [f"{k}={v!r}" for k, v in kwargs.items()])})'
                try:
                    got = getattr(obj, meth)(*[list(a) if isinstance(a, list) else a for a in args], **kwargs)
                    if kind == 'seq' and meth == 'evaluate':
                        got = list(got)
                except Exception as e:
                    acc.violation(f'C12/PyFunction.{meth}/equals-definition', 'callable-returns-argument/raises-' + type(e).__name__, f'{call} raised {M.exc_str(e)}', dict(rp, call=call))
                    continue
                prob = judge(ref, kind, want, got)
                if prob:
                    # only report what aliasing adds: the same query on a PyFunction whose callable returns a fresh list
                    # must be right (a defect that shows without aliasing is reported by the main driver)
                    try:
                        plain = PyFunction(table_callable(n, rows), n)
                        got2 = getattr(plain, meth)(*[list(a) if isinstance(a, list) else a for a in args], **kwargs)
                        alias_specific = judge(ref, kind, want, got2) is None
                    except Exception:
                        alias_specific = False
                    if alias_specific:
                        acc.violation(f'C12/PyFunction.{meth}/equals-definition', 'callable-returns-argument', f'{call}: {prob}', dict(rp, call=call, observed=repr(got)))


# --------------------------------------------------------------------------- model completion ----
def tri_tables(n, m, r, limit):
    cells = m * (1 << n)
    total = 3 ** cells
    if total <= limit:
        for flat in itertools.product((False, True, None), repeat=cells):
            yield [list(flat[o * (1 << n):(o + 1) * (1 << n)]) for o in range(m)]
    else:
        for _ in range(limit):
            flat = [r.choice((False, True, None)) for _c in range(cells)]
            yield [list(flat[o * (1 << n):(o + 1) * (1 << n)]) for o in range(m)]


def check_models(acc, quick):
    from cirbo.core.truth_table import TruthTableModel, TruthTable
    from cirbo.core.python_function import PyFunctionModel, PyFunction
    from cirbo.core.logic import DontCare
    from cirbo.core.exceptions import BadDefinitionError
    r = M.rng('C12', 'models')

    def conv(v):
        return DontCare if v is None else v

    def is_dc(v):
        return v is DontCare or isinstance(v, type(DontCare))

    def same_tri(got, want):
        return (want is None and is_dc(got)) or (want is not None and isinstance(got, bool) and got == want)

    for n, m, limit in ((0, 1, 10), (0, 2, 10), (1, 1, 10), (1, 2, 100), (2, 1, 100), (2, 2, 60 if quick else 1500), (3, 1, 40 if quick else 1000)):
        X = inputs_of(n)
        for t3 in tri_tables(n, m, r, limit):
            dcs = [(o, j) for o in range(m) for j in range(1 << n) if t3[o][j] is None]
            rp = {'n': n, 'model_rows': [['*' if v is None else int(v) for v in row] for row in t3]}
            models = {}
            try:
                models['TruthTableModel'] = TruthTableModel([[conv(v) for v in row] for row in t3])
                if r.random() < 0.3:
                    models['TruthTableModel'] = TruthTableModel([''.join('*' if v is None else str(int(v)) for v in row) for row in t3])
                    rp['constructed_from'] = 'strings'
            except Exception as e:
                acc.violation('C12/TruthTableModel.__init__/construct', wclass(n) + '/raises-' + type(e).__name__, M.exc_str(e), rp)

            def mk(t3=t3, n=n):
                def f(x):
                    j = sum(1 << (n - 1 - i) for i, b in enumerate(x) if b)
                    return [conv(row[j]) for row in t3]
                return f
            try:
                models['PyFunctionModel'] = PyFunctionModel(mk(), n)
            except Exception as e:
                acc.violation('C12/PyFunctionModel.__init__/construct', wclass(n) + '/raises-' + type(e).__name__, M.exc_str(e), rp)
            for cname, mod in models.items():
                acc.case(NAME_MODEL, key=(cname, n, m, repr(t3)), nontrivial=bool(dcs) and n > 0, sample=dict(rp, model_class=cname) if dcs and n > 0 else None)
                # the model itself
                try:
                    bad = None
                    if mod.input_size != n or mod.output_size != m:
                        bad = f'sizes {mod.input_size}x{mod.output_size}'
                    mt = mod.get_model_truth_table()
                    if bad is None and not (len(mt) == m and all(len(mt[o]) == 1 << n and all(same_tri(mt[o][j], t3[o][j]) for j in range(1 << n)) for o in range(m))):
                        bad = f'get_model_truth_table() = {mt!r}'
                    for x in X:
                        if bad:
                            break
                        ch = list(mod.check(list(x)))
                        if not (len(ch) == m and all(same_tri(ch[o], t3[o][idx_of(x)]) for o in range(m))):
                            bad = f'check({list(x)}) = {ch!r}'
                        for o in range(m):
                            if not same_tri(mod.check_at(list(x), o), t3[o][idx_of(x)]):
                                bad = bad or f'check_at({list(x)}, {o}) = {mod.check_at(list(x), o)!r}'
                    if bad:
                        acc.violation(f'C12/{cname}.check+get_model_truth_table/equals-model', wclass(n), bad, rp)
                except Exception as e:
                    if n == 0 and cname == 'TruthTableModel' and isinstance(e, ValueError) and empty_index_broken():
                        acc.violation('C12/input_to_canonical_index/defined-on-empty-input', 'input-size-0', f'{cname} with zero inputs: {M.exc_str(e)}', rp)
                    else:
                        acc.violation(f'C12/{cname}.check+get_model_truth_table/equals-model', wclass(n) + '/raises-' + type(e).__name__, M.exc_str(e), rp)
                # completion
                combos = list(itertools.product((False, True), repeat=len(dcs))) if len(dcs) <= 3 else [tuple(r.random() < 0.5 for _ in dcs) for _k in range(4)]
                for comp in combos:
                    exact = {(X[j], o): v for (o, j), v in zip(dcs, comp)}
                    want = [[(exact[(X[j], o)] if t3[o][j] is None else t3[o][j]) for j in range(1 << n)] for o in range(m)]
                    # an over-complete definition also names entries the model already fixes (with the opposite value)
                    over = dict(exact)
                    fixed = [(o, j) for o in range(m) for j in range(1 << n) if t3[o][j] is not None]
                    for (o, j) in fixed[:2]:
                        over[(X[j], o)] = not t3[o][j]
                    for dname, definition in (('exact-definition', exact), ('definition-also-names-defined-entries', over)):
                        if dname != 'exact-definition' and (not fixed):
                            continue
                        drp = dict(rp, model_class=cname, definition=[[list(map(int, k[0])), k[1], int(v)] for k, v in definition.items()], expected_rows=[[int(v) for v in row] for row in want])
                        wc = wclass(n) if dname == 'exact-definition' else dname
                        acc.case(NAME_MODEL, key=(cname, n, m, repr(t3), comp, dname), nontrivial=bool(dcs) and n > 0)
                        try:
                            fn = mod.define(definition)
                            got = [[fn.evaluate(list(x))[o] for x in X] for o in range(m)]
                            at = [[fn.evaluate_at(list(x), o) for x in X] for o in range(m)]
                            if got != want or at != want:
                                where = 'an entry the model defines' if any(t3[o][j] is not None and got[o][j] != t3[o][j] for o in range(m) for j in range(1 << n)) else 'a don\'t-care entry'
                                acc.violation(f'C12/{cname}.define/agrees-with-model-and-definition', wc, f'completed function has rows {got}, expected {want} (differs at {where})', drp)
                        except Exception as e:
                            if n == 0 and cname == 'TruthTableModel' and isinstance(e, ValueError) and empty_index_broken():
                                acc.violation('C12/input_to_canonical_index/defined-on-empty-input', 'input-size-0', f'{cname}.define with zero inputs: {M.exc_str(e)}', drp)
                            else:
                                acc.violation(f'C12/{cname}.define/agrees-with-model-and-definition', wc + '/raises-' + type(e).__name__, M.exc_str(e), drp)
    # Function.define of fully defined functions
    for n, rows in ((1, [[False, True]]), (2, [[False, True, True, False], [True, True, False, True]]), (2, [[False, False, False, True]])):
        ref = Ref(n, rows)
        acc2 = M.Acc()
        reps, rp = build_reps(acc2, n, rows)
        for cname, obj in reps.items():
            acc.case(NAME_MODEL, key=('Function.define', cname, n, repr(rows)), nontrivial=True)
            try:
                fn = obj.define({})
                got = [list(r) for r in fn.get_truth_table()]
                if got != ref.rows:
                    acc.violation(f'C12/{cname}.define/agrees-with-model-and-definition', 'fully-defined-function', f'define({{}}) changes the function: {got}', rp)
            except Exception as e:
                acc.violation(f'C12/{cname}.define/agrees-with-model-and-definition', 'fully-defined-function/raises-' + type(e).__name__, M.exc_str(e), rp)
            try:
                x0 = ref.X[0]
                fn = obj.define({(x0, 0): not ref.rows[0][0]})
                got = [list(r) for r in fn.get_truth_table()]
                if got != ref.rows:
                    acc.violation(f'C12/{cname}.define/agrees-with-model-and-definition', 'definition-also-names-defined-entries',
                                  f'define() of a fully defined function overrode a defined entry: {got}', rp)
            except BadDefinitionError:
                pass
            except Exception as e:
                acc.violation(f'C12/{cname}.define/agrees-with-model-and-definition', 'fully-defined-function/raises-' + type(e).__name__, M.exc_str(e), rp)


# ------------------------------------------------------------------------- integer wrappers ----
def enc(v, width, big_endian):
    bits = [bool((v >> k) & 1) for k in range(width)]       # little endian: bit k at position k
    return bits[::-1] if big_endian else bits


def check_int_wrappers(acc, quick):
    from cirbo.core.python_function import PyFunction
    unary = [('identity', lambda a, w: a % (1 << w)), ('plus1', lambda a, w: (a + 1) % (1 << w)), ('times3', lambda a, w: (a * 3) % (1 << w)),
             ('half', lambda a, w: (a >> 1) % (1 << w)), ('const5', lambda a, w: 5 % (1 << w)), ('complement', lambda a, w: ((1 << w) - 1 - a) % (1 << w))]
    binary = [('add', lambda a, b, w: (a + b) % (1 << w)), ('mul', lambda a, b, w: (a * b) % (1 << w)), ('sub', lambda a, b, w: (a - b) % (1 << w)),
              ('first', lambda a, b, w: a % (1 << w)), ('second', lambda a, b, w: b % (1 << w)), ('shift', lambda a, b, w: (a << 1 | (b & 1)) % (1 << w))]
    for big in (False, True):
        for wi in (1, 2, 3):
            for wo in (1, 2, 3, 4, 5):
                for fname, f in unary:
                    rp = {'wrapper': 'from_int_unary_func', 'function': fname, 'input_int_len': wi, 'output_int_len': wo, 'big_endian': big}
                    acc.case(NAME_INT, key=('u', fname, wi, wo, big), nontrivial=True, sample=rp)
                    try:
                        pf = PyFunction.from_int_unary_func(lambda a, f=f, wo=wo: f(a, wo), wi, wo, big_endian=big) if big else \
                            (PyFunction.from_int_unary_func(lambda a, f=f, wo=wo: f(a, wo), wi, wo) if wi % 2 else PyFunction.from_int_unary_func(lambda a, f=f, wo=wo: f(a, wo), wi, wo, False))
                        if pf.input_size != wi or pf.output_size != wo:
                            acc.violation('C12/PyFunction.from_int_unary_func/sizes', 'unary-wrapper', f'{pf.input_size}x{pf.output_size} instead of {wi}x{wo}', rp)
                        for a in range(1 << wi):
                            got = list(pf.evaluate(enc(a, wi, big)))
                            want = enc(f(a, wo), wo, big)
                            if got != want:
                                acc.violation('C12/PyFunction.from_int_unary_func/bit-order', 'big-endian' if big else 'little-endian',
                                              f'{fname}({a}) = {f(a, wo)}: bits {got} instead of {want}', dict(rp, argument=a, observed=got, expected=want))
                                break
                    except Exception as e:
                        acc.violation('C12/PyFunction.from_int_unary_func/bit-order', ('big-endian' if big else 'little-endian') + '/raises-' + type(e).__name__, M.exc_str(e), rp)
                if wi > 2 and quick and wo > 3:
                    continue
                for fname, f in binary:
                    rp = {'wrapper': 'from_int_binary_func', 'function': fname, 'input_int_len': wi, 'output_int_len': wo, 'big_endian': big}
                    acc.case(NAME_INT, key=('b', fname, wi, wo, big), nontrivial=True)
                    try:
                        pf = PyFunction.from_int_binary_func(lambda a, b, f=f, wo=wo: f(a, b, wo), wi, wo, big_endian=big)
                        if pf.input_size != 2 * wi or pf.output_size != wo:
                            acc.violation('C12/PyFunction.from_int_binary_func/sizes', 'binary-wrapper', f'{pf.input_size}x{pf.output_size} instead of {2 * wi}x{wo}', rp)
                        done = False
                        for a in range(1 << wi):
                            for b in range(1 << wi):
                                got = list(pf.evaluate(enc(a, wi, big) + enc(b, wi, big)))
                                want = enc(f(a, b, wo), wo, big)
                                if got != want:
                                    acc.violation('C12/PyFunction.from_int_binary_func/bit-order', 'big-endian' if big else 'little-endian',
                                                  f'{fname}({a},{b}) = {f(a, b, wo)}: bits {got} instead of {want}', dict(rp, arguments=[a, b], observed=got, expected=want))
                                    done = True
                                    break
                            if done:
                                break
                    except Exception as e:
                        acc.violation('C12/PyFunction.from_int_binary_func/bit-order', ('big-endian' if big else 'little-endian') + '/raises-' + type(e).__name__, M.exc_str(e), rp)


# ------------------------------------------------------------------------------------ utils ----
def check_utils(acc, quick):
    from cirbo.core.utils import input_to_canonical_index, canonical_index_to_input, get_bit_value
    for n in range(0, 6 if quick else 9):
        X = inputs_of(n)
        for j, x in enumerate(X):
            wc = 'input-size-0' if n == 0 else 'any-index'
            rp = {'input_size': n, 'index': j, 'input': [int(b) for b in x]}
            acc.case(NAME_UTIL, key=(n, j), nontrivial=n > 0)
            try:
                got = canonical_index_to_input(j, n)
                if list(got) != list(x) or any(not isinstance(b, bool) for b in got):
                    acc.violation('C12/canonical_index_to_input/is-jth-canonical-input', wc, f'canonical_index_to_input({j}, {n}) = {list(got)!r}, expected {list(x)!r}', rp)
            except Exception as e:
                acc.violation('C12/canonical_index_to_input/is-jth-canonical-input', wc + '/raises-' + type(e).__name__, M.exc_str(e), rp)
            for arg in (list(x), tuple(x), iter(list(x))):
                try:
                    got = input_to_canonical_index(arg)
                    if got != j or isinstance(got, bool):
                        acc.violation('C12/input_to_canonical_index/inverse-of-canonical_index_to_input', wc, f'input_to_canonical_index({list(x)}) = {got!r}, expected {j}', rp)
                except Exception as e:
                    if n == 0:
                        acc.violation('C12/input_to_canonical_index/defined-on-empty-input', 'input-size-0', f'input_to_canonical_index([]) raised {M.exc_str(e)} (expected 0)', rp)
                    else:
                        acc.violation('C12/input_to_canonical_index/inverse-of-canonical_index_to_input', wc + '/raises-' + type(e).__name__, M.exc_str(e), rp)
            for i in range(n):
                try:
                    got = get_bit_value(j, i, n)
                    if got is not x[i]:
                        acc.violation('C12/get_bit_value/is-ith-input-of-index', wc, f'get_bit_value({j}, {i}, {n}) = {got!r}, expected {x[i]!r}', dict(rp, bit_idx=i))
                except Exception as e:
                    acc.violation('C12/get_bit_value/is-ith-input-of-index', wc + '/raises-' + type(e).__name__, M.exc_str(e), dict(rp, bit_idx=i))


# ------------------------------------------------------------------------------------ cases ----
def tables(n, m, lo, hi):
    """Functions number lo..hi-1 (the number's bits are the concatenated rows)."""
    cells = 1 << n
    for code in range(lo, hi):
        yield [[bool((code >> (o * cells + (cells - 1 - j))) & 1) for j in range(cells)] for o in range(m)]


def work(acc, chunk):
    kind = chunk[0]
    if kind == 'functions':
        _, n, m, lo, hi, stride = chunk
        for k, rows in enumerate(tables(n, m, lo, hi)):
            if stride > 1 and k % stride:
                continue
            check_function(acc, n, rows)
    elif kind == 'alias':
        check_alias(acc, chunk[1])
    elif kind == 'models':
        check_models(acc, chunk[1])
    elif kind == 'int':
        check_int_wrappers(acc, chunk[1])
    elif kind == 'utils':
        check_utils(acc, chunk[1])


def run_bounded(rep, quick):
    acc = M.Acc()
    acc.driver(NAME, 'every query of the Function protocol (all index arguments, both inverse flags, all output subsets for find_negations_to_make_symmetric) on the real Circuit, '
                     'TruthTable and PyFunction built for the same table, against reference definitions written from the docstrings of boolean_function.py (monotone = output sequence in '
                     'canonical input order never decreases / never increases); all functions with n<=2 inputs and m<=2 outputs and n=3, m=1 (thorough: also n=3, m=2, all 65536); '
                     'non-trivial = non-constant function with n>=1', 'n<=3, m<=2', exhaustive=not quick)
    acc.driver(NAME_ALIAS, 'the same queries on PyFunction(lambda x: x, n), n=1..3 (callable returns its argument object)', 'n<=3', exhaustive=True)
    acc.driver(NAME_MODEL, 'TruthTableModel / PyFunctionModel: check, check_at, get_model_truth_table equal the three-valued table; define(d) with d exactly the don\'t-care entries '
                           '(all completions if <=3 don\'t-cares else 4 seeded) and with d additionally naming two defined entries with the opposite value; Function.define on the three '
                           'representations; all three-valued tables for n<=1 and n=2,m=1 (sampled beyond)', 'n<=3, m<=2', exhaustive=False)
    acc.driver(NAME_INT, 'from_int_unary_func / from_int_binary_func for 6+6 integer functions, input widths 1..3, output widths 1..5, both endiannesses, all operand values: '
                         'bit k of the result/operand sits at position k (little endian, default) or width-1-k (big endian)', 'widths <=3 / <=5', exhaustive=False)
    acc.driver(NAME_UTIL, 'input_to_canonical_index / canonical_index_to_input / get_bit_value for all input sizes 0..5 (thorough 8) and all indices: mutually inverse and equal to the '
                          'big-endian enumeration of vlib/spec; input size 0 included', 'input_size<=5/8', exhaustive=True)
    chunks = [('utils', quick), ('int', quick), ('alias', quick), ('models', quick)]
    for n in (0, 1, 2):
        for m in (1, 2):
            chunks.append(('functions', n, m, 0, 1 << (m * (1 << n)), 1))
    chunks.append(('functions', 3, 1, 0, 256, 1))
    if quick:
        chunks.append(('functions', 3, 2, 0, 65536, 331))
    else:
        chunks += [('functions', 3, 2, lo, lo + 1024, 1) for lo in range(0, 65536, 1024)]
    empty_index_broken()
    total = M.run_chunks(work, chunks, parallel=not quick)
    acc.merge(total)
    acc.flush(rep)

"""Bounded stand-in driver for C03: simplification passes preserve the function, the interface and their argument.

Every clause is taken from the statement of C03:
  new           the result is a new Circuit object sharing no mutable state with the argument
  inputs        same inputs, same order (a sub-sequence missing only unreachable inputs iff removal was requested)
  outputs       same number (and, through the truth table rows, order) of outputs
  truth-table   identical truth table (read over the kept inputs; dropped inputs must be irrelevant)
  argument      argument circuit unmodified (gates, storage order, users index, inputs, outputs, blocks)
  size          result has no more gates than the argument
  wf            the result is a well-formed circuit (W1..W5, W7 of DESIGN §4)
  returns       the call returns (no exception)
Oracle: vlib.spec.net (snapshot / tt / wf_violations) only.
"""
from ..spec import net as N
from . import _simp_common as C

NAME = 'simplification-passes-vs-spec'
_P = None


def _passes():
    global _P
    if _P is None:
        _P = C.passes()
    return _P


def clause_failures(net, expr, ctx=None):
    """Run one (netlist, pipeline) on the real code; return {clause: (detail, observed, expected)}."""
    P = _passes()
    case = C.Case(net, expr, P, ctx)
    bad = {}
    if case.modified:
        b, a = C.full_state(case.before), C.full_state(case.after)
        what = [n for n, x, y in zip(('inputs', 'outputs', 'gates/storage order', 'users index', 'blocks'), b, a) if x != y]
        bad['argument-unmodified'] = (f'argument circuit changed in: {", ".join(what)}', repr(a)[:600], repr(b)[:600])
    if case.exc is not None:
        bad['returns'] = (f'raised {case.exc}', case.exc, 'a new circuit')
        return bad
    res, r, arg = case.res, case.rsnap, case.before
    # new object, nothing shared
    if res is case.c:
        bad['new-circuit'] = ('the argument object itself was returned', 'result is argument', 'a new Circuit')
    else:
        shared = [f for f in ('_inputs', '_outputs', '_gates', '_gate_to_users', '_blocks') if getattr(res, f) is getattr(case.c, f)]
        shared += [f'_gate_to_users[{k!r}]' for k, v in res._gate_to_users.items() if any(v is w for w in case.c._gate_to_users.values())]
        if shared:
            bad['new-circuit'] = (f'result shares mutable state with the argument: {shared}', shared, 'no sharing')
    # inputs
    removal = 'RRG!' in C.constituents(expr)
    if r.inputs != arg.inputs:
        ok = False
        if removal:
            it = iter(arg.inputs)
            ok = all(any(x == y for y in it) for x in r.inputs) and len(set(r.inputs)) == len(r.inputs)
            if ok and isinstance(expr, str):
                reach = C.reachable(arg)
                dropped = [x for x in arg.inputs if x not in r.inputs]
                if any(x in reach for x in dropped):
                    ok = False
        if not ok:
            bad['inputs'] = (f'inputs {r.inputs}, argument has {arg.inputs} (input removal requested: {removal})', r.inputs, arg.inputs)
    if len(r.outputs) != len(arg.outputs):
        bad['outputs-number'] = (f'{len(r.outputs)} outputs, argument has {len(arg.outputs)}', r.outputs, arg.outputs)
    wf = N.wf_violations(r) + [('arity', g) for g in N.arity(r)]
    if wf:
        bad['wf'] = (f'result is not well-formed: {wf[:3]}', [list(map(str, w)) for w in wf[:5]], 'no violation')
    if 'inputs' not in bad and 'outputs-number' not in bad and not wf:
        diff = C.tt_modulo_inputs(arg, r, case.ctx.arg_tt())
        if diff:
            bad['truth-table'] = (diff, {'tt': [[int(b) for b in row] for row in N.tt(r)], 'inputs': r.inputs},
                                  {'tt': [[int(b) for b in row] for row in N.tt(arg)], 'inputs': arg.inputs})
    if len(r.gates) > len(arg.gates):
        bad['size'] = (f'result has {len(r.gates)} gates, argument {len(arg.gates)}', len(r.gates), len(arg.gates))
    else:
        ni_r = sum(1 for t, _ in r.gates.values() if t != 'INPUT')
        ni_a = sum(1 for t, _ in arg.gates.values() if t != 'INPUT')
        if ni_r > ni_a:
            bad['size'] = (f'result has {ni_r} non-input gates, argument {ni_a}', ni_r, ni_a)
    return bad


_shrunk = {}


def _as_net(snap):
    return N.Net(snap.inputs, snap.outputs, snap.gates)


def attribute(net, expr, clause):
    """Map a pipeline failure to the first constituent pass that shows the same clause failure on the circuit it
    receives under manual sequencing (one root cause -> one finding); otherwise the pipeline itself is blamed."""
    if isinstance(expr, str):
        return expr, net
    cur = net
    P = _passes()
    for b in C.constituents(expr):
        try:
            if clause in clause_failures(cur, b):
                return b, cur
            cur = _as_net(N.snapshot(C.apply_expr(b, N.build(cur), P)))
        except Exception:
            break
    return expr, net


def check(net, pipes):
    out = []
    ctx = C.Ctx(net)
    for expr in pipes:
        bad = clause_failures(net, expr, ctx)
        for clause in bad:
            bexpr, bnet = attribute(net, expr, clause)
            pname = C.expr_name(bexpr)
            obligation = f'C03/{pname}/{clause}'
            k = _shrunk[obligation] = _shrunk.get(obligation, 0) + 1
            if k > 150:
                continue                      # mass failure: the class representatives were already reported
            small = C.shrink(bnet, lambda m: clause in clause_failures(m, bexpr), budget=600 if k <= 12 else 80)
            detail, obs, exp = clause_failures(small, bexpr)[clause]
            out.append((obligation, C.wclass(small),
                        f'{C.expr_str(bexpr)} on {small.to_json()["gates"]} outputs={small.outputs}: {detail}',
                        C.replay(small, bexpr, obs, exp, {'clause': clause, 'found_with_pipeline': C.expr_str(expr),
                                                          'found_on_netlist': net.to_json()})))
    return len(pipes), out


def _check(net, pipes):
    return check(net, pipes)[1]


C.register('C03', _check)


def run_bounded(rep, quick):
    rep.bounded_driver(
        NAME,
        'every pass (RemoveRedundantGates with/without input removal, MergeUnaryOperators, MergeDuplicateGates, MergeEquivalentGates), '
        'cleanup light/heavy and `|`/list/TransformerComposition pipelines of the REAL code on (a) all circuits with <=2 inputs and <=2 gates '
        '(quick: all 18 types for <=1 gate, reduced alphabet AND/XOR3/NOR/GT/LNOT/RIFF/NOT/IFF/TRUE for 2 gates; thorough: all types, arity 2..3, '
        'plus 2 inputs x 3 gates over a reduced alphabet) with 5 output lists each (last, all, dead last gate, repeated, input as output), '
        '(b) seeded random circuits (<=4 inputs, <=8 gates quick / <=10 thorough, n-ary arity 2..4, L*/R* chains, constants with and without '
        'operands, dead logic, unused inputs, no/repeated/input outputs, permuted storage, blocks; one family in seven is parity-heavy: XOR/NXOR '
        'of arity 3..4 with partly repeated operands followed by the same type over the de-duplicated operand set), (c) the targeted family '
        '"repeated operands" for every n-ary type T in AND/OR/XOR/NAND/NOR/NXOR: T(x,x,y), T(x,y), T(x,y,y), T(y,x), T(x,y,x) (and T(x,y,x,y), '
        'T(x,x,x,y), T(x,x), T(x,x,x)) side by side over 2..3 inputs, and two duplicate gates G1, G2 feeding T(G1,G2,c) next to T(G1,c), T(c,G2), '
        'T(G2,c,G1), T(G1,G2), with 8-11 output lists each (all, reversed, ternary/binary pairs in both orders, single outputs with the others '
        'dead, consumers) and reversed storage; clauses: new object, inputs, outputs, '
        'truth table (spec evaluator), argument snapshot unchanged, size, WF; one evaluation = one (circuit, pipeline) pair; '
        'non-trivial = circuit with >=1 non-input gate',
        'K<=2 exhaustive (reduced alphabet in quick); repeated-operand family 504 (quick) / 1296 (thorough) circuits of 5-9 gates; '
        'unary-chain family (chains of 2..6 (quick) / 2..8 (thorough) NOT/LNOT/RNOT/IFF/LIFF/RIFF gates, tapped at the end, at every member and by consumers; 300 / 420 circuits); '
        'random K<=8 (quick) / K<=10 (thorough)', exhaustive=False)
    C.run_chunks(rep, NAME, quick, 'C03', _check)

"""C11 bounded stand-in: bench text round-trips and the parser is faithful.

(R) round trip: for every circuit c of the bounded space (all 18 gate types, n-ary arities 2..4, every storage order
    of small circuits, labels renamed one node at a time to every label of a pool that contains keyword-prefixed
    identifiers): `Circuit.from_bench_string(c.format_circuit())` has the same gates (type, operand order), the same
    input order and the same output order as c (compared on snapshots of the private fields) and the real `==` says so;
    the same through `save_to_file` / `from_bench_file` (temp dir under /tmp, removed afterwards).
(D) denotation: free-form layouts of a netlist (shuffled line order incl. use before definition and late INPUT/OUTPUT
    declarations, lower/mixed-case operator names and keywords, comment lines, blank lines, BUFF and vdd aliases, extra
    blanks, missing final newline) are read by a small reference reader written from the grammar; the circuit the real
    parser builds has the same input list, output list, gate count and truth table (den() of vlib/spec).
"""
import itertools
import os
import re
import shutil
import tempfile

from .. import env
from ..spec import net as N
from ..spec import gen as G
from ..spec import ops as S
from . import _misc_common as M

NAME_R = 'format-parse-roundtrip'
NAME_F = 'save-load-file-roundtrip'
NAME_D = 'free-form-text-vs-reference-reader'

# label pool: (label, class). Classes name the reason a label might be mis-read.
SPECIAL = [('input_sum', 'startswith-input'), ('INPUT1', 'startswith-input'), ('Inputs', 'startswith-input'), ('input', 'startswith-input'),
           ('output1', 'startswith-output'), ('OUTPUT_x', 'startswith-output'), ('Outputs', 'startswith-output'),
           ('vdd', 'vdd-name'), ('VDD1', 'vdd-name'), ('vddx', 'vdd-name'),
           ('buff', 'operator-name'), ('BUFF2', 'operator-name'), ('not', 'operator-name'), ('AND', 'operator-name'), ('xor_1', 'operator-name'),
           ('ALWAYS_TRUE', 'operator-name'), ('in', 'short'), ('out', 'short'), ('o', 'short'), ('I', 'short'),
           ('x.y', 'dotted'), ('n[3]', 'bracketed'), ('_t', 'underscore'), ('a_b_C9', 'plain'), ('gate_0', 'plain'), ('G', 'plain'), ('7', 'numeric'), ('12', 'numeric')]
IDENT = re.compile(r'[A-Za-z_0-9][A-Za-z0-9_.\[\]]*\Z')


# ------------------------------------------------------------------------------ round trip ----
_FAULTY = None


def faulty_types():
    """(type, wide?) whose plain one-gate circuit already fails (a) format+parse, (b) parsing its canonical text: failures of
    bigger circuits / other layouts that contain such a gate are attributed to that gate type (one finding per root cause)."""
    global _FAULTY
    if _FAULTY is None:
        from cirbo.core.circuit import Circuit
        rt, parse = set(), set()
        for base in M.single_gate_nets(max_nary=4):
            net = plain_labels(base)
            t, ops = next(v for v in net.gates.values() if v[0] != 'INPUT')
            key = (t, len(ops) > 2)
            try:
                _text, prob, _f = roundtrip(net)
            except Exception:
                prob = 'raises'
            if prob:
                rt.add(key)
            try:
                got = N.snapshot(Circuit.from_bench_string(render(net, set(), None)))
                if list(got.inputs) != net.inputs or list(got.outputs) != net.outputs or dict(got.gates) != dict(net.gates):
                    parse.add(key)
            except Exception:
                parse.add(key)
        _FAULTY = (rt, parse)
    return _FAULTY


def culprit_witness(net, which):
    hit = sorted((t, len(o) > 2) for t, o in net.gates.values() if (t, len(o) > 2) in faulty_types()[which])
    if hit:
        t, wide = hit[0]
        return f'{t}-nary>2' if wide else f'type-{t}'
    return None


def plain_witness(net):
    cw = culprit_witness(net, 0)
    if cw:
        return cw
    wide = sorted({t for t, o in net.gates.values() if len(o) > 2})
    if wide:
        return f'{wide[0]}-nary>2'
    if any(t in S.CONST for t, _ in net.gates.values()):
        return 'const-gate'
    if not M.is_topological_storage(net):
        return 'storage-order'
    if not net.inputs:
        return 'zero-inputs'
    if not net.outputs:
        return 'no-outputs'
    if len(set(net.outputs)) < len(net.outputs):
        return 'repeated-output'
    if any(o in net.inputs for o in net.outputs):
        return 'output-is-input'
    types = sorted({t for t, _ in net.gates.values() if t != 'INPUT'})
    if len(types) == 1:
        return f'type-{types[0]}'
    return 'plain-circuit'


def compare(net, c2, c):
    """None or a short description of the first difference between the parsed circuit and the netlist."""
    s2 = N.snapshot(c2)
    if list(s2.inputs) != list(net.inputs):
        return f'inputs {s2.inputs} != {net.inputs}'
    if list(s2.outputs) != list(net.outputs):
        return f'outputs {s2.outputs} != {net.outputs}'
    g2 = dict(s2.gates)
    if g2 != dict(net.gates):
        extra = sorted(set(g2) - set(net.gates))
        missing = sorted(set(net.gates) - set(g2))
        diff = sorted(k for k in set(g2) & set(net.gates) if g2[k] != net.gates[k])
        return f'gates differ: unexpected {extra}, missing {missing}, changed {[(k, g2[k], net.gates[k]) for k in diff[:3]]}'
    try:
        if not (c2 == c):
            return 'snapshots agree but Circuit.__eq__ says different'
    except Exception as e:
        return f'Circuit.__eq__ raised {M.exc_str(e)}'
    return None


def roundtrip(net, tmpdir=None, fileno=0):
    """Returns (text, problem) for the string round trip, and the file round trip problem (or None)."""
    from cirbo.core.circuit import Circuit
    c = N.build(net)
    text = c.format_circuit()
    try:
        c2 = Circuit.from_bench_string(text)
        prob = compare(net, c2, c)
    except Exception as e:
        prob = f'from_bench_string raised {M.exc_str(e)}'
    fprob = None
    if tmpdir is not None:
        sub = os.path.join(tmpdir, f'd{fileno}', 'nested') if fileno % 5 == 0 else tmpdir
        path = os.path.join(sub, f'c{fileno}.bench')
        try:
            c.save_to_file(path)
            with open(path) as fh:
                on_disk = fh.read()
            if on_disk != text:
                fprob = 'file content differs from format_circuit()'
            else:
                c3 = Circuit.from_bench_file(path)
                fprob = compare(net, c3, c)
        except Exception as e:
            fprob = f'save_to_file/from_bench_file raised {M.exc_str(e)}'
    return text, prob, fprob


def do_roundtrip(acc, net, witness_fn, tmpdir, counter, sample_ok=True):
    try:
        text, prob, fprob = roundtrip(net, tmpdir, counter[0])
    except Exception as e:
        acc.violation('C11/format_circuit/no-exception', witness_fn(net), M.exc_str(e), {'netlist': net.to_json()})
        return False
    counter[0] += 1
    nontriv = len(net.gates) > len(net.inputs)
    acc.case(NAME_R, key=net.key(), nontrivial=nontriv, sample={'netlist': net.to_json(), 'text': text} if nontriv else None)
    if prob:
        acc.violation('C11/from_bench_string/roundtrip', witness_fn(net), f'{prob}; text: {text!r}',
                      {'kind': 'bounded', 'netlist': net.to_json(), 'formatted_text': text, 'difference': prob,
                       'reproduce': 'c = vlib.spec.net.build(Net.from_json(netlist)); Circuit.from_bench_string(c.format_circuit()) == c'})
    if tmpdir is not None:
        acc.case(NAME_F, key=net.key(), nontrivial=nontriv)
        if fprob and not prob:
            acc.violation('C11/from_bench_file/roundtrip', witness_fn(net), f'{fprob}; text: {text!r}',
                          {'kind': 'bounded', 'netlist': net.to_json(), 'formatted_text': text, 'difference': fprob})
    return not prob


def relabel_cases(net):
    """Rename one node at a time to each pool label -> (renamed net, witness class)."""
    for node in net.gates:
        role = 'input' if net.gates[node][0] == 'INPUT' else 'gate'
        for lab, cls in SPECIAL:
            if lab in net.gates:
                continue
            w = f'label-{cls}' if role == 'gate' else f'label-{cls}-on-input'
            yield M.rename(net, {node: lab}), w


# ------------------------------------------------------------------------------- free form ----
OPNAMES = {t: t for t in S.GATE_TYPES if t != 'INPUT'}


def ref_read(text):
    """Reference reader written from the bench grammar of the statement (independent of the repository):
         line   := blank | '#' anything | decl | gate
         decl   := ('INPUT' | 'OUTPUT') '(' name ')'            (keyword in any letter case)
         gate   := name '=' op '(' [name {',' name}] ')' | name '=' 'vdd'   (op, vdd in any letter case)
       op is a gate type name, BUFF means IFF, vdd means ALWAYS_TRUE. Declarations and gates may come in any order."""
    inputs, outputs, gates = [], [], {}
    for raw in text.split('\n'):
        line = raw.strip()
        if not line or line.startswith('#'):
            continue
        if '=' in line:
            name, body = line.split('=', 1)
            name, body = name.strip(), body.strip()
            if body.upper() == 'VDD':
                gates[name] = ('ALWAYS_TRUE', ())
                continue
            m = re.fullmatch(r'([A-Za-z_]+)\s*\((.*)\)', body)
            if not m:
                raise ValueError(f'reference reader: bad gate line {raw!r}')
            op = m.group(1).upper()
            op = 'IFF' if op == 'BUFF' else op
            if op not in OPNAMES:
                raise ValueError(f'reference reader: unknown operator {op}')
            args = [a.strip() for a in m.group(2).split(',')] if m.group(2).strip() else []
            gates[name] = (op, tuple(args))
        else:
            m = re.fullmatch(r'([A-Za-z]+)\s*\(\s*(\S+?)\s*\)', line)
            if not m or m.group(1).upper() not in ('INPUT', 'OUTPUT'):
                raise ValueError(f'reference reader: bad declaration {raw!r}')
            if m.group(1).upper() == 'INPUT':
                inputs.append(m.group(2))
                gates[m.group(2)] = ('INPUT', ())
            else:
                outputs.append(m.group(2))
    return N.Net(inputs, outputs, gates)


LAYOUT_OPTS = ['shuffle-lines', 'declarations-last', 'lowercase-operator', 'mixedcase-operator', 'lowercase-keyword', 'comments', 'blank-lines',
               'buff-alias', 'iff-name', 'vdd-alias', 'extra-blanks', 'no-final-newline', 'no-blanks']


def _mixed(s, r):
    ph = r.randint(0, 1)                     # alternating case: never all-upper or all-lower
    return ''.join(ch.upper() if (i + ph) % 2 else ch.lower() for i, ch in enumerate(s))


def render(net, opts, r):
    """Text of the netlist in a free-form layout."""
    kw_in, kw_out = ('input', 'output') if 'lowercase-keyword' in opts else ('INPUT', 'OUTPUT')
    sp = (lambda: ' ' * r.randint(1, 3)) if 'extra-blanks' in opts else (lambda: '')
    decl_in = [f'{kw_in}({sp()}{x}{sp()})' for x in net.inputs]
    decl_out = [f'{kw_out}({sp()}{x}{sp()})' for x in net.outputs]
    gl = []
    for g in net.order:
        t, ops = net.gates[g]
        if t == 'INPUT':
            continue
        name = t
        if t == 'IFF':
            name = 'IFF' if 'iff-name' in opts else 'BUFF'
            if 'buff-alias' in opts:
                name = 'BUFF'
        if 'lowercase-operator' in opts:
            name = name.lower()
        elif 'mixedcase-operator' in opts:
            name = _mixed(name, r)
        if t == 'ALWAYS_TRUE' and 'vdd-alias' in opts and not ops:
            v = 'vdd'
            if 'mixedcase-operator' in opts:
                v = _mixed(v, r)
            gl.append(f'{g} = {v}' if 'no-blanks' not in opts else f'{g}={v}')
            continue
        if 'no-blanks' in opts:
            gl.append(f'{g}={name}({",".join(ops)})')
        else:
            eq = f'{sp()} = {sp()}' if 'extra-blanks' in opts else ' = '
            comma = (lambda: ',' + ' ' * r.randint(1, 3)) if 'extra-blanks' in opts else (lambda: ', ')
            body = ''
            for i, o in enumerate(ops):
                body += (comma() if i else '') + o
            gl.append(f'{g}{eq}{name}({sp()}{body}{sp()}){sp()}')
    if 'shuffle-lines' in opts:
        # relative order of INPUT lines and of OUTPUT lines is kept (it defines the interface order)
        lines = []
        pools = [list(decl_in), list(decl_out), r.sample(gl, len(gl))]
        while any(pools):
            p = r.choice([q for q in pools if q])
            lines.append(p.pop(0))
    elif 'declarations-last' in opts:
        lines = gl[::-1] + decl_out + decl_in
    else:
        lines = decl_in + gl + decl_out
    out = []
    for ln in lines:
        if 'comments' in opts and r.random() < 0.5:
            out.append(r.choice(['# a comment', '#', '#INPUT(zz)', '# g9 = AND(a, b)', '#OUTPUT(q)']))
        if 'blank-lines' in opts and r.random() < 0.5:
            out.append('')
        out.append(ln)
    if 'comments' in opts:
        out.append('# end')
    text = '\n'.join(out)
    if 'no-final-newline' not in opts:
        text += '\n'
    return text


def relevant(net, opts):
    """Does the option change anything for this netlist?"""
    types = {t for t, _ in net.gates.values()}
    if ('buff-alias' in opts or 'iff-name' in opts) and 'IFF' not in types:
        return False
    if 'vdd-alias' in opts and 'ALWAYS_TRUE' not in types:
        return False
    return True


def text_problem(net, opts, r):
    """(text, reference net, problem or None, internal error or None) for one rendering."""
    from cirbo.core.circuit import Circuit
    text = render(net, opts, r)
    try:
        ref = ref_read(text)
    except Exception as e:
        return text, None, None, f'reference reader rejects its own text {text!r}: {e}'
    if ref.inputs != net.inputs or ref.outputs != net.outputs or dict(ref.gates) != dict(net.gates):
        return text, ref, None, f'reference reader disagrees with renderer on {text!r}'
    try:
        c = Circuit.from_bench_string(text)
        got = N.snapshot(c)
    except Exception as e:
        return text, ref, f'parser raised {M.exc_str(e)}', None
    prob = None
    if list(got.inputs) != ref.inputs:
        prob = f'inputs {got.inputs} != {ref.inputs}'
    elif list(got.outputs) != ref.outputs:
        prob = f'outputs {got.outputs} != {ref.outputs}'
    elif len(got.gates) != len(ref.gates):
        prob = f'{len(got.gates)} gates != {len(ref.gates)}'
    else:
        try:
            wf = N.wf_violations(N.Net(got.inputs, got.outputs, got.gates))
            if wf:
                prob = f'parsed circuit is not well formed: {wf[:2]}'
            elif N.tt(got) != N.tt(ref):
                prob = f'truth table {N.tt(got)} != {N.tt(ref)}'
        except Exception as e:
            prob = f'parsed circuit cannot be evaluated: {M.exc_str(e)}'
    return text, ref, prob, None


def check_text(acc, net, opts, r):
    text, ref, prob, internal = text_problem(net, opts, r)
    if internal:
        acc.note('driver_internal_error', internal)
        return
    nontriv = len(net.gates) > len(net.inputs)
    acc.case(NAME_D, key=(net.key(), text), nontrivial=nontriv and bool(opts), sample={'text': text, 'layout': sorted(opts)} if opts and nontriv else None)
    if not prob:
        return
    # attribute: a gate type that is mis-parsed even alone / the canonical layout of this netlist / the smallest failing set of options
    witness = culprit_witness(net, 1)
    if witness is None and opts:
        _t, _r, canon_prob, _i = text_problem(net, set(), r)
        if canon_prob:
            return                                  # reported (or about to be) under 'canonical-layout' for this netlist
        small = set(opts)
        for o in sorted(opts):                      # a single option that fails alone explains the combination
            t1, _r1, p1, _i1 = text_problem(net, {o}, r)
            if p1:
                small, text, prob = {o}, t1, p1
                break
        for o in sorted(small):
            trial = small - {o}
            if not trial:
                continue
            t2, _r2, p2, _i2 = text_problem(net, trial, r)
            if p2:
                small, text, prob = trial, t2, p2
        opts = small
        witness = '+'.join(sorted(opts))
    elif witness is None:
        witness = 'canonical-layout'
    replay = {'kind': 'bounded', 'text': text, 'layout_options': sorted(opts), 'reference_netlist': net.to_json(), 'difference': prob}
    acc.violation('C11/from_bench_string/denotes-text', witness, f'{prob}; text {text!r}', replay)


# ------------------------------------------------------------------------------------ cases ----
PLAIN = ['a', 'b', 'c', 'd', 'e', 'f', 'g', 'h', 'k', 'm', 'p', 'q', 'r', 's', 't', 'u']


def plain_labels(net):
    """x0.. / g0.. -> short plain identifiers."""
    mp = {lab: PLAIN[i] if i < len(PLAIN) else f'w{i}' for i, lab in enumerate(net.gates)}
    return M.rename(net, mp)


def ok_net(net):
    for t, o in net.gates.values():
        if not S.arity_ok(t, len(o)):
            return False
        if t in S.CONST and o:
            return False            # constants are printed and parsed without operands
    return True


def base_nets(chunk, r):
    kind = chunk[0]
    if kind == 'single':
        for net in M.single_gate_nets(max_nary=4):
            yield plain_labels(net)
    elif kind == 'enum':
        _, n_in, k, stride, offset = chunk
        alphabet = list(S.CONST) if (n_in == 0 and k > 0) else G.ALL_TYPES
        it = G.enum_nets(n_in, k, alphabet, max_nary=3, outputs=lambda nodes: [nodes[-1:], nodes, [nodes[0], nodes[-1], nodes[0]] if nodes else []][:3])
        for net in (M.stride_sample(it, stride, offset) if stride > 1 else it):
            yield plain_labels(net)
    elif kind == 'random':
        _, idx, count = chunk
        for _ in range(count):
            net = G.random_net(r, n_inputs=r.randint(0, 4), k_gates=r.randint(0, 8), max_nary=4, max_outputs=4, allow_no_outputs=True,
                               permute_storage=True, large_every=60)
            yield plain_labels(net)


def work(acc, chunk):
    mode = chunk[0]
    chunk = chunk[1:]
    r = M.rng('C11', mode, *chunk)
    tmpdir = None
    counter = [0]
    try:
        if mode == 'R':
            tmpdir = tempfile.mkdtemp(prefix='verif_c11_', dir='/tmp')
            relabel = chunk[-1]
            for i, net in enumerate(base_nets(chunk[:-1], r)):
                if not ok_net(net):
                    continue
                use_file = tmpdir if i % 7 == 0 else None
                ok = do_roundtrip(acc, net, plain_witness, use_file, counter)
                # storage orders
                nodes = len(net.gates)
                if 1 < nodes <= 4:
                    perms = itertools.permutations(list(net.gates.items()))
                else:
                    perms = (r.sample(list(net.gates.items()), nodes) for _ in range(3))
                for items in itertools.islice(perms, 24):
                    pn = N.Net(net.inputs, net.outputs, dict(items))
                    if pn.order == net.order:
                        continue
                    do_roundtrip(acc, pn, plain_witness, None, counter)
                if ok and relabel and i % relabel == 0:
                    for rn, w in relabel_cases(net):
                        do_roundtrip(acc, rn, (lambda _n, w=w: culprit_witness(_n, 0) or w), tmpdir if counter[0] % 11 == 0 else None, counter)
        else:
            for i, net in enumerate(base_nets(chunk, r)):
                if not ok_net(net) or len(net.inputs) > 4:
                    continue
                if N.wf_violations(N.Net(net.inputs, net.outputs, net.gates)):
                    continue
                check_text(acc, net, set(), r)
                for o in LAYOUT_OPTS:
                    if relevant(net, {o}):
                        check_text(acc, net, {o}, r)
                for _ in range(3):
                    opts = {o for o in LAYOUT_OPTS if r.random() < 0.35}
                    if 'no-blanks' in opts:
                        opts.discard('extra-blanks')
                    if opts:
                        check_text(acc, net, opts, r)
    finally:
        if tmpdir is not None:
            shutil.rmtree(tmpdir, ignore_errors=True)


def run_bounded(rep, quick):
    acc = M.Acc()
    acc.driver(NAME_R,
               'real format_circuit -> from_bench_string compared on snapshots (gates with type and operand order, input order, output order) and by the real ==, on '
               '(a) one circuit per gate type and arity 2..4, (b) enumerated circuits <=2 inputs <=2 gates over all 18 types (quick: sampled) with three output lists, '
               '(c) seeded random circuits <=4 inputs <=8 gates arity<=4; every storage permutation of circuits with <=4 nodes (else 3 random ones); every node renamed in '
               f'turn to each of {len(SPECIAL)} pool labels (keyword prefixes input/output, vdd, operator names, dotted, bracketed, numeric); constants without operands; '
               'non-trivial = circuit with a non-input gate', 'K<=2 enumerated, random K<=8, <=24 storage orders each', exhaustive=False)
    acc.driver(NAME_F, 'save_to_file (existing and not yet existing parent directory under /tmp) -> from_bench_file on every 7th base circuit; file content equals '
                       'format_circuit(); loaded circuit equals the original', 'subsample of the base circuits', exhaustive=False)
    acc.driver(NAME_D, 'free-form layouts of the same netlists (each layout option alone and 3 random combinations): shuffled lines with use before definition, '
                       'declarations last, lower/mixed-case operator names, lower-case INPUT/OUTPUT, comment lines, blank lines, BUFF / IFF names, `x = vdd`, extra blanks, '
                       'no blanks, no final newline; reference reader written from the grammar; parsed circuit has the same inputs, outputs, gate count and truth table',
               'same circuits, <=4 inputs', exhaustive=False)
    if quick:
        chunks = [('R', 'single', 1)]
        chunks += [('R', 'enum', n, k, 1, 0, 3) for n in (0, 1, 2) for k in (0, 1)]
        chunks += [('R', 'enum', 2, 2, 301, 7, 5), ('R', 'random', 0, 60, 4)]
        chunks += [('D', 'single'), ('D', 'enum', 2, 1, 3, 0), ('D', 'enum', 2, 2, 701, 11), ('D', 'random', 0, 60)]
    else:
        chunks = [('R', 'single', 1)]
        chunks += [('R', 'enum', n, k, 1, 0, 1) for n in (0, 1, 2) for k in (0, 1)]
        chunks += [('R', 'enum', 2, 2, 16 * 11, off * 11, 3) for off in range(16)]
        chunks += [('R', 'random', i, 150, 2) for i in range(16)]
        chunks += [('D', 'single'), ('D', 'enum', 2, 1, 1, 0), ('D', 'enum', 1, 2, 3, 0)]
        chunks += [('D', 'enum', 2, 2, 16 * 13, off * 13) for off in range(16)]
        chunks += [('D', 'random', i, 200) for i in range(16)]
    faulty_types()
    total = M.run_chunks(work, chunks, parallel=not quick)
    acc.merge(total)
    acc.flush(rep)

"""C10 bounded stand-in: connect_circuit (left / right) and its five wrappers on small pairs vs. the documented
functional composition, evaluated by the spec evaluator on the two OPERAND netlists.

Besides the enumerated connector choices there is a corner family (`corner_pool` / `corner_cases`): calls whose connector
lists are empty but written out (`extend_circuit(other, this_connectors=[], other_connectors=[])` is `add_circuit`, not the
default full-interface connection), lists given as tuples, `name=''` with `add_prefix=False`, and keyword arguments left
to their defaults.  Feature tokens: explicit-empty-connectors, one-connector-list-defaulted, tuple-connectors,
default-kwargs, empty-name-no-prefix, empty-circuit."""
import itertools

from .. import env
from ..spec import net as N
from ..spec import gen as G
from . import _circ_common as K

NAME = 'composition-vs-functional-composition'
ALPHA = ('AND', 'XOR', 'GT', 'NOT', 'ALWAYS_TRUE')


# ---- the documented composition (reference, written from the statement + docstrings) ---------------

class Expect:
    """tokens ('b', label) / ('o', label) name the kept inputs / outputs of base / other, in order."""

    def __init__(self, base, other, this_conn, other_conn, right):
        self.base, self.other, self.right = base, other, right
        self.tc, self.oc = list(this_conn), list(other_conn)
        self.valid = True          # the call must succeed
        self.ambiguous = False     # documentation does not determine the result: skip
        if len(self.tc) != len(self.oc) or any(t not in base.gates for t in self.tc) or any(o not in other.gates for o in self.oc):
            self.valid = False
            return
        if right:
            if len(set(self.tc)) < len(self.tc) or any(base.gates[t][0] != 'INPUT' for t in self.tc):
                self.valid = False
                return
            # one other INPUT identified with several base inputs: not determined by the documentation
            if any(self.oc.count(o) > 1 and other.gates[o][0] == 'INPUT' for o in self.oc):
                self.ambiguous = True
            self.partner = dict(zip(self.tc, self.oc))
            self.in_tokens = [('b', t) for t in base.inputs if t not in self.partner or other.gates[self.partner[t]][0] == 'INPUT'] \
                + [('o', i) for i in other.inputs if i not in self.oc]
        else:
            if len(set(self.oc)) < len(self.oc) or any(other.gates[o][0] != 'INPUT' for o in self.oc):
                self.valid = False
                return
            self.partner = dict(zip(self.oc, self.tc))
            self.in_tokens = [('b', t) for t in base.inputs] + [('o', i) for i in other.inputs if i not in self.oc]
        self.out_tokens = [('b', o) for o in base.outputs if o not in self.tc] + [('o', o) for o in other.outputs if o not in self.oc]

    def evaluate(self, X):
        """X: token -> bool for the kept inputs. Returns list of output values."""
        base, other = self.base, self.other
        if self.right:
            rev = {}
            for t, o in self.partner.items():
                rev.setdefault(o, t)
            ao = {i: (X[('b', rev[i])] if i in rev else X[('o', i)]) for i in other.inputs}
            vo = N.den_all(other, ao)
            ab = {t: (vo[self.partner[t]] if t in self.partner else X[('b', t)]) for t in base.inputs}
            vb = N.den_all(base, ab)
        else:
            vb = N.den_all(base, {t: X[('b', t)] for t in base.inputs})
            ao = {i: (vb[self.partner[i]] if i in self.partner else X[('o', i)]) for i in other.inputs}
            vo = N.den_all(other, ao)
        return [(vb if s == 'b' else vo)[l] for s, l in self.out_tokens]

    def tt(self):
        n = len(self.in_tokens)
        cols = [self.evaluate(dict(zip(self.in_tokens, x))) for x in N.assignments(n)]
        return [[col[i] for col in cols] for i in range(len(self.out_tokens))]

    def new_labels_ok(self, name, add_prefix):
        """labels of `other` gates that are added must be new in base"""
        prefix = (name + '@') if (name and add_prefix) else ''
        mapped = set(self.oc)
        return not any((prefix + g) in self.base.gates for g in self.other.gates if g not in mapped)


def _label_ok(tok, lab, name, add_prefix):
    s, l = tok
    if s == 'b':
        return lab == l
    if name and add_prefix:
        return lab.endswith(l) and lab.startswith(name) and lab != l
    return lab == l


# ---- one case --------------------------------------------------------------------------------------

def _kwargs(right, name, add_prefix, style, with_right):
    """keyword arguments of a call; style 'default-kwargs': arguments equal to the documented default are OMITTED."""
    kw = {}
    omit = 'default-kwargs' in style
    if with_right and not (omit and right is False):
        kw['right_connect'] = right
    if not (omit and name == ''):
        kw['name'] = name
    if not (omit and add_prefix is True):
        kw['add_prefix'] = add_prefix
    return kw


def _call(c, fn, co, tc, oc, right, name, add_prefix, style=()):
    seq = tuple if 'tuple-connectors' in style else list
    kw = _kwargs(right, name, add_prefix, style, fn in ('connect_circuit', 'extend_circuit', 'extend_circuit-explicit',
                                                        'extend_circuit-explicit-this', 'extend_circuit-explicit-other'))
    if fn == 'connect_circuit':
        return c.connect_circuit(co, seq(tc), seq(oc), **kw)
    if fn == 'extend_circuit-explicit':
        return c.extend_circuit(co, this_connectors=seq(tc), other_connectors=seq(oc), **kw)
    if fn == 'extend_circuit-explicit-this':       # other_connectors left to its default
        return c.extend_circuit(co, this_connectors=seq(tc), **kw)
    if fn == 'extend_circuit-explicit-other':      # this_connectors left to its default
        return c.extend_circuit(co, other_connectors=seq(oc), **kw)
    if fn == 'connect_left':
        return c.connect_left(co, seq(tc), **kw)
    if fn == 'connect_right':
        return c.connect_right(co, seq(oc), **kw)
    if fn == 'connect_inputs':
        return c.connect_inputs(co, **kw)
    if fn == 'extend_circuit':
        return c.extend_circuit(co, **kw)
    if fn == 'add_circuit':
        return c.add_circuit(co, **kw)
    raise ValueError(fn)


def _call_text(fn, tc, oc, right, name, add_prefix, style=()):
    seq = tuple if 'tuple-connectors' in style else list
    with_right = fn in ('connect_circuit', 'extend_circuit', 'extend_circuit-explicit', 'extend_circuit-explicit-this', 'extend_circuit-explicit-other')
    kw = ', '.join(f'{k}={v!r}' for k, v in _kwargs(right, name, add_prefix, style, with_right).items())
    kw = (', ' + kw) if kw else ''
    return {
        'connect_circuit': f'base.connect_circuit(other, {seq(tc)!r}, {seq(oc)!r}{kw})',
        'extend_circuit-explicit': f'base.extend_circuit(other, this_connectors={seq(tc)!r}, other_connectors={seq(oc)!r}{kw})',
        'extend_circuit-explicit-this': f'base.extend_circuit(other, this_connectors={seq(tc)!r}{kw})',
        'extend_circuit-explicit-other': f'base.extend_circuit(other, other_connectors={seq(oc)!r}{kw})',
        'connect_left': f'base.connect_left(other, {seq(tc)!r}{kw})',
        'connect_right': f'base.connect_right(other, {seq(oc)!r}{kw})',
        'connect_inputs': f'base.connect_inputs(other{kw})',
        'extend_circuit': f'base.extend_circuit(other{kw})',
        'add_circuit': f'base.add_circuit(other{kw})',
    }[fn]


def check_case(base, other, fn, tc, oc, right, name, add_prefix, col, deep=True, style=()):
    """returns True if the case was executed (valid, unambiguous arguments).
    (tc, oc) are the connector lists the call MEANS (for the wrappers: after filling in the documented defaults); `style`
    says how it is written: 'tuple-connectors', 'default-kwargs' (arguments equal to their default omitted)."""
    ex = Expect(base, other, tc, oc, right)
    if not ex.valid or ex.ambiguous or not ex.new_labels_ok(name, add_prefix):
        return False
    prefix = (name + '@') if (name and add_prefix) else ''
    if any((prefix + bn) in (base.blocks or {}) for bn in (other.blocks or {})) or (name and name in (base.blocks or {})):
        return False
    flex = oc if right else tc            # the side on which arbitrary gates are allowed
    flex_net = other if right else base
    feats = set()
    if any(flex_net.gates[g][0] != 'INPUT' for g in flex):
        feats.add('gate-connector')
    if len(set(flex)) < len(flex):
        feats.add('repeated-connector')
    if tc and (len(oc) < len(other.inputs) if not right else len(tc) < len(base.inputs)):
        feats.add('partial')
    if any(t in base.outputs for t in tc) or any(o in other.outputs for o in oc):
        feats.add('connector-is-output')
    if name:
        feats.add('named')
        if not add_prefix:
            feats.add('no-prefix')
    if other.blocks:
        feats.add('other-blocks')
    if set(base.gates) & set(other.gates):
        feats.add('shared-labels')
    if fn not in ('connect_circuit',):
        feats.add('extend_circuit-explicit' if fn.startswith('extend_circuit-explicit') else fn)
    if fn in ('extend_circuit-explicit-this', 'extend_circuit-explicit-other'):
        feats.add('one-connector-list-defaulted')
    # a connector list that is written out although it is empty (where leaving it out would mean something else)
    if (fn == 'extend_circuit-explicit' and not tc and not oc) or (fn == 'extend_circuit-explicit-this' and not tc) or \
            (fn == 'extend_circuit-explicit-other' and not oc):
        feats.add('explicit-empty-connectors')
    if not name and not add_prefix:
        feats.add('empty-name-no-prefix')
    feats.update(style)
    if not base.gates or not other.gates:
        feats.add('empty-circuit')
    side = 'side-by-side' if not tc else ('right' if right else 'left')
    size = len(base.gates) + len(other.gates) + len(tc) + len(feats)
    rp = {'kind': 'bounded', 'base': base.to_json(), 'other': other.to_json(), 'call': _call_text(fn, tc, oc, right, name, add_prefix, style),
          'this_connectors': list(tc), 'other_connectors': list(oc), 'right_connect': right}

    def fail(clause, detail, extra=None):
        col.add(f'C10/connect_circuit/{clause}', side, feats, size, detail, dict(rp, **(extra or {})))

    c, co = N.build(base), N.build(other)
    pre_other = N.snapshot(co)
    try:
        _call(c, fn, co, tc, oc, right, name, add_prefix, style)
    except Exception as e:
        fail('returns-normally', K.exc_str(e))
        return True
    res = N.snapshot(c)
    rp['result'] = K.net_json(res)
    post_other = N.snapshot(co)
    if K.state_of(post_other) != K.state_of(pre_other) or post_other.order != pre_other.order:
        fail('other-unmodified', f'other changed: {K.net_json(pre_other)} -> {K.net_json(post_other)}')
    ok_shape = True
    if len(res.inputs) != len(ex.in_tokens) or not all(_label_ok(t, l, name, add_prefix) for t, l in zip(ex.in_tokens, res.inputs)):
        fail('inputs', f'inputs {res.inputs}, documented composition keeps {ex.in_tokens}')
        ok_shape = False
    if len(res.outputs) != len(ex.out_tokens) or not all(_label_ok(t, l, name, add_prefix) for t, l in zip(ex.out_tokens, res.outputs)):
        fail('outputs', f'outputs {res.outputs}, documented composition keeps {ex.out_tokens}')
        ok_shape = False
    want_tt = None
    if ok_shape:
        bad = [w for w in N.wf_violations(res) if w[0] in ('W1', 'W2', 'W4', 'W5')]
        if bad:
            fail('truth-table', f'result netlist cannot be evaluated: {bad[:2]}')
        else:
            want_tt = ex.tt()
            got_tt = N.tt(res)
            if got_tt != want_tt:
                fail('truth-table', f'truth table {got_tt}, documented composition {want_tt}', {'expected_tt': want_tt, 'observed_tt': got_tt})
                want_tt = None
    # named block gives back other's function (not determined when two inputs of other were identified)
    if name:
        identified = (not right) and len(set(tc)) < len(tc)
        if name not in res.blocks:
            fail('named-block-extracts-other', f'no block {name!r} after the call')
        elif not identified:
            try:
                bc = c.get_block(name).into_circuit()
                bs = N.snapshot(bc)
                bad = [w for w in N.wf_violations(bs) if w[0] in ('W1', 'W2', 'W4', 'W5')]
                if bad or len(bs.inputs) != len(other.inputs) or len(bs.outputs) != len(other.outputs):
                    fail('named-block-extracts-other', f'block circuit has inputs {bs.inputs}, outputs {bs.outputs} {bad[:1]}; other has '
                         f'{other.inputs} / {other.outputs}', {'block_circuit': K.net_json(bs)})
                elif N.tt(bs) != N.tt(other):
                    fail('named-block-extracts-other', f'block circuit computes {N.tt(bs)}, other computes {N.tt(other)}',
                         {'block_circuit': K.net_json(bs)})
            except Exception as e:
                fail('named-block-extracts-other', f'get_block({name!r}).into_circuit() raised {K.exc_str(e)}',
                     {'block': res.blocks.get(name)})
    # histories: the result is used further, as base and as the attached circuit
    if deep and want_tt is not None:
        tiny = K.mk(['q0'], [('q1', 'NOT', ['q0'])], ['q1'])
        try:
            c2 = K.clone_raw(c)
            c2.add_circuit(N.build(tiny), name='second')
            s2 = N.snapshot(c2)
            if len(s2.inputs) != len(res.inputs) + 1 or len(s2.outputs) != len(res.outputs) + 1 or \
                    [w for w in N.wf_violations(s2) if w[0] in ('W1', 'W2', 'W4', 'W5')]:
                fail('second-composition', f'add_circuit after the call gives inputs {s2.inputs} outputs {s2.outputs}')
            else:
                t2 = N.tt(s2)
                n_old = len(res.inputs)
                want2 = [[row[j >> 1] for j in range(2 << n_old)] for row in want_tt] + [[not (j & 1) for j in range(2 << n_old)]]
                if t2 != want2:
                    fail('second-composition', f'after a further add_circuit the truth table is {t2}, expected {want2}')
        except Exception as e:
            fail('second-composition', f'add_circuit on the result raised {K.exc_str(e)}')
        try:
            host = N.build(K.mk([], [], []))
            host.add_circuit(c, name='W')
            hs = N.snapshot(host)
            if len(hs.inputs) != len(res.inputs) or len(hs.outputs) != len(res.outputs) or \
                    [w for w in N.wf_violations(hs) if w[0] in ('W1', 'W2', 'W4', 'W5')]:
                fail('result-reusable-as-other', f'Circuit().add_circuit(result) has {len(hs.gates)} gates (result has {len(res.gates)}), '
                     f'inputs {hs.inputs}, outputs {hs.outputs}', {'host': K.net_json(hs)})
            elif N.tt(hs) != want_tt:
                fail('result-reusable-as-other', f'Circuit().add_circuit(result) computes {N.tt(hs)}, expected {want_tt}', {'host': K.net_json(hs)})
        except Exception as e:
            fail('result-reusable-as-other', f'Circuit().add_circuit(result, name="W") raised {K.exc_str(e)}')
    return True


# ---- case generation ---------------------------------------------------------------------------------

def _outsel(nodes):
    res = [nodes[-1:]]
    if len(nodes) >= 2:
        res.append([nodes[0], nodes[-1]])
    return res


def base_pool(k_max):
    fixed = [
        K.mk(['x0', 'x1'], [('g0', 'GT', ['x0', 'x1']), ('g1', 'NOT', ['g0'])], ['g1', 'x0']),
        K.mk(['x0', 'x1', 'x2'], [('g0', 'XOR', ['x0', 'x1', 'x2']), ('g1', 'OR', ['g0', 'x2'])], ['g0', 'g1', 'g0']),
        K.mk(['x0'], [('g0', 'ALWAYS_FALSE', []), ('g1', 'LEQ', ['g0', 'x0'])], ['g1'],
             blocks={'bb': {'inputs': ['x0'], 'gates': ['g1'], 'outputs': ['g1']}}),
    ]
    en = []
    for n in (1, 2):
        for k in range(0, k_max + 1):
            en += list(G.enum_nets(n, k, ALPHA, max_nary=2, outputs=_outsel))
    return fixed, en


def _as_other(net, shared):
    if shared:
        return net
    ren = lambda s: ('y' + s[1:]) if s.startswith('x') else ('h' + s[1:]) if s.startswith('g') else 'o_' + s
    o = K.relabel(net, ren)
    o.blocks = {('o' + n): b for n, b in o.blocks.items()}
    return o


def connector_choices(base, other, right, full):
    """all (this_conn, other_conn): the rigid side ranges over ordered subsets of the inputs, the flexible side over
    all tuples of gates (repetition, internal gates)."""
    rigid = base.inputs if right else other.inputs
    flex = list(other.gates) if right else list(base.gates)
    for r in range(0, min(2, len(rigid)) + 1):
        for sub in itertools.permutations(rigid, r):
            if not full and r == 2 and sub != tuple(sorted(sub)):
                continue
            for tup in itertools.product(flex, repeat=r):
                yield (sub, tup) if right else (tup, sub)


def cases_for(base, other, full):
    """(fn, tc, oc, right) tuples for one pair"""
    for right in (False, True):
        for tc, oc in connector_choices(base, other, right, full):
            yield 'connect_circuit', tc, oc, right
    nb, no = len(base.inputs), len(other.inputs)
    for tup in itertools.product(list(base.gates), repeat=no):
        yield 'connect_left', tup, tuple(other.inputs), False
    for tup in itertools.product(list(other.gates), repeat=nb):
        yield 'connect_right', tuple(base.inputs), tup, True
    if nb == no:
        yield 'connect_inputs', tuple(base.inputs), tuple(other.inputs), True
    if len(base.outputs) == no:
        yield 'extend_circuit', tuple(base.outputs), tuple(other.inputs), False
    if nb == len(other.outputs):
        yield 'extend_circuit', tuple(base.inputs), tuple(other.outputs), True
    yield 'add_circuit', (), (), False
    if no:
        yield 'extend_circuit-explicit', (list(base.gates)[-1],), (other.inputs[0],), False
    if nb:
        yield 'extend_circuit-explicit', (base.inputs[-1],), (list(other.gates)[-1],), True


OPTS = (('', True), ('B', True), ('B', False))
OPTS4 = OPTS + (('', False),)


def corner_pool():
    """circuits for the 'explicit empty / falsy argument' corners: every interface width 0..2 on both sides, so that for each
    wrapper there are pairs on which the DEFAULT connection is possible (a wrapper that falls back to its default when it
    is handed an empty list then returns normally - with the wrong circuit) and pairs whose documented default is empty."""
    return [
        K.mk([], [], []),                                                                             # 0 -> 0, no gate at all
        K.mk([], [('g0', 'ALWAYS_TRUE', []), ('g1', 'NOT', ['g0'])], ['g1']),                         # 0 -> 1
        K.mk(['x0', 'x1'], [('g0', 'AND', ['x0', 'x1'])], []),                                        # 2 -> 0
        K.mk(['x0'], [('g0', 'NOT', ['x0'])], ['g0']),                                                # 1 -> 1
        K.mk(['x0'], [], ['x0']),                                                                     # 1 -> 1, output is the input
        K.mk(['x0', 'x1'], [('g0', 'GT', ['x0', 'x1'])], ['g0']),                                     # 2 -> 1
        K.mk(['x0'], [('g0', 'NOT', ['x0'])], ['g0', 'x0']),                                          # 1 -> 2
        K.mk(['x0', 'x1'], [('g0', 'XOR', ['x0', 'x1']), ('g1', 'GT', ['x0', 'g0'])], ['g1', 'g0']),  # 2 -> 2
        K.mk(['x0', 'x1'], [('g0', 'GT', ['x0', 'x1']), ('g1', 'NOT', ['g0'])], ['g1', 'x0']),        # 2 -> 2 (first fixed base)
    ]


def corner_cases(base, other):
    """(fn, tc, oc, right, styles) for one pair: calls in which a connector list is EMPTY BUT WRITTEN OUT, or an optional
    argument is falsy / left out.  (tc, oc) is what the documentation says the call means."""
    lists = ((), ('tuple-connectors',))
    for right in (False, True):
        # extend_circuit(other, this_connectors=[], other_connectors=[]) == connect_circuit(other, [], []) == add_circuit(other)
        yield 'extend_circuit-explicit', (), (), right, lists
        yield 'connect_circuit', (), (), right, lists
        # only one list written out (empty); the other one keeps its documented default
        d_this = tuple(base.inputs if right else base.outputs)
        d_other = tuple(other.outputs if right else other.inputs)
        yield 'extend_circuit-explicit-this', (), d_other, right, lists
        yield 'extend_circuit-explicit-other', d_this, (), right, lists
        # both left out: the documented full-interface connection (may be empty on both sides)
        yield 'extend_circuit', d_this, d_other, right, ((),)
        # written out and equal to the default
        yield 'extend_circuit-explicit', d_this, d_other, right, lists
    yield 'connect_left', (), tuple(other.inputs), False, lists                      # valid iff other has no inputs
    yield 'connect_right', tuple(base.inputs), (), True, lists                      # valid iff base has no inputs
    yield 'connect_inputs', tuple(base.inputs), tuple(other.inputs), True, ((),)
    yield 'add_circuit', (), (), False, ((),)


def _worker(task):
    env.setup_import_paths()
    col = K.Collector()
    cases, keys, samples = 0, set(), []
    kind = task[0]

    def one(base, other, fn, tc, oc, right, name, ap, deep=True, style=()):
        nonlocal cases
        if check_case(base, other, fn, tuple(tc), tuple(oc), right, name, ap, col, deep, style):
            cases += 1
            keys.add(hash((base.key(), other.key(), fn, tuple(tc), tuple(oc), right, name, ap) + ((tuple(style),) if style else ())))
            if len(samples) < 2 and (tc or kind == 'corners') and len(other.gates) > len(other.inputs):
                samples.append({'base': base.to_json(), 'other': other.to_json(), 'call': _call_text(fn, tc, oc, right, name, ap, style)})

    if kind == 'pairs':
        _, k_max, n_base, n_other, part, parts, full = task
        fixed, en = base_pool(k_max)
        rng = K.rng_for('C10', 'pool', k_max)
        en_b = list(en)
        rng.shuffle(en_b)
        en_o = list(en)
        rng.shuffle(en_o)
        bases = fixed + en_b[:n_base]
        others = fixed + en_o[:n_other]
        idx = 0
        for b in bases:
            for o0 in others:
                idx += 1
                if idx % parts != part:
                    continue
                for shared in (False, True):
                    o = _as_other(o0, shared)
                    for fn, tc, oc, right in cases_for(b, o, full):
                        for name, ap in OPTS:
                            if shared and not (name and ap) and fn != 'connect_circuit':
                                continue
                            one(b, o, fn, tc, oc, right, name, ap, deep=(not name) or shared)
    elif kind == 'corners':
        # explicit-empty / falsy-argument corners of the wrappers (quick and thorough)
        _, stride = task
        pool = corner_pool()
        for b in pool:
            for o0 in pool:
                for shared in (False, True):
                    o = _as_other(o0, shared)
                    for fn, tc, oc, right, styles in corner_cases(b, o):
                        for st in styles:
                            for name, ap in OPTS4:
                                if shared and not (name and ap):
                                    continue                         # equal labels need the prefix
                                one(b, o, fn, tc, oc, right, name, ap, deep=not name, style=st)
                                if (name, ap) == ('', True):
                                    one(b, o, fn, tc, oc, right, name, ap, deep=False, style=st + ('default-kwargs',))
        # the ordinary connector choices written with tuples / with defaults left out / with name='' and add_prefix=False
        fixed, _en = base_pool(0)
        variants = ((('tuple-connectors',), 'B', True), (('default-kwargs',), '', True), ((), '', False), (('tuple-connectors', 'default-kwargs'), 'B', False))
        idx = 0
        for b in fixed + pool[3:]:
            for o0 in fixed + pool[3:]:
                o = _as_other(o0, False)
                for fn, tc, oc, right in cases_for(b, o, False):
                    idx += 1
                    if idx % stride:
                        continue
                    st, name, ap = variants[(idx // stride) % len(variants)]
                    one(b, o, fn, tc, oc, right, name, ap, deep=False, style=st)
    else:
        _, count, part = task[:3]
        budget = K.Budget(task[3]) if len(task) > 3 else None
        rng = K.rng_for('C10', 'random', part)
        for _i in range(count):
            if budget and budget.over():
                break
            def rnd(prefix):
                while True:
                    net = G.random_net(rng, n_inputs=rng.randint(0, 3), k_gates=rng.randint(0, 5), max_outputs=3, prefix=prefix,
                                       allow_no_outputs=True)
                    if not N.arity(net):
                        return net
            b, o = rnd('b_'), rnd('o_' if rng.random() < 0.7 else 'b_')
            if rng.random() < 0.3 and len(o.gates) > len(o.inputs):
                ng = [g for g in o.gates if g not in o.inputs]
                o.blocks = {'ob': {'inputs': list(o.inputs), 'gates': ng[:2], 'outputs': ng[:1]}}
            right = rng.random() < 0.5
            rigid = b.inputs if right else o.inputs
            flex = list(o.gates) if right else list(b.gates)
            r = rng.randint(0, len(rigid)) if flex else 0
            sub = rng.sample(rigid, r)
            tup = [rng.choice(flex) for _ in range(r)]
            tc, oc = (sub, tup) if right else (tup, sub)
            name, ap = rng.choice(OPTS)
            one(b, o, 'connect_circuit', tc, oc, right, name, ap)
    return cases, keys, samples, col.items


def run_bounded(rep, quick):
    rep.bounded_driver(
        NAME, 'connect_circuit (left and right), connect_left/right/inputs, extend_circuit (default and explicit connectors), add_circuit on '
        'pairs (base, other) of small circuits (3 fixed + all circuits with 1..2 inputs and <=K gates over '
        f'{list(ALPHA)}, sampled) x all connector lists (ordered input subsets of size <=2 on the rigid side x all gate tuples with '
        'repetition and internal gates on the flexible side) x (no name | name with prefix | name without prefix) x (disjoint | shared labels): '
        'inputs and outputs (positions, labels) == documented composition, truth table == composition computed by the spec evaluator on the two '
        'operand netlists, other unchanged, get_block(name).into_circuit() computes other, and the result used further (a second add_circuit; '
        'the result attached to an empty circuit) still computes the same function; corner family on 9x9 pairs covering every interface width 0..2 '
        '(incl. a circuit without gates, without inputs, without outputs): connector lists that are EMPTY BUT WRITTEN OUT - extend_circuit(other, '
        'this_connectors=[], other_connectors=[]) and with only one of the two lists given, connect_circuit(other, [], []), connect_left(other, []), '
        'connect_right(other, []) - must equal add_circuit (both directions, lists and tuples, no name | name | name without prefix | name="" with '
        'add_prefix=False | name/add_prefix/right_connect left to their defaults), extend_circuit with defaulted / written-out full interface, '
        'connect_inputs and add_circuit on the same pairs, and a stride sample of the ordinary connector choices written with tuples / omitted '
        'keyword arguments / name="" + add_prefix=False; non-trivial = distinct executed (pair, call)',
        'quick: K<=1, 3+5 bases x 3+4 others + corner family (9x9 pairs, ordinary choices every 7th) + 500 random pairs (<=3 inputs, <=5 gates); '
        'thorough: K<=2, 3+30 x 3+30, full connector orders + corner family (all ordinary choices) + 20000 random',
        exhaustive=False)
    tasks = []
    if quick:
        tasks.append(('pairs', 1, 5, 4, 0, 1, False))
        tasks.append(('corners', 7))
        tasks.append(('random', 500, 0, 5.0))
    else:
        tasks.append(('corners', 1))
        tasks += [('pairs', 2, 30, 30, p, 64, True) for p in range(64)]
        tasks += [('random', 1250, p) for p in range(16)]
    col = K.Collector()
    for cases, keys, samples, items in K.run_chunks(_worker, tasks, quick):
        K.account(rep, NAME, cases, keys, samples)
        col.merge(items)
    col.flush(rep)

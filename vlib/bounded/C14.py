"""C14 bounded stand-in: Circuit.into_bench on circuits over all 19 gate types vs. the spec evaluator."""

from .. import env
from ..spec import net as N
from ..spec import gen as G
from ..spec import ops as S
from . import _circ_common as K

NAME = 'into_bench-vs-spec-evaluator'


def _features(net):
    f = set()
    for g, (t, ops) in net.gates.items():
        if t in S.BINARY and len(ops) == 2 and ops[0] == ops[1]:
            f.add('identical-operands')
    if sum(1 for t, _ in net.gates.values() if t in S.CONST) >= 2:
        f.add('several-constants')
    if net.blocks:
        f.add('blocks')
    return f


def _rewritten_types(net):
    return sorted({t for t, _ in net.gates.values() if t in S.BINARY or t in S.CONST})


def check(net, col):
    """one case: build, convert, compare. Returns True if the case was executed."""
    c = N.build(net)
    pre = N.snapshot(c)
    want_tt = N.tt(pre)
    # witness class = the gate types present that must be rewritten (+ shape features); the Collector keeps the
    # minimal sets, so a defect of one converter is reported once, under that type
    feats = _features(net) | set(_rewritten_types(net))
    size = len(net.gates) * 4 + len(net.blocks or {})
    base = ''
    rp = {'kind': 'bounded', 'netlist': net.to_json(), 'call': 'build(netlist).into_bench()'}
    try:
        c.into_bench()
    except Exception as e:
        col.add('C14/into_bench/returns-normally', base, feats, size, K.exc_str(e), rp)
        return True
    post = N.snapshot(c)
    rp['result'] = K.net_json(post)
    if post.inputs != pre.inputs:
        col.add('C14/into_bench/inputs-kept', base, feats, size, f'inputs {pre.inputs} -> {post.inputs}', rp)
    if post.outputs != pre.outputs:
        col.add('C14/into_bench/outputs-kept', base, feats, size, f'outputs {pre.outputs} -> {post.outputs}', rp)
    left = sorted({t for t, _ in post.gates.values() if t not in S.BENCH_TYPES})
    if left:
        col.add('C14/into_bench/only-bench-types', base, feats, size, f'non-bench gate types remain: {left}', rp)
    wf = K.wf_first(post, c)
    if wf:
        col.add(f'C14/into_bench/wf-{wf[0]}', base, feats, size, wf[1], rp)
    ar = N.arity(post)
    if ar:
        col.add('C14/into_bench/arity', base, feats, size, f'gates with wrong operand count after conversion: {ar}', rp)
    # truth table (only meaningful if the result is a DAG without dangling operands)
    if not any(cl in ('W1', 'W2', 'W5') for cl, _ in N.wf_violations(post)) and post.inputs == pre.inputs \
            and post.outputs == pre.outputs:
        try:
            got_tt = N.tt(post)
        except Exception as e:
            got_tt = K.exc_str(e)
        if got_tt != want_tt:
            rp2 = dict(rp, expected_tt=want_tt, observed_tt=got_tt)
            col.add('C14/into_bench/truth-table-kept', base, feats, size, f'tt {want_tt} -> {got_tt}', rp2)
    # helper gates: attributed to the unique old gate that now uses them
    helpers = [g for g in post.gates if g not in pre.gates]
    for h in helpers:
        users = {g for g, (_, ops) in post.gates.items() if h in ops and g in pre.gates}
        if len(users) != 1:
            continue
        owner = next(iter(users))
        for bn, b in (pre.blocks or {}).items():
            inside = h in (post.blocks.get(bn, {}).get('gates', []))
            should = owner in b['gates']
            if inside != should:
                col.add('C14/into_bench/helper-gates-in-blocks', base, {pre.gates[owner][0], 'blocks'}, size,
                        f'helper {h} of {owner}: in block {bn} = {inside}, block contained {owner} = {should}', rp)
    return True


def _with_blocks(net, variant, rng=None):
    nodes = list(net.gates)
    non_in = [g for g in nodes if net.gates[g][0] != 'INPUT']
    if variant == 0 or not non_in:
        return net
    blocks = {}
    if variant == 1:
        blocks['B0'] = {'inputs': list(net.inputs[:1]), 'gates': non_in[:1], 'outputs': non_in[:1]}
        blocks['B1'] = {'inputs': list(net.inputs), 'gates': list(non_in), 'outputs': non_in[-1:]}
        if len(non_in) > 1:
            blocks['B2'] = {'inputs': [], 'gates': non_in[1:], 'outputs': []}
    else:
        for i in range(rng.randint(1, 3)):
            k = rng.randint(1, len(non_in))
            blocks[f'B{i}'] = {'inputs': rng.sample(nodes, min(len(nodes), rng.randint(0, 2))),
                               'gates': rng.sample(non_in, k), 'outputs': rng.sample(nodes, 1)}
    return N.Net(net.inputs, net.outputs, net.gates, blocks=blocks)


def _outs(nodes):
    res = [nodes[-1:], list(nodes)]
    if len(nodes) >= 2:
        res.append([nodes[-2], nodes[-2], nodes[0]])
    return res


def _worker(task):
    env.setup_import_paths()
    col = K.Collector()
    cases, keys, samples = 0, set(), []

    def run(net):
        nonlocal cases
        check(net, col)
        cases += 1
        if any(t in S.BINARY or t in S.CONST for t, _ in net.gates.values()):
            keys.add(hash((net.key(), tuple(sorted((net.blocks or {}).keys())))))
            if len(samples) < 2 and net.blocks:
                samples.append({'netlist': net.to_json()})

    kind = task[0]
    if kind == 'enum':
        _, n_in, k, max_nary, part, parts = task
        # K<=1: three output selections, with and without blocks; K=2: all nodes as outputs, with blocks
        outs = _outs if k <= 1 else 'all'
        for idx, net in enumerate(G.enum_nets(n_in, k, G.ALL_TYPES, max_nary=max_nary, outputs=outs)):
            if idx % parts != part:
                continue
            for bv in ((0, 1) if k == 1 else (0,) if k == 0 else (1,)):
                run(_with_blocks(net, bv))
    else:
        count, part = task[1], task[2]
        rng = K.rng_for('C14', 'random', part)
        budget = K.Budget(task[3]) if len(task) > 3 else None
        for _i in range(count):
            if budget and budget.over():
                break
            if _i % 100 == 7:
                # every hundredth circuit is large (15..40 gates): behaviour that only changes beyond some size
                net = G.random_net(rng, n_inputs=rng.randint(2, 6), k_gates=rng.randint(15, 40))
            else:
                net = G.random_net(rng, n_inputs=rng.randint(1, 4), k_gates=rng.randint(1, 8))
            if N.arity(net):
                continue
            run(_with_blocks(net, rng.choice([0, 2, 2]), rng))
    return cases, keys, samples, col.items


HELPER_TYPES = ('LT', 'LEQ', 'GT', 'GEQ', 'ALWAYS_TRUE', 'ALWAYS_FALSE')


def _collapse_all_types(col):
    """a clause that fails for every helper-creating type with otherwise equal features has one cause in shared code
    (e.g. _add_new_gate_to_blocks): report it once as `every-helper-type`."""
    by = {}
    for (o, b, f) in list(col.items):
        t = [x for x in f if x in HELPER_TYPES]
        if len(t) == 1:
            by.setdefault((o, b, f - {t[0]}), {})[t[0]] = (o, b, f)
    for (o, b, rest), m in by.items():
        if set(m) == set(HELPER_TYPES):
            best = min((col.items[k] for k in m.values()), key=lambda v: v[0])
            for k in m.values():
                del col.items[k]
            col.items[(o, b, frozenset(rest | {'every-helper-type'}))] = best


def run_bounded(rep, quick):
    rep.bounded_driver(
        NAME, 'Circuit.into_bench on every circuit with 1..2 inputs and K gates over all 19 gate types (n-ary with 2..3 operands, '
        'repeated operands incl. GT(x,x), constants; K<=1: 3 output selections incl. rewritten gates / inputs / repeated, with and '
        'without blocks that contain rewritten gates; K=2: every node an output, with blocks) and on seeded random circuits: inputs, outputs, truth table (spec evaluator), '
        'remaining gate types, WF W1..W7 + real top_sort, arity, block membership of helper gates; '
        'non-trivial = distinct netlist containing at least one gate that must be rewritten',
        'quick: K<=1 (arity<=3) and K=2 (arity<=2, 1..2 inputs) exhaustive + 3000 random K<=8 (every hundredth: 15..40 gates, <=6 inputs); thorough: K<=2 arity<=3 exhaustive + 160000 random',
        exhaustive=False)
    tasks = []
    if quick:
        for n_in in (1, 2):
            for k in (0, 1):
                tasks.append(('enum', n_in, k, 3, 0, 1))
        tasks.append(('enum', 1, 2, 2, 0, 1))
        tasks.append(('enum', 2, 2, 2, 0, 1))
        tasks.append(('random', 3000, 0, 8.0))
    else:
        for n_in in (1, 2, 3):
            for k in (0, 1):
                tasks.append(('enum', n_in, k, 3, 0, 1))
        for n_in in (1, 2):
            for p in range(16):
                tasks.append(('enum', n_in, 2, 3, p, 16))
        for p in range(16):
            tasks.append(('random', 10000, p))
    col = K.Collector()
    for cases, keys, samples, items in K.run_chunks(_worker, tasks, quick):
        K.account(rep, NAME, cases, keys, samples)
        col.merge(items)
    _collapse_all_types(col)
    col.flush(rep)

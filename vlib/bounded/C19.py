"""C19 bounded stand-in: rename_gate, replace_inputs, remove_gate, replace_subcircuit of the real Circuit vs.
references written from the statement (label isomorphism, cofactor, "no users", equivalent replacement)."""
import itertools
from collections import Counter

from .. import env
from ..spec import net as N
from ..spec import gen as G
from . import _circ_common as K

RN = 'rename_gate-is-label-isomorphism'
RI = 'replace_inputs-is-cofactor'
RG = 'remove_gate-iff-no-users'
RS = 'replace_subcircuit-equivalent-replacement'

ALPHA = ('AND', 'OR', 'XOR', 'NAND', 'GT', 'LEQ', 'LNOT', 'RIFF', 'NOT', 'IFF', 'ALWAYS_TRUE', 'ALWAYS_FALSE')
SUB_ALPHA = ('AND', 'OR', 'XOR', 'NOR', 'GT', 'NOT', 'IFF', 'ALWAYS_TRUE', 'ALWAYS_FALSE')


def _evaluable(net):
    return not [w for w in N.wf_violations(net) if w[0] in ('W1', 'W2', 'W4', 'W5')]


def _gfeats(net, g):
    f = set()
    t, ops = net.gates[g]
    if t == 'INPUT':
        f.add('input-gate')
    if g in net.outputs:
        f.add('output-gate')
    if net.outputs.count(g) > 1:
        f.add('repeated-output')
        f.discard('output-gate')          # implied
    if len(set(ops)) < len(ops):
        f.add('repeated-operand')
    if any(Counter(o)[g] > 1 for _, o in net.gates.values()):
        f.add('used-twice-by-one-gate')
    if any(g in b[fld] for b in (net.blocks or {}).values() for fld in b):
        f.add('in-block')
    return f


# ---- rename_gate -------------------------------------------------------------------------------------

def check_rename(net, g, new, col):
    c = N.build(net)
    pre = N.snapshot(c)
    feats = _gfeats(net, g)
    size = len(net.gates)
    rp = {'kind': 'bounded', 'netlist': net.to_json(), 'call': f'build(netlist).rename_gate({g!r}, {new!r})'}
    try:
        c.rename_gate(g, new)
    except Exception as e:
        col.add('C19/rename_gate/returns-normally', '', feats, size, K.exc_str(e), rp)
        return
    post = N.snapshot(c)
    rp['result'] = K.net_json(post)
    f = lambda s: new if s == g else s
    want = K.relabel(pre, f)
    want_users = {}
    for k, v in (pre.users or {}).items():
        if v:
            want_users[f(k)] = Counter(f(u) for u in v)
    if dict(post.gates) != dict(want.gates):
        col.add('C19/rename_gate/operands-follow', '', feats, size, f'gates {dict(post.gates)}, expected {dict(want.gates)}', rp)
    if K.users_norm(post.users) != want_users:
        col.add('C19/rename_gate/users-follow', '', feats, size, f'users {post.users}, expected {want_users}', rp)
    if post.inputs != want.inputs:
        col.add('C19/rename_gate/inputs-follow', '', feats, size, f'inputs {post.inputs}, expected {want.inputs}', rp)
    if post.outputs != want.outputs:
        col.add('C19/rename_gate/outputs-follow', '', feats, size, f'outputs {post.outputs}, expected {want.outputs}', rp)
    if post.blocks != want.blocks:
        col.add('C19/rename_gate/blocks-follow', '', feats, size, f'blocks {post.blocks}, expected {want.blocks}', rp)
    wf = K.wf_first(post, c)
    if wf:
        col.add(f'C19/rename_gate/wf-{wf[0]}', '', feats, size, wf[1], rp)
    if _evaluable(post) and len(post.inputs) == len(pre.inputs) and len(post.outputs) == len(pre.outputs):
        if N.tt(post) != N.tt(pre):
            col.add('C19/rename_gate/truth-table-unchanged', '', feats, size, f'tt {N.tt(pre)} -> {N.tt(post)}', rp)


# ---- replace_inputs ----------------------------------------------------------------------------------

def check_replace_inputs(net, T, F, col):
    c = N.build(net)
    pre = N.snapshot(c)
    feats = set()
    if len(T) + len(F) == len(net.inputs):
        feats.add('all-inputs')
    if any(i in net.outputs for i in T + F):
        feats.add('input-is-output')
    if any(i in b[fld] for i in T + F for b in (net.blocks or {}).values() for fld in b):
        feats.add('in-block')
    base = ''
    if T:
        feats.add('to-true')
    if F:
        feats.add('to-false')
    size = len(net.gates) + len(T) + len(F)
    rp = {'kind': 'bounded', 'netlist': net.to_json(), 'call': f'build(netlist).replace_inputs({T!r}, {F!r})'}
    try:
        c.replace_inputs(list(T), list(F))
    except Exception as e:
        col.add('C19/replace_inputs/returns-normally', base, feats, size, K.exc_str(e), rp)
        return
    post = N.snapshot(c)
    rp['result'] = K.net_json(post)
    remaining = [i for i in pre.inputs if i not in T and i not in F]
    if post.inputs != remaining:
        col.add('C19/replace_inputs/remaining-inputs-in-order', base, feats, size, f'inputs {post.inputs}, expected {remaining}', rp)
        return
    if post.outputs != pre.outputs:
        col.add('C19/replace_inputs/outputs-kept', base, feats, size, f'outputs {pre.outputs} -> {post.outputs}', rp)
        return
    if not _evaluable(post):
        col.add('C19/replace_inputs/cofactor', base, feats, size, f'result cannot be evaluated: {N.wf_violations(post)[:2]}', rp)
        return
    cols = []
    for x in N.assignments(len(remaining)):
        a = dict(zip(remaining, x))
        a.update({i: True for i in T})
        a.update({i: False for i in F})
        v = N.den_all(pre, a)
        cols.append([v[o] for o in pre.outputs])
    want = [[col_[i] for col_ in cols] for i in range(len(pre.outputs))]
    got = N.tt(post)
    if got != want:
        col.add('C19/replace_inputs/cofactor', base, feats, size, f'tt {got}, cofactor {want}', dict(rp, expected_tt=want, observed_tt=got))


# ---- remove_gate -------------------------------------------------------------------------------------

def check_remove(net, g, col):
    c = N.build(net)
    pre = N.snapshot(c)
    used = sum(o.count(g) for _, o in pre.gates.values()) > 0
    feats = _gfeats(net, g)
    size = len(net.gates)
    rp = {'kind': 'bounded', 'netlist': net.to_json(), 'call': f'build(netlist).remove_gate({g!r})', 'gate_has_users': used}
    try:
        c.remove_gate(g)
        ok = True
    except Exception as e:
        ok = False
        err = K.exc_str(e)
    if used:
        if ok:
            col.add('C19/remove_gate/refuses-used-gate', '', feats, size, f'{g} has users but remove_gate returned normally', rp)
        return
    if not ok:
        col.add('C19/remove_gate/succeeds-for-unused-gate', '', feats, size, f'{g} has no users but remove_gate raised {err}', rp)
        return
    post = N.snapshot(c)
    rp['result'] = K.net_json(post)
    if g in post.gates:
        col.add('C19/remove_gate/gate-removed', '', feats, size, f'{g} still a gate', rp)
    if post.outputs != [o for o in pre.outputs if o != g]:
        col.add('C19/remove_gate/removed-from-outputs', '', feats, size, f'outputs {pre.outputs} -> {post.outputs}', rp)
    wf = K.wf_first(post, c)
    if wf:
        col.add(f'C19/remove_gate/wf-{wf[0]}', '', feats, size, wf[1], rp)


# ---- replace_subcircuit --------------------------------------------------------------------------------

DOCUMENTED = ('ReplaceSubcircuitError', 'CircuitValidationError', 'CreateBlockError', 'DeleteBlockError', 'CircuitGateAlreadyExistsError')


def sub_pool(k_max):
    """(n_inputs, n_outputs, tt) -> list of replacement nets (labels s*, t*)"""
    pool = {}

    def outsel(nodes):
        res = [nodes[-1:]]
        if len(nodes) >= 2:
            res += [[nodes[-1], nodes[-2]], [nodes[-2], nodes[-1]]]
        return res

    for n in (0, 1, 2):
        for k in range(0, k_max + 1):
            if n == 0 and k == 0:
                continue
            alpha = SUB_ALPHA if n else ('ALWAYS_TRUE', 'ALWAYS_FALSE')
            for net in G.enum_nets(n, k, alpha, max_nary=2, outputs=outsel):
                if n == 0 and any(o for _, o in net.gates.values()):
                    continue
                r = K.relabel(net, lambda s: ('s' + s[1:]) if s.startswith('x') else 't' + s[1:])
                key = (n, len(r.outputs), tuple(map(tuple, N.tt(r))))
                pool.setdefault(key, []).append(r)
    return pool


def cone_function(host, roots, leaves):
    cg, hit = K.cone(host, roots, leaves)
    gates = {l: ('INPUT', ()) for l in leaves}
    for g in host.gates:            # keep host storage order
        if g in cg:
            gates[g] = host.gates[g]
    cn = N.Net(list(leaves), list(roots), gates)
    return cg, hit, cn


def check_replace_sub(host, roots, leaves, sub, identity_labels, col, kind):
    """sub: Net with len(leaves) inputs and len(roots) outputs, equivalent to the cone. identity_labels: rename the
    sub's interface to the host's leaf / root labels (then no rename happens inside replace_subcircuit)."""
    cg, hit, cn = cone_function(host, roots, leaves)
    if identity_labels:
        m = dict(zip(sub.inputs, leaves))
        # outputs of sub may repeat or be inputs: only usable if the map stays a function
        for so, r in zip(sub.outputs, roots):
            if m.get(so, r) != r:
                return False
            m[so] = r
        if len(set(m.values())) < len(m):
            return False
        sub = K.relabel(sub, lambda s: m.get(s, s))
    in_map = dict(zip(leaves, sub.inputs))
    out_map = {}
    for r, so in zip(roots, sub.outputs):
        out_map[r] = so
    feats = set()
    base = ''
    outside_users = {g for g in cg for u, (_, ops) in host.gates.items() if g in ops and u not in cg}
    if any(g in outside_users for g in cg if g not in roots):
        feats.add('inner-gate-used-outside')
    if any(r in outside_users for r in roots):
        feats.add('root-used-outside')
    if any(g in host.outputs for g in cg if g not in roots):
        feats.add('inner-gate-is-output')
    if any(r in host.outputs for r in roots):
        feats.add('root-is-output')
    if any(host.gates[l][0] == 'INPUT' for l in leaves):
        feats.add('leaf-is-input')
    if any(host.gates[l][0] != 'INPUT' for l in leaves):
        feats.add('leaf-is-gate')
    if identity_labels:
        feats.add('identity-labels')
    if len(roots) > 1:
        feats.add('two-roots')
    if len(set(sub.outputs)) < len(sub.outputs) or any(o in sub.inputs for o in sub.outputs):
        feats.add('sub-output-shared-or-input')
    if host.blocks:
        feats.add('host-blocks')
    if kind == 'cone-copy-label-clash':
        feats.add('replacement-label-clashes-with-outside-gate')
    downstream = K.reach(host, list(roots), True)
    if any(l in downstream for l in leaves):
        # A listed "leaf" that itself depends on a root is not a cut of the cone (C19 quantifies over
        # cut-bounded subcircuits: leaves lie below the roots, never in their fan-out). Out of scope: skipped.
        return
    size = len(host.gates) + len(sub.gates)
    rp = {'kind': 'bounded', 'host': host.to_json(), 'subcircuit': sub.to_json(), 'inputs_mapping': in_map, 'outputs_mapping': out_map,
          'call': 'build(host).replace_subcircuit(build(subcircuit), inputs_mapping, outputs_mapping)',
          'cone_truth_table_over_leaves': N.tt(cn), 'subcircuit_truth_table': N.tt(sub), 'replacement_kind': kind}
    c, cs = N.build(host), N.build(sub)
    pre = N.snapshot(c)
    try:
        c.replace_subcircuit(cs, dict(in_map), dict(out_map))
    except Exception as e:
        if type(e).__name__ not in DOCUMENTED:
            col.add('C19/replace_subcircuit/raises-only-documented-errors', base, feats, size, K.exc_str(e), rp)
        return True
    post = N.snapshot(c)
    rp['result'] = K.net_json(post)
    wf = K.wf_first(post, c)
    if wf:
        col.add(f'C19/replace_subcircuit/wf-{wf[0]}', base, feats, size, wf[1], rp)
    if len(post.inputs) != len(pre.inputs) or len(post.outputs) != len(pre.outputs):
        col.add('C19/replace_subcircuit/interface-kept', base, feats, size,
                f'inputs {pre.inputs} -> {post.inputs}, outputs {pre.outputs} -> {post.outputs}', rp)
        return True
    if _evaluable(post):
        want, got = N.tt(pre), N.tt(post)
        if want != got:
            col.add('C19/replace_subcircuit/truth-table-unchanged', base, feats, size, f'tt {want} -> {got}', dict(rp, expected_tt=want, observed_tt=got))
    elif not wf:
        col.add('C19/replace_subcircuit/truth-table-unchanged', base, feats, size, 'result cannot be evaluated', rp)
    return True


def sub_cases(host, pool, rng, max_leaves, per_key):
    """(roots, leaves, sub, identity, kind) for one host"""
    non_in = [g for g in host.gates if host.gates[g][0] != 'INPUT']
    allg = list(host.gates)
    for nr in (1, 2):
        for roots in itertools.permutations(non_in, nr):
            if nr == 2 and roots[0] > roots[1] and rng.random() < 0.5:
                continue
            rest = [g for g in allg if g not in roots]
            for nl in range(0, max_leaves + 1):
                for leaves in itertools.combinations(rest, nl):
                    cg, hit, cn = cone_function(host, roots, leaves)
                    if hit or not _evaluable(cn):
                        continue            # the cone's function over the listed leaves is defined only for closed cuts
                    # (a) structural copy of the cone with fresh labels
                    ren = {g: f'c_{g}' for g in cn.gates}
                    yield roots, leaves, K.relabel(cn, lambda s: ren[s]), False, 'cone-copy'
                    yield roots, leaves, cn, True, 'cone-copy'
                    # (a') the same copy, but one INTERNAL gate of the replacement carries the label of a host gate that
                    # stays outside the replaced block: must be refused with a documented error or handled correctly,
                    # never silently overwrite the host gate
                    inner = [g for g in cn.gates if cn.gates[g][0] != 'INPUT' and g not in cn.outputs]
                    outside = [g for g in allg if g not in cg and g not in leaves and g not in roots]
                    if inner and outside:
                        ren2 = dict(ren)
                        ren2[inner[0]] = outside[rng.randrange(len(outside))]
                        if len(set(ren2.values())) == len(ren2):
                            yield roots, leaves, K.relabel(cn, lambda s: ren2[s]), False, 'cone-copy-label-clash'
                    # (b) every pool circuit with the same function (bounded per key)
                    key = (len(leaves), len(roots), tuple(map(tuple, N.tt(cn))))
                    cands = pool.get(key, [])
                    if len(cands) > per_key:
                        cands = rng.sample(cands, per_key)
                    for s in cands:
                        yield roots, leaves, s, False, 'pool'
                        if rng.random() < 0.3:
                            yield roots, leaves, s, True, 'pool'


# ---- chunks --------------------------------------------------------------------------------------------

def _outsel(nodes):
    res = [nodes[-1:]]
    if len(nodes) >= 2:
        res.append([nodes[0], nodes[-1], nodes[-1]])
        res.append(list(nodes))
    return res


def _with_block(net):
    non_in = [g for g in net.gates if net.gates[g][0] != 'INPUT']
    if not non_in:
        return net
    blocks = {'B0': {'inputs': list(net.inputs[:1]), 'gates': non_in[:1], 'outputs': non_in[:1]},
              'B1': {'inputs': list(net.inputs), 'gates': list(non_in), 'outputs': list(net.outputs)}}
    return N.Net(net.inputs, net.outputs, net.gates, blocks=blocks)


def hosts(n_in, k, stride, rng):
    for idx, net in enumerate(G.enum_nets(n_in, k, ALPHA, max_nary=3 if k <= 1 else 2, outputs=_outsel)):
        if idx % stride:
            continue
        yield _with_block(net) if idx % 2 else net


def _subsets(xs):
    for r in range(len(xs) + 1):
        yield from itertools.combinations(xs, r)


def _local_ops(net, col, cnt):
    for g in net.gates:
        check_rename(net, g, 'fresh_label', col)
        cnt[RN] += 1
        check_remove(net, g, col)
        cnt[RG] += 1
    for T in _subsets(net.inputs):
        for F in _subsets([i for i in net.inputs if i not in T]):
            check_replace_inputs(net, list(T), list(F), col)
            cnt[RI] += 1


def _worker(task):
    env.setup_import_paths()
    col = K.Collector()
    cnt = {RN: 0, RI: 0, RG: 0, RS: 0}
    keys = {RN: set(), RI: set(), RG: set(), RS: set()}
    samples = {RS: []}
    kind = task[0]
    if kind == 'local':
        _, n_in, k, stride = task
        rng = K.rng_for('C19', 'local', n_in, k)
        for net in hosts(n_in, k, stride, rng):
            _local_ops(net, col, cnt)
            for nm in (RN, RI, RG):
                keys[nm].add(hash(net.key()))
    elif kind == 'local-random':
        _, count, part = task[:3]
        budget = K.Budget(task[3]) if len(task) > 3 else None
        rng = K.rng_for('C19', 'local-random', part)
        for _i in range(count):
            if budget and budget.over():
                break
            net = G.random_net(rng, n_inputs=rng.randint(0, 3), k_gates=rng.randint(1, 7), allow_no_outputs=True, large_every=60)
            if N.arity(net):
                continue
            if rng.random() < 0.5:
                net = _with_block(net)
            _local_ops(net, col, cnt)
            for nm in (RN, RI, RG):
                keys[nm].add(hash(net.key()))
    elif kind == 'sub':
        _, n_in, k, stride, sub_k, per_key, part, parts = task
        rng = K.rng_for('C19', 'sub', n_in, k, part)
        pool = sub_pool(sub_k)
        for idx, host in enumerate(hosts(n_in, k, stride, rng)):
            if idx % parts != part:
                continue
            for roots, leaves, sub, ident, knd in sub_cases(host, pool, rng, 2, per_key):
                if check_replace_sub(host, list(roots), list(leaves), sub, ident, col, knd):
                    cnt[RS] += 1
                    keys[RS].add(hash((host.key(), roots, leaves, sub.key(), ident)))
                    if len(samples[RS]) < 2 and knd == 'pool' and leaves:
                        samples[RS].append({'host': host.to_json(), 'roots': list(roots), 'leaves': list(leaves), 'subcircuit': sub.to_json()})
    elif kind == 'sub-random':
        _, count, sub_k, part = task[:4]
        budget = K.Budget(task[4]) if len(task) > 4 else None
        rng = K.rng_for('C19', 'sub-random', part)
        pool = sub_pool(sub_k)
        for _i in range(count):
            if budget and budget.over():
                break
            host = G.random_net(rng, n_inputs=rng.randint(1, 3), k_gates=rng.randint(2, 6), alphabet=ALPHA, max_nary=3)
            if N.arity(host):
                continue
            if rng.random() < 0.3:
                host = _with_block(host)
            cs = list(sub_cases(host, pool, rng, 2, 2))
            for roots, leaves, sub, ident, knd in (rng.sample(cs, 12) if len(cs) > 12 else cs):
                if check_replace_sub(host, list(roots), list(leaves), sub, ident, col, knd):
                    cnt[RS] += 1
                    keys[RS].add(hash((host.key(), roots, leaves, sub.key(), ident)))
    return cnt, keys, samples, col.items


def run_bounded(rep, quick):
    rule_host = f'hosts: all circuits with n inputs and K gates over {list(ALPHA)} x 3 output selections (every other one with two blocks), and seeded random circuits'
    rep.bounded_driver(RN, 'rename_gate(g, fresh) for every gate g: post-state == image of the pre-state under g->fresh (gates/operands, users multisets, '
                       'inputs, outputs, blocks), WF + real top_sort, truth table (spec evaluator) unchanged; ' + rule_host,
                       'quick: n<=2, K<=2 (every 5th for K=2) + 150 random; thorough: n<=2 K<=2 all + 6000 random', exhaustive=False)
    rep.bounded_driver(RI, 'replace_inputs(T, F) for all disjoint T, F of the inputs: inputs == remaining in original order, outputs kept, '
                       'truth table == cofactor computed by the spec evaluator on the ORIGINAL netlist; ' + rule_host,
                       'as above', exhaustive=False)
    rep.bounded_driver(RG, 'remove_gate(g) for every gate g: returns normally iff no gate lists g as operand; then g is gone, removed from outputs '
                       '(all occurrences), WF + real top_sort; ' + rule_host, 'as above', exhaustive=False)
    rep.bounded_driver(RS, 'replace_subcircuit(sub, in_map, out_map) for every host x 1..2 roots x every cut of <=2 leaves (any gates, incl. superfluous leaves) that '
                       'closes the cone x replacements with the same function over the leaves (a relabelled copy of the '
                       'cone; pool circuits with <=K_s gates with equal truth table; fresh labels and labels identical to the host interface): '
                       'either one of the five documented errors, or interface sizes kept, truth table (spec evaluator) unchanged, WF + real top_sort; '
                       + rule_host, 'quick: hosts n<=2 K<=2 (sampled), K_s<=1, <=2 pool circuits per function + 60 random hosts; '
                       'thorough: hosts K<=3 sampled, K_s<=2, <=6 per function + 4000 random hosts', exhaustive=False)
    tasks = []
    if quick:
        tasks += [('local', n, k, 1) for n in (1, 2) for k in (0, 1)]
        tasks += [('local', 1, 2, 2), ('local', 2, 2, 12), ('local-random', 150, 0, 3.0)]
        tasks += [('sub', 1, 1, 1, 1, 2, 0, 1), ('sub', 2, 1, 2, 1, 2, 0, 1), ('sub', 1, 2, 6, 1, 2, 0, 1), ('sub', 2, 2, 60, 1, 2, 0, 1),
                  ('sub-random', 60, 1, 0, 4.0)]
    else:
        tasks += [('local', n, k, 1) for n in (1, 2, 3) for k in (0, 1)]
        tasks += [('local', 1, 2, 1), ('local', 2, 2, 1)]
        tasks += [('local-random', 400, p) for p in range(16)]
        tasks += [('sub', 1, 1, 1, 2, 6, 0, 1), ('sub', 2, 1, 1, 2, 6, 0, 1)]
        tasks += [('sub', 1, 2, 1, 2, 4, p, 8) for p in range(8)]
        tasks += [('sub', 2, 2, 4, 2, 3, p, 32) for p in range(32)]
        tasks += [('sub', 2, 3, 600, 2, 3, p, 16) for p in range(16)]
        tasks += [('sub-random', 250, 2, p) for p in range(16)]
    col = K.Collector()
    for cnt, keys, samples, items in K.run_chunks(_worker, tasks, quick):
        for nm in (RN, RI, RG, RS):
            K.account(rep, nm, cnt[nm], keys[nm], samples.get(nm, []))
        col.merge(items)
    col.flush(rep)

"""C09 bounded stand-in: subtraction, division, square root, equality and the small gadgets (DESIGN §6 C09, paragraph B).

Checks, taken from the statement of C09:
  add_sub_two_numbers        len(a) result bits that decode to (a-b) mod 2^len(a);
  add_subtract_with_compare  result decodes to (a-b) mod 2^len(a) and the flag is True exactly when a < b.
                             Interpretation for unequal lengths (statement and docstring are silent): the function pads
                             the shorter operand with zeros, so both operands are read as plain unsigned numbers of their
                             own length; the result has max(len a, len b) bits, and the driver demands only what the
                             statement says: at least len(a) result bits whose low len(a) bits are (a-b) mod 2^len(a),
                             where "low" is by significance (the list is reversed first for big_endian);
  add_div_mod                equal widths (unequal widths raise the documented DifferentShapesError, not a violation);
                             (floor(a/b), a mod b), (0, 0) for b = 0; n bits each;
  add_sqrt                   floor(sqrt(a)) on ceil(n/2) bits;
  add_equal                  returned gate is True exactly when the little-endian operand equals num, for every integer
                             num (never when num is negative or >= 2^n);
  add_plus_one               (x+1) mod 2^out on out result bits; outputs are marked only when add_outputs is true; returns
                             result_labels when given; works on internal gates;
  add_if_then_else, add_pairwise_if_then_else, add_pairwise_xor    pointwise definitions, result_label(s) given or not,
                             add_outputs on/off;
  leaf add_sub2 / add_sub3   res - 2*borrow = a - b (- borrow_in);
  every add_* form           no exception on arbitrary existing gates; pre-existing gates keep label, type, operands,
                             function; only fresh non-input gates; outputs change only when asked; well formed result;
  generate_* wrappers        the same value claims on the returned circuit (inputs/outputs positional).

Operand modes beyond bare / decorated / host / hostrand (see _arith_common), at small widths, for add_sub_two_numbers,
add_subtract_with_compare, add_div_mod, add_sqrt, add_equal, add_plus_one:
  adversarial   the operands are inputs of a host that already holds gates of all 14 binary types over the first two
                bit positions of the operand pair in both operand orders (e.g. LT(b0, a0) when add_sub2 wants
                LT(a0, b0)) plus NOT/IFF of the first bits; same value and frame clauses;
  twice         the generator is first called with the operands swapped (b, a) and then, in the same circuit, with
                (a, b); the second call is checked as usual (its frame = the circuit after the first call) and the
                result of the first call is checked again in the final circuit (one-operand generators: same operand
                twice; add_equal: first with num xor 1).
A failure gets the token `adversarial-host` / `called-twice` only when the bare variant of the same case passes.
"""
import math

from . import _arith_common as K
from ._arith_common import Core, Frame, Variant, make_env, replay

PROP = 'C09'
D_SUB = 'subtractors'
D_DIV = 'div-mod'
D_SQRT = 'sqrt'
D_EQ = 'equality'
D_P1 = 'plus-one'
D_GAD = 'ite-and-pairwise-gadgets'


def _A():
    import cirbo.synthesis.generation.arithmetics as A
    return A


def _G():
    import cirbo.synthesis.generation.generation as Gn
    return Gn


def _rev(x, be):
    x = list(x)
    return x[::-1] if be else x


def _call(fn_name, f, v, args, fr, *a, **kw):
    try:
        return f(*a, **kw), [], None
    except Exception as e:  # noqa
        tn, msg, where, names = K.exc_info(e)
        return None, [('no-exception', f'{fn_name}({args}) raised {tn}: {msg} at {where}',
                       replay(fn_name, v, args, fr, observed=f'{tn}: {msg} at {where}', expected='no exception'))], (tn, names)


def _value(fn, v, env, vals, res_le, exp, args, fr, what, clause='value'):
    miss = K.labels_missing(vals, res_le)
    if miss:
        return [(clause, f'{fn}({args}): returned label {miss[0]!r} is not a gate of the circuit',
                 replay(fn, v, args, fr, observed=[str(x) for x in res_le], expected='labels of gates'))]
    bad = K.compare_bits(env, vals, res_le, exp)
    if bad:
        return [(clause, f'{fn}({args}): {what}: operands {bad["operands"]} -> observed {bad["observed"]}, expected {bad["expected"]}',
                 replay(fn, v, args, fr, failing_input=bad['inputs'], operand_values=bad['operands'],
                        observed=bad['observed'], expected=bad['expected']))]
    return []


def _length(fn, v, got, want, args, fr):
    if got != want:
        return [('length', f'{fn}({args}): {got} result bits, expected {want}', replay(fn, v, args, fr, observed=got, expected=want))]
    return []


def _gen_env(c, widths, be):
    net = K.N.snapshot(c)
    if len(net.inputs) != sum(widths):
        return None, net, None
    ops_le, p = [], 0
    for w in widths:
        ops_le.append(_rev(net.inputs[p:p + w], be))
        p += w
    env = K.env_for_generated(c, ops_le)
    vals = K.simulate(net, env.in_vecs, env.mask)
    env.op_vecs = [[vals[l] for l in o] for o in env.ops]
    return env, net, vals


def _gen_guard(fn, v, c, widths, args):
    net = K.N.snapshot(c)
    if len(net.inputs) != sum(widths):
        return [('value', f'{fn}({args}): {len(net.inputs)} inputs, expected {sum(widths)}', replay(fn, v, args))]
    wf = K.N.wf_violations(net)
    if wf:
        return [('frame-wf', f'{fn}({args}): {wf[:3]}', replay(fn, v, args))]
    return []


# ------------------------------------------------------------------------------------------------
# subtraction
# ------------------------------------------------------------------------------------------------
def task_sub(out, n, m, modes):
    A = _A()
    tok = None if n == m else 'unequal-lengths'
    sub = lambda a, b, n=n: (a - b) % (1 << n)
    bus = lambda a, b, m=m: (b - a) % (1 << m)     # the swapped call of the 'twice' mode
    fn = 'add_sub_two_numbers'
    core = Core(PROP, fn, tok)
    for mode in modes:
        for be in (False, True):
            v = Variant(be, mode)
            env = make_env(mode, [n, m], salt=(fn, be))
            la, lb = _rev(env.ops[0], be), _rev(env.ops[1], be)
            args = {'input_labels_a': la, 'input_labels_b': lb, 'big_endian': be}
            tw = None
            if mode == 'twice':
                tw = K.Twice(fn, v, env)
                tw.first(A.add_sub_two_numbers, {'input_labels_a': lb, 'input_labels_b': la, 'big_endian': be}, env.circuit, list(lb), list(la), big_endian=be)
            fr = Frame(env)
            res, fails, _ = _call(fn, A.add_sub_two_numbers, v, args, fr, env.circuit, list(la), list(lb), big_endian=be)
            out.case(D_SUB, (fn, n, m, mode, be), sample={'function': fn, 'n': n, 'm': m, 'big_endian': be} if (n, m, mode) == (3, 2, 'bare') else None)
            if not fails:
                fails += fr.failures(fn, v, args)
                if fr.vals is not None:
                    fails += _value(fn, v, env, fr.vals, _rev(res, be), K.expected_vectors(env, ('a-b mod', n), sub), args, fr, '(a-b) mod 2^len(a)')
                    fails += _length(fn, v, len(res), n, args, fr)
                    if tw is not None and tw.result is not None:
                        fails += tw.check(fr, 'value', _rev(tw.result, be), K.expected_vectors(env, ('b-a mod', m), bus), '(b-a) mod 2^len(b)', args)
            if tw is not None:
                fails += tw.fail
            core.add(v, fails)
    core.flush(out)
    gname = 'generate_sub_two_numbers'
    core = Core(PROP, gname, tok, delegate=fn)
    for be in (False, True):
        v = Variant(be, 'generated')
        args = {'size_of_input_a': n, 'size_of_input_b': m, 'big_endian': be}
        c, fails, _ = _call(gname, A.generate_sub_two_numbers, v, args, None, n, m, big_endian=be)
        out.case(D_SUB, (gname, n, m, be))
        if not fails:
            fails += _gen_guard(gname, v, c, [n, m], args)
            if not fails:
                env, net, vals = _gen_env(c, [n, m], be)
                fails += _value(gname, v, env, vals, _rev(net.outputs, be), K.expected_vectors(env, ('a-b mod', n), sub), args, None, '(a-b) mod 2^len(a)')
                fails += _length(gname, v, len(net.outputs), n, args, None)
        core.add(v, fails)
    core.flush(out)
    fn = 'add_subtract_with_compare'
    core = Core(PROP, fn, tok)
    for mode in modes:
        for be in (False, True):
            v = Variant(be, mode)
            env = make_env(mode, [n, m], salt=(fn, be))
            la, lb = _rev(env.ops[0], be), _rev(env.ops[1], be)
            args = {'input_labels_a': la, 'input_labels_b': lb, 'big_endian': be}
            tw = None
            if mode == 'twice':
                tw = K.Twice(fn, v, env)
                tw.first(A.add_subtract_with_compare, {'input_labels_a': lb, 'input_labels_b': la, 'big_endian': be}, env.circuit, list(lb), list(la), big_endian=be)
            fr = Frame(env)
            r, fails, _ = _call(fn, A.add_subtract_with_compare, v, args, fr, env.circuit, list(la), list(lb), big_endian=be)
            out.case(D_SUB, (fn, n, m, mode, be), sample={'function': fn, 'n': n, 'm': m, 'big_endian': be} if (n, m, mode) == (2, 3, 'bare') else None)
            if not fails:
                fails += fr.failures(fn, v, args)
                if fr.vals is not None:
                    try:
                        res, flag = r
                        res = list(res)
                    except Exception:  # noqa
                        fails.append(('value', f'{fn}({args}) returned {r!r}: not (labels, label)', replay(fn, v, args, fr)))
                        res = None
                    if res is not None:
                        if len(res) < n:
                            fails += _length(fn, v, len(res), f'>= {n}', args, fr)
                        else:
                            low = _rev(res, be)[:n]
                            fails += _value(fn, v, env, fr.vals, low, K.expected_vectors(env, ('a-b mod', n), sub), args, fr,
                                            'low len(a) bits vs (a-b) mod 2^len(a)')
                        # a wrong difference and a wrong borrow of the same call have one cause (the borrow chain of the
                        # very same subtractor): the flag clause is reported only where the difference is right
                        if not any(f[0] == 'value' for f in fails):
                            fails += _value(fn, v, env, fr.vals, [flag], K.expected_vectors(env, 'a<b', lambda a, b: int(a < b)), args, fr,
                                            'flag vs (a < b)', clause='borrow-flag')
                    if tw is not None and tw.result is not None:
                        try:
                            res1, flag1 = tw.result
                            res1 = list(res1)
                        except Exception:  # noqa
                            res1 = None
                        if res1 is not None and len(res1) >= m:
                            f1 = tw.check(fr, 'value', _rev(res1, be)[:m], K.expected_vectors(env, ('b-a mod', m), bus), 'low len(b) bits vs (b-a) mod 2^len(b)', args)
                            if not f1:
                                f1 = tw.check(fr, 'borrow-flag', [flag1], K.expected_vectors(env, 'b<a', lambda a, b: int(b < a)), 'flag vs (b < a)', args)
                            fails += f1
            if tw is not None:
                fails += tw.fail
            core.add(v, fails)
    core.flush(out)


def task_sub_leaf(out, modes):
    A = _A()
    for fn, k in (('add_sub2', 2), ('add_sub3', 3)):
        core = Core(PROP, fn)
        for mode in modes:
            v = Variant(False, mode)
            env = make_env(mode, [1] * k, salt=(fn,))
            fr = Frame(env)
            x = [o[0] for o in env.ops]
            args = {'input_labels': x}
            res, fails, _ = _call(fn, getattr(A, fn), v, args, fr, env.circuit, list(x))
            out.case(D_SUB, (fn, mode))
            if not fails:
                fails += fr.failures(fn, v, args)
                if fr.vals is not None and not K.labels_missing(fr.vals, res):
                    xs = [fr.pre_vals[l] for l in x]
                    # res - 2*borrow = x0 - x1 (- x2)   <=>   res + x1 (+ x2) = x0 + 2*borrow
                    mm = K.linear_mismatch([(1, fr.vals[res[0]])] + [(1, t) for t in xs[1:]], [(1, xs[0]), (2, fr.vals[res[1]])], env.P)
                    if mm:
                        j, got, want = mm
                        fails.append(('value', f'{fn}: res + subtrahends = {got} but minuend + 2*borrow = {want} on {env.assignment(j)}',
                                      replay(fn, v, args, fr, failing_input=env.assignment(j), observed=got, expected=want)))
            core.add(v, fails)
        core.flush(out)


# ------------------------------------------------------------------------------------------------
# div-mod, sqrt
# ------------------------------------------------------------------------------------------------
def _div(a, b):
    return a // b if b else 0


def _mod(a, b):
    return a % b if b else 0


def task_divmod(out, n, modes):
    A = _A()
    fn = 'add_div_mod'
    core = Core(PROP, fn)
    for mode in modes:
        for be in (False, True):
            v = Variant(be, mode)
            env = make_env(mode, [n, n], salt=(fn, be))
            la, lb = _rev(env.ops[0], be), _rev(env.ops[1], be)
            args = {'input_labels_a': la, 'input_labels_b': lb, 'big_endian': be}
            tw = None
            if mode == 'twice':
                tw = K.Twice(fn, v, env)
                tw.first(A.add_div_mod, {'input_labels_a': lb, 'input_labels_b': la, 'big_endian': be}, env.circuit, list(lb), list(la), big_endian=be)
            fr = Frame(env)
            r, fails, _ = _call(fn, A.add_div_mod, v, args, fr, env.circuit, list(la), list(lb), big_endian=be)
            out.case(D_DIV, (fn, n, mode, be), sample={'function': fn, 'n': n, 'big_endian': be} if (n, mode) == (3, 'bare') else None)
            if not fails:
                fails += fr.failures(fn, v, args)
                if fr.vals is not None:
                    d, md = list(r[0]), list(r[1])
                    fails += _value(fn, v, env, fr.vals, _rev(d, be), K.expected_vectors(env, 'a//b', _div), args, fr, 'floor(a/b) (0 for b=0)', clause='div')
                    fails += _value(fn, v, env, fr.vals, _rev(md, be), K.expected_vectors(env, 'a%b', _mod), args, fr, 'a mod b (0 for b=0)', clause='mod')
                    fails += _length(fn, v, (len(d), len(md)), (n, n), args, fr)
                    if tw is not None and tw.result is not None:
                        d1, md1 = list(tw.result[0]), list(tw.result[1])
                        fails += tw.check(fr, 'div', _rev(d1, be), K.expected_vectors(env, 'b//a', lambda a, b: _div(b, a)), 'floor(b/a) (0 for a=0)', args)
                        fails += tw.check(fr, 'mod', _rev(md1, be), K.expected_vectors(env, 'b%a', lambda a, b: _mod(b, a)), 'b mod a (0 for a=0)', args)
            if tw is not None:
                fails += tw.fail
            core.add(v, fails)
    core.flush(out)
    gname = 'generate_div_mod'
    core = Core(PROP, gname, delegate=fn)
    for be in (False, True):
        v = Variant(be, 'generated')
        args = {'n': n, 'big_endian': be}
        c, fails, _ = _call(gname, A.generate_div_mod, v, args, None, n, big_endian=be)
        out.case(D_DIV, (gname, n, be))
        if not fails:
            fails += _gen_guard(gname, v, c, [n, n], args)
            if not fails:
                env, net, vals = _gen_env(c, [n, n], be)
                fails += _length(gname, v, len(net.outputs), 2 * n, args, None)
                if len(net.outputs) == 2 * n:
                    fails += _value(gname, v, env, vals, _rev(net.outputs[:n], be), K.expected_vectors(env, 'a//b', _div), args, None, 'floor(a/b)', clause='div')
                    fails += _value(gname, v, env, vals, _rev(net.outputs[n:], be), K.expected_vectors(env, 'a%b', _mod), args, None, 'a mod b', clause='mod')
        core.add(v, fails)
    core.flush(out)


def task_sqrt(out, n, modes):
    A = _A()
    fn = 'add_sqrt'
    core = Core(PROP, fn, 'odd-width' if n % 2 else None)
    want = (n + 1) // 2
    for mode in modes:
        for be in (False, True):
            v = Variant(be, mode)
            env = make_env(mode, [n], salt=(fn, be))
            la = _rev(env.ops[0], be)
            args = {'input_labels': la, 'big_endian': be}
            tw = None
            if mode == 'twice':
                tw = K.Twice(fn, v, env)
                tw.first(A.add_sqrt, args, env.circuit, list(la), big_endian=be)
            fr = Frame(env)
            res, fails, _ = _call(fn, A.add_sqrt, v, args, fr, env.circuit, list(la), big_endian=be)
            out.case(D_SQRT, (fn, n, mode, be), sample={'function': fn, 'n': n, 'big_endian': be} if (n, mode) == (4, 'bare') else None)
            if not fails:
                fails += fr.failures(fn, v, args)
                if fr.vals is not None:
                    fails += _value(fn, v, env, fr.vals, _rev(res, be), K.expected_vectors(env, 'isqrt', math.isqrt), args, fr, 'floor(sqrt(a))')
                    fails += _length(fn, v, len(res), want, args, fr)
                    if tw is not None and tw.result is not None:
                        fails += tw.check(fr, 'value', _rev(tw.result, be), K.expected_vectors(env, 'isqrt', math.isqrt), 'floor(sqrt(a))', args)
            if tw is not None:
                fails += tw.fail
            core.add(v, fails)
    core.flush(out)
    gname = 'generate_sqrt'
    core = Core(PROP, gname, 'odd-width' if n % 2 else None, delegate=fn)
    for be in (False, True):
        v = Variant(be, 'generated')
        args = {'inp_len': n, 'big_endian': be}
        c, fails, _ = _call(gname, A.generate_sqrt, v, args, None, n, big_endian=be)
        out.case(D_SQRT, (gname, n, be))
        if not fails:
            fails += _gen_guard(gname, v, c, [n], args)
            if not fails:
                env, net, vals = _gen_env(c, [n], be)
                fails += _value(gname, v, env, vals, _rev(net.outputs, be), K.expected_vectors(env, 'isqrt', math.isqrt), args, None, 'floor(sqrt(a))')
                fails += _length(gname, v, len(net.outputs), want, args, None)
        core.add(v, fails)
    core.flush(out)


# ------------------------------------------------------------------------------------------------
# equality
# ------------------------------------------------------------------------------------------------
def task_equal(out, n, modes):
    A = _A()
    for num in range(-(1 << n) - 2, (1 << (n + 1)) + 2):
        tok = 'negative-num' if num < 0 else 'num>=2^n' if num >= (1 << n) else None
        eq = lambda a, num=num: int(a == num)
        fn = 'add_equal'
        core = Core(PROP, fn, tok)
        for mode in modes:
            v = Variant(False, mode)
            env = make_env(mode, [n], salt=(fn,))
            la = list(env.ops[0])
            args = {'input_labels': la, 'num': num}
            tw = None
            if mode == 'twice':
                tw = K.Twice(fn, v, env)
                tw.first(A.add_equal, {'input_labels': la, 'num': num ^ 1}, env.circuit, list(la), num ^ 1)
            fr = Frame(env)
            res, fails, _ = _call(fn, A.add_equal, v, args, fr, env.circuit, list(la), num)
            out.case(D_EQ, (fn, n, num, mode), sample={'function': fn, 'n': n, 'num': num} if (n, num, mode) == (3, 5, 'bare') else None)
            if not fails:
                fails += fr.failures(fn, v, args)
                if fr.vals is not None:
                    fails += _value(fn, v, env, fr.vals, [res], K.expected_vectors(env, ('a==', num), eq), args, fr,
                                    f'gate value (as 0/1) vs (operand == {num})')
                    if tw is not None and tw.result is not None:
                        fails += tw.check(fr, 'value', [tw.result], K.expected_vectors(env, ('a==', num ^ 1), lambda a, k=num ^ 1: int(a == k)),
                                          f'gate value (as 0/1) vs (operand == {num ^ 1})', args)
            if tw is not None:
                fails += tw.fail
            core.add(v, fails)
        core.flush(out)
        gname = 'generate_equal'
        core = Core(PROP, gname, tok, delegate=fn)
        v = Variant(False, 'generated')
        args = {'number_inputs': n, 'num': num}
        c, fails, _ = _call(gname, A.generate_equal, v, args, None, n, num)
        out.case(D_EQ, (gname, n, num))
        if not fails:
            fails += _gen_guard(gname, v, c, [n], args)
            if not fails:
                env, net, vals = _gen_env(c, [n], False)
                fails += _length(gname, v, len(net.outputs), 1, args, None)
                if len(net.outputs) == 1:
                    fails += _value(gname, v, env, vals, list(net.outputs), K.expected_vectors(env, ('a==', num), eq), args, None, f'output vs (input == {num})')
        core.add(v, fails)
        core.flush(out)


# ------------------------------------------------------------------------------------------------
# plus one
# ------------------------------------------------------------------------------------------------
def _classify_exception(info, mode, add_outputs):
    """witness class of an exception raised by a gadget that has add_outputs / works on host gates: names the call of
    the real code that raised (from the traceback) together with the argument feature that makes it raise."""
    tn, names = info
    if 'order_inputs' in names:
        return 'internal-gate-operands' if mode not in ('bare', 'decorated', 'twice') + K.ADVERSARIAL_MODES else f'order_inputs-{tn}'
    if 'order_outputs' in names:
        return 'add_outputs=False' if not add_outputs else f'order_outputs-{tn}'
    return None


def task_plus_one(out, inp_len, modes):
    Gn = _G()
    fn = 'add_plus_one'
    for out_len in (None, 1, 2, 3, 4, 5):
        olen = inp_len + 1 if out_len is None else out_len
        inc = lambda a, olen=olen: (a + 1) % (1 << olen)
        tok_len = 'default-result-labels' if out_len is None else None
        for add_outputs in (True, False):
            core = Core(PROP, fn, None)
            for mode in modes:
                for be in (False, True):
                    v = Variant(be, mode)
                    env = make_env(mode, [inp_len], salt=(fn, be, out_len, add_outputs))
                    la = _rev(env.ops[0], be)
                    tw = None
                    if mode == 'twice':     # first call: default result labels, same operand
                        tw = K.Twice(fn, v, env)
                        tw.first(Gn.add_plus_one, {'input_labels': la, 'result_labels': None, 'add_outputs': add_outputs, 'big_endian': be},
                                 env.circuit, list(la), add_outputs=add_outputs, big_endian=be)
                    fr = Frame(env)
                    given = None if out_len is None else _rev([f'res{i}' for i in range(out_len)], be)
                    args = {'input_labels': la, 'result_labels': given, 'add_outputs': add_outputs, 'big_endian': be}
                    kw = {'add_outputs': add_outputs, 'big_endian': be}
                    if given is not None:
                        kw['result_labels'] = list(given)
                    res, fails, info = _call(fn, Gn.add_plus_one, v, args, fr, env.circuit, list(la), **kw)
                    out.case(D_P1, (fn, inp_len, out_len, add_outputs, mode, be),
                             sample={'function': fn, **{k: str(x) for k, x in args.items()}} if (inp_len, out_len, mode, be) == (2, 3, 'bare', False) else None)
                    if fails:
                        w = _classify_exception(info, mode, add_outputs)
                        if w is not None:
                            fails = [fails[0] + (w,)]
                        # the gates and output marks made before the exception are still observable
                        post = K.N.snapshot(env.circuit)
                        if not add_outputs and post.outputs != fr.pre.outputs:
                            fails.append(('outputs-only-when-asked', f'{fn}({args}): outputs {fr.pre.outputs} became {post.outputs} although add_outputs=False',
                                          replay(fn, v, args, fr, observed=post.outputs, expected=fr.pre.outputs), 'add_outputs=False'))
                    else:
                        res = list(res)
                        fr_f = fr.after(new_outputs=res if add_outputs else None)
                        for f in fr_f:
                            if f[0] == 'outputs-only-when-asked':
                                f = (f[0], f'{fn}({args}): ' + f[1], replay(fn, v, args, fr, observed=fr.post.outputs, expected=fr.pre.outputs), 'add_outputs=False')
                            else:
                                f = (f[0], f'{fn}({args}): ' + f[1], replay(fn, v, args, fr))
                            fails.append(f)
                        if given is not None and res != given:
                            fails.append(('returns-result-labels', f'{fn}({args}) returned {res}', replay(fn, v, args, fr, observed=res, expected=given)))
                        if fr.vals is not None:
                            fails += _value(fn, v, env, fr.vals, _rev(res, be), K.expected_vectors(env, ('a+1 mod', olen), inc), args, fr, f'(x+1) mod 2^{olen}')
                            fails += _length(fn, v, len(res), olen, args, fr)
                            if tw is not None and tw.result is not None:
                                fails += tw.check(fr, 'value', _rev(tw.result, be), K.expected_vectors(env, ('a+1 mod', inp_len + 1), lambda a: a + 1),
                                                  f'(x+1) mod 2^{inp_len + 1}', args)
                    if tw is not None:
                        fails += tw.fail
                    core.add(v, fails)
            core.flush(out)
    # generate_plus_one
    gname = 'generate_plus_one'
    for out_len in (1, 2, 3, 4, 5, 6):
        inc = lambda a, olen=out_len: (a + 1) % (1 << olen)
        core = Core(PROP, gname, delegate=fn)
        for be in (False, True):
            v = Variant(be, 'generated')
            args = {'inp_len': inp_len, 'out_len': out_len, 'big_endian': be}
            c, fails, _ = _call(gname, Gn.generate_plus_one, v, args, None, inp_len, out_len, big_endian=be)
            out.case(D_P1, (gname, inp_len, out_len, be))
            if not fails:
                fails += _gen_guard(gname, v, c, [inp_len], args)
                if not fails:
                    env, net, vals = _gen_env(c, [inp_len], be)
                    fails += _value(gname, v, env, vals, _rev(net.outputs, be), K.expected_vectors(env, ('a+1 mod', out_len), inc), args, None, f'(x+1) mod 2^{out_len}')
                    fails += _length(gname, v, len(net.outputs), out_len, args, None)
            core.add(v, fails)
        core.flush(out)


# ------------------------------------------------------------------------------------------------
# if-then-else, pairwise gadgets
# ------------------------------------------------------------------------------------------------
def _gadget(out, fn, f, n, k_ops, modes, expect, given_names, call_args):
    """k_ops operand groups of n bits each; expect(list of groups of vectors, mask) -> list of n expected vectors."""
    for add_outputs in (False, True):
        for with_labels in (False, True):
            core = Core(PROP, fn, None)
            for mode in modes:
                v = Variant(False, mode)
                env = make_env(mode, [n] * k_ops, salt=(fn, add_outputs, with_labels))
                fr = Frame(env)
                given = given_names(n) if with_labels else None
                a, kw, args = call_args(env.ops, given, add_outputs)
                r, fails, info = _call(fn, f, v, args, fr, env.circuit, *a, **kw)
                out.case(D_GAD, (fn, n, mode, add_outputs, with_labels),
                         sample={'function': fn, **{k: str(x) for k, x in args.items()}} if (n, mode) == (1, 'bare') else None)
                if fails:
                    w = _classify_exception(info, mode, add_outputs)
                    if w is not None:
                        fails = [fails[0] + (w,)]
                else:
                    res = [r] if isinstance(r, str) else list(r)
                    for fcl in fr.after(new_outputs=res if add_outputs else None):
                        w = 'add_outputs=False' if fcl[0] == 'outputs-only-when-asked' else 'add_outputs=True' if fcl[0] == 'outputs-as-asked' else None
                        t = (fcl[0], f'{fn}({args}): ' + fcl[1], replay(fn, v, args, fr))
                        fails.append(t + (w,) if w else t)
                    if given is not None and res != (given if isinstance(given, list) else [given]):
                        fails.append(('returns-result-labels', f'{fn}({args}) returned {res}', replay(fn, v, args, fr, observed=res, expected=given)))
                    if fr.vals is not None:
                        miss = K.labels_missing(fr.vals, res)
                        if miss:
                            fails.append(('value', f'{fn}({args}): returned label {miss[0]!r} is not a gate', replay(fn, v, args, fr)))
                        elif len(res) != n:
                            fails += _length(fn, v, len(res), n, args, fr)
                        else:
                            exp = expect(env.op_vecs, env.mask)
                            for i in range(n):
                                if fr.vals[res[i]] != exp[i]:
                                    j = K.lowest_diff(fr.vals[res[i]], exp[i])
                                    fails.append(('value', f'{fn}({args}): result {i} is {(fr.vals[res[i]] >> j) & 1}, pointwise definition gives {(exp[i] >> j) & 1} on {env.assignment(j)}',
                                                  replay(fn, v, args, fr, failing_input=env.assignment(j), observed=(fr.vals[res[i]] >> j) & 1, expected=(exp[i] >> j) & 1)))
                                    break
                core.add(v, fails)
            core.flush(out)


def _ite(ops, mask):
    return [(i & t) | ((mask ^ i) & e) for i, t, e in zip(*ops)]


def _xor(ops, mask):
    return [x ^ y for x, y in zip(*ops)]


def task_gadgets(out, n, modes):
    Gn = _G()
    if n == 1:
        _gadget(out, 'add_if_then_else', Gn.add_if_then_else, 1, 3, modes, _ite, lambda n: 'ite_res',
                lambda ops, given, ao: ((ops[0][0], ops[1][0], ops[2][0]), dict(add_outputs=ao, **({'result_label': given} if given else {})),
                                        {'if_label': ops[0][0], 'then_label': ops[1][0], 'else_label': ops[2][0], 'result_label': given, 'add_outputs': ao}))
    _gadget(out, 'add_pairwise_if_then_else', Gn.add_pairwise_if_then_else, n, 3, modes, _ite, lambda n: [f'ite_res{i}' for i in range(n)],
            lambda ops, given, ao: ((list(ops[0]), list(ops[1]), list(ops[2])), dict(add_outputs=ao, **({'result_labels': list(given)} if given else {})),
                                    {'if_labels': ops[0], 'then_labels': ops[1], 'else_labels': ops[2], 'result_labels': given, 'add_outputs': ao}))
    _gadget(out, 'add_pairwise_xor', Gn.add_pairwise_xor, n, 2, modes, _xor, lambda n: [f'xor_res{i}' for i in range(n)],
            lambda ops, given, ao: ((list(ops[0]), list(ops[1])), dict(add_outputs=ao, **({'result_labels': list(given)} if given else {})),
                                    {'x_labels': ops[0], 'y_labels': ops[1], 'result_labels': given, 'add_outputs': ao}))
    # generate_* wrappers (inputs and outputs positional)
    for gname, g, k_ops, expect, deleg in (('generate_pairwise_if_then_else', Gn.generate_pairwise_if_then_else, 3, _ite, 'add_pairwise_if_then_else'),
                                           ('generate_pairwise_xor', Gn.generate_pairwise_xor, 2, _xor, 'add_pairwise_xor')):
        core = Core(PROP, gname, delegate=deleg)
        v = Variant(False, 'generated')
        args = {'n': n}
        c, fails, _ = _call(gname, g, v, args, None, n)
        out.case(D_GAD, (gname, n))
        if not fails:
            fails += _check_gen_gadget(gname, v, c, [n] * k_ops, n, expect, args)
        core.add(v, fails)
        core.flush(out)
    if n == 1:
        gname = 'generate_if_then_else'
        core = Core(PROP, gname, delegate='add_if_then_else')
        v = Variant(False, 'generated')
        c, fails, _ = _call(gname, Gn.generate_if_then_else, v, {}, None)
        out.case(D_GAD, (gname,))
        if not fails:
            fails += _check_gen_gadget(gname, v, c, [1, 1, 1], 1, _ite, {})
        core.add(v, fails)
        core.flush(out)


def _check_gen_gadget(gname, v, c, widths, n, expect, args):
    fails = _gen_guard(gname, v, c, widths, args)
    if fails:
        return fails
    env, net, vals = _gen_env(c, widths, False)
    fails += _length(gname, v, len(net.outputs), n, args, None)
    if not fails:
        exp = expect(env.op_vecs, env.mask)
        for i in range(n):
            if vals[net.outputs[i]] != exp[i]:
                j = K.lowest_diff(vals[net.outputs[i]], exp[i])
                fails.append(('value', f'{gname}({args}): output {i} differs from the pointwise definition on {env.assignment(j)}',
                              replay(gname, v, args, failing_input=env.assignment(j))))
                break
    return fails


# ------------------------------------------------------------------------------------------------
def run_bounded(rep, quick):
    W = 10 if quick else 16
    ALL = ['bare', 'decorated', 'host', 'hostrand']
    ADV = K.ADV_MODES
    wa = 6 if quick else 8          # total operand width up to which the adversarial-host / call-twice modes run
    rep.bounded_driver(D_SUB, f'add_sub_two_numbers, generate_sub_two_numbers, add_subtract_with_compare on all width pairs n+m <= {W}, all operand values '
                       'bit-parallel, both endiannesses, operands = primary inputs / internal gates of a bijective host / arbitrary nodes of random hosts (n+m <= 6); '
                       f'adversarial host (gates of all 14 binary types over the first two bit positions in both operand orders, two storage orders) and called twice ((b, a) then (a, b) in one circuit, both results checked) for n+m <= {wa}; '
                       'add_sub2, add_sub3 leaves (also in the adversarial hosts); value, borrow flag, length, frame clauses', f'n+m <= {W} exhaustive values', exhaustive=True)
    rep.bounded_driver(D_DIV, f'add_div_mod, generate_div_mod, n <= {W // 2} (2n input bits), all operand values incl. b = 0, both endiannesses, operands inputs / host gates / random host nodes; '
                       f'adversarial hosts and called twice (b, a) then (a, b) for 2n <= {wa}', f'2n <= {W} exhaustive values', exhaustive=True)
    rep.bounded_driver(D_SQRT, f'add_sqrt, generate_sqrt, n <= {W}, all operand values, both endiannesses, operands inputs / host gates / random host nodes (n <= 6); '
                       f'adversarial hosts and called twice on the same operand for n <= {wa}', f'n <= {W} exhaustive values', exhaustive=True)
    ne = 5 if quick else 8
    rep.bounded_driver(D_EQ, f'add_equal, generate_equal, n <= {ne}, every constant num in [-2^n-2, 2^(n+1)+1], all operand values, operands inputs / inputs of a host / host gates / random host nodes; '
                       'n <= 5 also adversarial hosts and called twice (num xor 1, then num)', f'n <= {ne}, all constants in the stated range', exhaustive=True)
    rep.bounded_driver(D_P1, 'add_plus_one: inp_len 1..5 x (result_labels absent | out_len 1..5) x add_outputs x big_endian x operands (bare inputs / inputs of a host with outputs / '
                       'internal host gates / random host nodes / adversarial hosts / called twice on the same operand); generate_plus_one inp_len 1..5 x out_len 1..6 x big_endian; value, marks outputs only when asked, returns result_labels, frame',
                       'inp_len, out_len <= 5 exhaustive', exhaustive=True)
    ng = 3 if quick else 5
    rep.bounded_driver(D_GAD, f'add_if_then_else, add_pairwise_if_then_else, add_pairwise_xor (n <= {ng}) x add_outputs x result labels given or not x operands (bare / inputs of a host / '
                       'host gates / random host nodes) and the generate_* wrappers; pointwise definitions, outputs only when asked, frame', f'n <= {ng} exhaustive values', exhaustive=True)
    tasks = []
    for n in range(1, W):
        for m in range(1, W - n + 1):
            modes = ['bare', 'host'] + (['hostrand'] if n + m <= 6 else []) + (ADV if n + m <= wa else [])
            tasks.append(('task_sub', (n, m, modes)))
    tasks.append(('task_sub_leaf', (['bare', 'host', 'hostrand', 'adversarial', 'adversarial2'],)))
    for n in range(1, W // 2 + 1):
        tasks.append(('task_divmod', (n, ['bare', 'host'] + (['hostrand'] if n <= 3 else []) + (ADV if 2 * n <= wa else []))))
    for n in range(1, W + 1):
        tasks.append(('task_sqrt', (n, ['bare', 'host'] + (['hostrand'] if n <= 6 else []) + (ADV if n <= wa else []))))
    for n in range(1, ne + 1):
        tasks.append(('task_equal', (n, ALL + ADV if n <= 5 else ['bare', 'host'])))
    for inp_len in range(1, 6):
        tasks.append(('task_plus_one', (inp_len, ALL + ADV)))
    for n in range(1, ng + 1):
        tasks.append(('task_gadgets', (n, ALL)))
    K.run_tasks(rep, PROP, __name__, tasks, quick)

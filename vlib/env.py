"""Run-time environment shared by all checks: which tree is verified, seed, tier, import paths."""
import os
import sys

VERIF = os.path.dirname(os.path.dirname(os.path.abspath(__file__)))
REPO = os.environ.get('VERIF_REPO', '/repo')
SEED = int(os.environ.get('VERIF_SEED', '0') or 0)
TIER = os.environ.get('VERIF_TIER', 'quick') or 'quick'
NPROC = int(os.environ.get('VERIF_NPROC', '16'))


def setup_import_paths():
    """Make `import cirbo` resolve to the tree under verification and the absent third-party
    packages (pysat, mockturtle_wrapper) resolve to the shims (assumption, see evidence)."""
    shim = os.path.join(VERIF, 'shims')
    for p in (shim, REPO):
        if p in sys.path:
            sys.path.remove(p)
    sys.path.insert(0, REPO)
    try:
        import pysat  # noqa: F401  (a real python-sat, if ever installed, wins)
        import mockturtle_wrapper  # noqa: F401
    except Exception:
        sys.path.insert(1, shim)


def repo_path(rel):
    return os.path.join(REPO, rel)


def os_environ_flag(name):
    return os.environ.get(name, '') not in ('', '0')

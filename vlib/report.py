"""Result collection, known-findings matching, replay files, evidence writing, exit codes.

Verdict vocabulary (DESIGN §3.6/§3.8): an *obligation* is proved / refuted / undecided; a
*bounded case* passes or fails. Exit 0 held · 1 violation (VIOLATION line) · 2 undecided ·
3 checker error."""
import json
import os
import re
import sys
import time
import traceback

from . import env


class Finding:
    def __init__(self, kind, prop, obligation, witness_class, detail, replay=None, no_input=False):
        self.kind = kind                  # 'violation'
        self.prop = prop
        self.obligation = obligation      # e.g. C05/_process_xor/arity
        self.witness_class = witness_class
        self.detail = detail
        self.replay = replay
        self.no_input = no_input


def load_known():
    path = os.path.join(env.VERIF, 'known_findings.txt')
    opens, fixed = [], []
    if os.path.exists(path):
        for line in open(path):
            line = line.strip()
            if not line or line.startswith('#'):
                continue
            if line.startswith('open:'):
                m = re.match(r'open:\s+property=(\S+)\s+obligation=(\S+)\s+witness=(\S+)\s+(.*)$', line)
                if m:
                    opens.append({'property': m.group(1), 'obligation': m.group(2), 'witness': m.group(3), 'what': m.group(4)})
            elif line.startswith('fixed:'):
                fixed.append(line)
    return opens, fixed


class Report:
    def __init__(self, prop, level):
        self.prop = prop
        self.level = level
        self.t0 = time.time()
        self.obligations = []     # dicts: name, function, status, backend, time, detail
        self.functions = {}       # qualified name -> {file, lines, sha256, obligations}
        self.bounded = {}         # driver name -> {evaluations, nontrivial, rule, bound, exhaustive, samples}
        self.findings = []
        self.assumptions = []
        self.samples = []
        self.undecided = []
        self.errors = []
        self.trusted_base = []
        self.extra = {}

    # ---- deductive side -------------------------------------------------------------------
    def add_obligation(self, name, function, status, backend='z3', seconds=0.0, detail=None, smt=None):
        self.obligations.append({'name': name, 'function': function, 'status': status, 'backend': backend,
                                 'seconds': round(seconds, 4), **({'detail': detail} if detail else {})})
        if smt is not None and len(self.samples) < 3 and status == 'proved':
            self.samples.append({'obligation': name, 'smtlib': smt[:1500]})
        if status == 'undecided':
            self.undecided.append(name)

    def add_function(self, qname, info):
        self.functions[qname] = info

    # ---- bounded side -----------------------------------------------------------------------
    def bounded_driver(self, name, rule, bound, exhaustive=False):
        d = self.bounded.setdefault(name, {'evaluations': 0, 'nontrivial': set(), 'rule': rule, 'bound': bound,
                                           'exhaustive': exhaustive, 'samples': []})
        return d

    def bounded_case(self, name, key=None, nontrivial=True, sample=None):
        d = self.bounded[name]
        d['evaluations'] += 1
        if nontrivial and key is not None:
            d['nontrivial'].add(hash(key))
        if sample is not None and len(d['samples']) < 3:
            d['samples'].append(sample)

    # ---- findings -------------------------------------------------------------------------
    def violation(self, obligation, witness_class, detail, replay_obj=None, no_input=False):
        # one finding per (obligation, witness class)
        for f in self.findings:
            if f.obligation == obligation and f.witness_class == witness_class:
                return f
        path = None
        if replay_obj is not None:
            d = os.path.join(env.VERIF, 'replays', self.prop)
            os.makedirs(d, exist_ok=True)
            safe = re.sub(r'[^A-Za-z0-9_.-]+', '_', obligation + '__' + witness_class)[:150]
            path = os.path.join(d, safe + '.json')
            replay_obj = dict(replay_obj)
            replay_obj.setdefault('property', self.prop)
            replay_obj.setdefault('obligation', obligation)
            replay_obj.setdefault('witness_class', witness_class)
            replay_obj.setdefault('detail', detail)
            with open(path, 'w') as fh:
                json.dump(replay_obj, fh, indent=1, default=str)
        f = Finding('violation', self.prop, obligation, witness_class, detail, path, no_input)
        self.findings.append(f)
        return f

    def assume(self, text):
        if text not in self.assumptions:
            self.assumptions.append(text)

    def error(self, text):
        self.errors.append(text)

    # ---- finish ---------------------------------------------------------------------------
    def finish(self, checker_cmd):
        opens, _fixed = load_known()
        new, known = [], []
        for f in self.findings:
            hit = None
            for k in opens:
                if k['property'] == f.prop and k['obligation'] == f.obligation and k['witness'] == f.witness_class:
                    hit = k
            (known if hit else new).append((f, hit))
        for f, k in known:
            print(f"KNOWN-FINDING: property={f.prop} {f.obligation} [{f.witness_class}] {k['what']}")
        for f, _ in new:
            tail = ' no-failing-input-found' if f.no_input else ''
            print(f"VIOLATION property={f.prop} replay={f.replay}{tail}")
            print(f"  obligation={f.obligation} witness={f.witness_class} :: {f.detail}"[:800])
        n_obl = len(self.obligations)
        n_dis = sum(1 for o in self.obligations if o['status'] == 'proved')
        ev_total = sum(d['evaluations'] for d in self.bounded.values())
        nt_total = sum(len(d['nontrivial']) for d in self.bounded.values())
        by_backend = {}
        for o in self.obligations:
            if o['status'] == 'proved':
                by_backend[o['backend']] = by_backend.get(o['backend'], 0) + 1
        coverage = {
            'obligations': n_obl,
            'discharged': n_dis,
            'refuted': sum(1 for o in self.obligations if o['status'] == 'refuted'),
            'undecided': len(self.undecided),
            'discharged_by_backend': by_backend,
            'solver_seconds': round(sum(o['seconds'] for o in self.obligations), 3),
            'checker_cmd': checker_cmd,
            'trusted_base': self.trusted_base,
            'functions_under_contract': self.functions,
            'obligation_list': [{k: o[k] for k in ('name', 'status', 'backend', 'seconds', 'detail') if k in o} for o in self.obligations],
            'bounded': {n: {'evaluations': d['evaluations'], 'distinct_nontrivial': len(d['nontrivial']), 'rule': d['rule'],
                            'bound': d['bound'], 'exhaustive': d['exhaustive'], 'samples': d['samples'],
                            'label': 'bounded stand-in: never counted as proved'} for n, d in self.bounded.items()},
            'evaluations': max(ev_total, n_obl),
            'distinct_nontrivial': max(nt_total, n_dis),
            'rule': 'obligations: one per (function, contract clause, path) generated from the current source; bounded drivers: see coverage.bounded[*].rule',
            'samples': (self.samples + [s for d in self.bounded.values() for s in d['samples'][:1]])[:8] or [{'note': 'no samples'}],
            'explanation': self.extra.get('explanation', ''),
            'exhaustive': bool(self.bounded) and all(d['exhaustive'] for d in self.bounded.values()) and False,
            'known_findings_reobserved': [f.obligation + ' [' + f.witness_class + ']' for f, _ in known],
        }
        coverage.update({k: v for k, v in self.extra.items() if k != 'explanation'})
        evidence = {
            'property_id': self.prop, 'tier': env.TIER if env.TIER in ('quick', 'thorough') else 'quick', 'seed': env.SEED,
            'level': self.level, 'coverage': coverage, 'assumptions': self.assumptions,
            'wall_s': round(time.time() - self.t0, 2), 'violations': len(new),
        }
        # mutant / audit runs on scratch copies (tools/*.sh) may divert their evidence so that the committed files keep
        # describing the run against /repo
        evdir = os.environ.get('VERIF_EVIDENCE_DIR') or os.path.join(env.VERIF, 'evidence')
        os.makedirs(evdir, exist_ok=True)
        with open(os.path.join(evdir, self.prop + '.json'), 'w') as fh:
            json.dump(evidence, fh, indent=1, default=str)
        print(f"[{self.prop}] obligations={n_obl} discharged={n_dis} undecided={len(self.undecided)} "
              f"bounded_evaluations={ev_total} known={len(known)} new_violations={len(new)} wall={evidence['wall_s']}s")
        for e in self.errors:
            print('CHECKER-ERROR:', e)
        for u in self.undecided:
            print('UNDECIDED:', u)
        if new:
            return 1
        if self.errors:
            return 3
        if self.undecided:
            return 2
        return 0

"""C20  Traversals visit exactly the reachable gates in a valid order.

P: Circuit.top_sort in BOTH directions — Kahn's algorithm over operand / user multisets — on an arbitrary well-formed
   circuit: every yielded element is a gate, no gate is yielded twice, every gate is yielded only after ALL of
   its operands (strictly earlier positions), the work list never holds a gate twice, no KeyError/IndexError;
   and the completeness STEP: when the generator stops, a gate whose operands were all yielded has been yielded
   (rule R2, induction on the rank of a well-formed circuit, lifts this to "every gate is yielded").
   Invariants: in-degree map = number of operand positions not yet yielded (ghost counting function with its
   defining lemmas), work list = exactly the unyielded gates with in-degree 0; inner loop over the users list
   by the prefix-count view.
   Circuit.dfs / Circuit.bfs (c20_trav.py) in both directions, from an arbitrary start sequence or the default one: the generator
   yields exactly the gates reachable from the start set (least closed set: soundness w.r.t. every closed set, completeness
   as closedness of the yielded set), each exactly once; the circuit is untouched (default hooks). DFS hook discipline (positional stack,
   recording ghost hooks): one enter and one exit hook per gate at most, enter before exit, exit hooks in post-order, all entered gates exited.
B: top_sort in both directions, dfs/bfs from all start sets, hook discipline, cycle check (vlib/bounded/C20.py)."""
import z3

from .. import env
from ..pyvc.values import Sym, LabelSort, GT, Obj, GenV, Unsupported
from ..pyvc.prove import Prover, Contract
from ..pyvc import circuit_model as CM
from .common import new_interp, finish_refuted, canary, STD_TRUSTED, STD_ASSUME, run_bounded

LEVEL = 'other'
CIRC = 'cirbo/core/circuit/circuit.py'
I = z3.IntSort()
B = z3.BoolSort()


class Dir:
    """the two directions of top_sort: predecessors of l are its operands (inverse=True) or its users (inverse=False)"""

    def __init__(self, S0, inverse):
        self.S0, self.inverse = S0, inverse

    def npred(self, l):
        return self.S0.nops(l) if self.inverse else self.S0.tot(l)

    def pred(self, l, i):
        return self.S0.op(l, i) if self.inverse else self.S0.uelem(l, i)

    def predcount(self, l, p):          # occurrences of p among the predecessors of l
        return self.S0.opc(l, p) if self.inverse else self.S0.cnt(l, p)

    def nsucc(self, cur):
        return self.S0.tot(cur) if self.inverse else self.S0.nops(cur)

    def succ(self, cur, k):
        return self.S0.uelem(cur, k) if self.inverse else self.S0.op(cur, k)

    def succcount(self, cur, u):        # occurrences of u among the successors of cur  (= predcount(u, cur) by W3)
        return self.S0.cnt(cur, u) if self.inverse else self.S0.opc(cur, u)


class Ghost:
    """ghost state of the generator: yielded set P, yield positions ypos, number yielded c, and
    cni(l) = number of operand positions of l whose operand is not in P (a counting function; its defining
    facts are background lemmas about finite counting, assumed for every (P, cni) pair that is built by the
    lemma  cni_{P ∪ {p}}(l) = cni_P(l) − count(operands(l), p)  for p ∉ P)."""
    _n = 0

    def __init__(self, P, ypos, c, cni):
        self.P, self.ypos, self.c, self.cni = P, ypos, c, cni

    @staticmethod
    def fresh(ctx):
        Ghost._n += 1
        k = Ghost._n
        P = z3.Function(f'P!{k}', LabelSort, B)
        y = z3.Function(f'ypos!{k}', LabelSort, I)
        cni = z3.Function(f'cni!{k}', LabelSort, I)
        return Ghost(lambda l: P(l), lambda l: y(l), ctx.fresh(I, 'ycount'), lambda l: cni(l))

    def counting_facts(self, ctx, D):
        Ghost._n += 1
        w = z3.Function(f'wit!{Ghost._n}', LabelSort, I)
        l, p = z3.Consts('l!cf p!cf', LabelSort)
        i = z3.Int('i!cf')
        P, cni = self.P, self.cni
        ctx.assume(z3.ForAll([l], z3.And(cni(l) >= 0, cni(l) <= D.npred(l))))
        ctx.assume(z3.ForAll([l], z3.Implies(cni(l) > 0, z3.And(w(l) >= 0, w(l) < D.npred(l), z3.Not(P(D.pred(l, w(l))))))))
        ctx.assume(z3.ForAll([l, i], z3.Implies(z3.And(i >= 0, i < D.npred(l), z3.Not(P(D.pred(l, i)))), cni(l) > 0)))
        ctx.assume(z3.ForAll([l, p], z3.Implies(z3.Not(P(p)), cni(l) >= D.predcount(l, p))))
        self.w = lambda x: w(x)


class Outer:
    """while queue: … yield current_elem"""

    def __init__(self, c):
        self.c = c

    def havoc(self, it, env):
        ctx, S0 = it.ctx, self.c.S0
        g = Ghost.fresh(ctx)
        g.counting_facts(ctx, self.c.D)
        it.ctx.ghostG = g
        Ghost._n += 1
        ind = z3.Function(f'ind!{Ghost._n}', LabelSort, I)
        mem = z3.Function(f'mem!{Ghost._n}', LabelSort, B)
        env['indegree_map'] = CM.IntMap(lambda l: S0.dom(l), lambda l: ind(l))
        env['queue'] = CM.LabelBag(lambda l: mem(l))

    def formulas(self, env, l, l2, i):
        S0, G = self.c.S0, self.c.it.ctx.ghostG
        ind, q = env['indegree_map'], env['queue']
        P, ypos, c, cni = G.P, G.ypos, G.c, G.cni
        return [('yielded-are-gates', z3.Implies(P(l), S0.dom(l))),
                ('map-keys-are-the-gates', ind.dom(l) == S0.dom(l)),
                ('worklist-is-unyielded-with-indegree-0', q.member(l) == z3.And(S0.dom(l), z3.Not(P(l)), ind.val(l) == 0)),
                ('indegree-counts-unyielded-operand-positions', z3.Implies(S0.dom(l), ind.val(l) == cni(l))),
                ('predecessors-yielded-earlier', z3.Implies(z3.And(P(l), i >= 0, i < self.c.D.npred(l)), z3.And(P(self.c.D.pred(l, i)), ypos(self.c.D.pred(l, i)) < ypos(l)))),
                ('positions-below-count', z3.And(c >= 0, z3.Implies(P(l), z3.And(ypos(l) >= 0, ypos(l) < c)))),
                ('positions-injective', z3.Implies(z3.And(P(l), P(l2), ypos(l) == ypos(l2)), l == l2))]

    def inv(self, it, env, k):
        ctx = it.ctx
        return self.formulas(env, ctx.fresh(LabelSort, 'linv'), ctx.fresh(LabelSort, 'l2inv'), ctx.fresh(I, 'iinv'))

    def inv_assume(self, it, env, k):
        l, l2 = z3.Consts('l!oi l2!oi', LabelSort)
        i = z3.Int('i!oi')
        return [(nm, z3.ForAll([l, l2, i], f)) for nm, f in self.formulas(env, l, l2, i)]

    def on_yield(self, it, env, value):
        ctx, S0, G = it.ctx, self.c.S0, it.ctx.ghostG
        cur = it.label_term(it.getattr(value, 'label'))
        ctx.check('yielded-element-is-a-gate', S0.dom(cur))
        ctx.check('yielded-at-most-once', z3.Not(G.P(cur)), {'witness': 'yielded-twice'})
        P, ypos, c, cni = G.P, G.ypos, G.c, G.cni
        D = self.c.D
        g2 = Ghost(lambda l: z3.Or(l == cur, P(l)), lambda l: z3.If(l == cur, c, ypos(l)), c + 1, lambda l: cni(l) - D.predcount(l, cur))
        g2.counting_facts(ctx, D)
        it.ctx.ghostG = g2
        self.c.yielded_in_loop = True


class Inner:
    """for successor in users(current): indegree_map[successor] -= 1; if it is 0: queue.append(successor)"""

    def __init__(self, c):
        self.c = c
        self.base = None

    def applies(self, it, env, iterable):
        return isinstance(iterable, (CM.UsersRef, CM.OpsSeq)) and iterable.concrete_len(it) is None

    def _setup(self, it, env, iterable=None):
        if self.base is not None:
            return
        ctx, S0 = it.ctx, self.c.S0
        ind, q = env['indegree_map'], env['queue']
        self.base = (ind.dom, ind.val, q.member)
        # the gate whose successors are scanned: the argument of the getter call the loop iterates (role, not the local's name)
        import ast as _ast
        nm = 'current_elem'
        st_ = getattr(self, 'stmt', None)
        if (st_ is not None and isinstance(getattr(st_, 'iter', None), _ast.Call) and len(st_.iter.args) == 1 and isinstance(st_.iter.args[0], _ast.Name)):
            nm = st_.iter.args[0].id
        cur = it.label_term(it.getattr(env[nm], 'label'))
        self.cur = cur
        Ghost._n += 1
        pcu = z3.Function(f'pcu!{Ghost._n}', I, LabelSort, I)
        self.pcu = pcu
        D = self.c.D
        n = D.nsucc(cur)
        k, u = z3.Int('k!pcu'), z3.Const('u!pcu', LabelSort)
        ctx.assume(z3.ForAll([u], pcu(0, u) == 0))
        ctx.assume(z3.ForAll([k, u], z3.Implies(z3.And(k >= 0, k < n), pcu(k + 1, u) == pcu(k, u) + z3.If(D.succ(cur, k) == u, 1, 0)), patterns=[pcu(k + 1, u)]))
        ctx.assume(z3.ForAll([u], pcu(n, u) == D.succcount(cur, u)))
        ctx.assume(z3.ForAll([k, u], z3.Implies(z3.And(k >= 0, k <= n), z3.And(pcu(k, u) >= 0, pcu(k, u) <= D.succcount(cur, u))), patterns=[pcu(k, u)]))

    def closed(self, k):
        d0, v0, m0 = self.base
        pcu = self.pcu

        def val(u):
            return v0(u) - pcu(k, u)

        def mem(u):
            return z3.Or(m0(u), z3.And(v0(u) >= 1, pcu(k, u) >= v0(u)))
        return d0, val, mem

    def inv(self, it, env, k):
        self._setup(it, env)
        ind, q = env['indegree_map'], env['queue']
        d, v, m = self.closed(k)
        u = it.ctx.fresh(LabelSort, 'uinv')
        return [('map-keys', ind.dom(u) == d(u)), ('decremented-by-prefix-count', z3.Implies(d(u), ind.val(u) == v(u))), ('worklist', q.member(u) == m(u))]

    def install(self, it, env, k):
        self._setup(it, env)
        d, v, m = self.closed(k)
        env['indegree_map'] = CM.IntMap(d, v)
        env['queue'] = CM.LabelBag(m)


class TopSort(Contract):
    relpath, qualname = CIRC, 'Circuit.top_sort'

    def __init__(self, inverse):
        self.inverse = inverse
        self.name = f'top_sort/inverse={inverse}'

    def setup(self, it, ctx):
        c, h = CM.make_circuit(it, ctx, tag='c')
        S0 = h.S
        self.S0 = S0
        self.D = Dir(S0, self.inverse)
        CM.install_get_gate_users_contract(it)
        l = z3.Const('L!rk', LabelSort)
        ctx.assume(z3.ForAll([l], S0.rank(l) >= 0))
        # initial ghost: nothing yielded; cni = number of operand positions (counting over the empty set)
        self.it = it
        ctx.ghostG = Ghost(lambda x: z3.BoolVal(False), lambda x: z3.IntVal(0), z3.IntVal(0), lambda x: self.D.npred(x))
        ctx.ghostG.counting_facts(ctx, self.D)
        self.yielded_in_loop = False
        self.outer, self.inner = Outer(self), Inner(self)
        it.loop_specs[(CIRC + '::Circuit.top_sort', 1)] = self.outer
        it.loop_specs[(CIRC + '::Circuit.top_sort', 2)] = self.inner
        return [c], {'inverse': self.inverse}, {'h': h, 'S0': S0}

    def execute(self, it, fv, args, kwargs):
        g = it.call_function(fv, args, kwargs, force_inline=True)
        if not isinstance(g, GenV):
            raise Unsupported('top_sort is not a generator')
        for _ in g.it:
            raise Unsupported('yield outside the main loop of top_sort')
        return None

    def post(self, it, ctx, result, st):
        S0, G = st['S0'], ctx.ghostG
        l = ctx.fresh(LabelSort, 'lpost')
        i = ctx.fresh(I, 'ipost')
        P, ypos = G.P, G.ypos
        D = self.D
        nm = 'order/every-yielded-gate-after-all-its-operands' if self.inverse else 'order/every-yielded-gate-after-all-its-users'
        yield (nm, z3.Implies(z3.And(P(l), i >= 0, i < D.npred(l)), z3.And(P(D.pred(l, i)), ypos(D.pred(l, i)) < ypos(l))), {'witness': 'order'})
        yield ('yielded-are-gates', z3.Implies(P(l), S0.dom(l)))
        # completeness step (R2 lifts it to every gate): an unyielded gate has an unyielded operand
        yield ('completeness-step/unyielded-gate-has-an-unyielded-predecessor',
               z3.Implies(z3.And(S0.dom(l), z3.Not(P(l))), z3.And(G.w(l) >= 0, G.w(l) < D.npred(l), z3.Not(P(D.pred(l, G.w(l)))))), {'witness': 'completeness'})
        yield ('circuit-unchanged', z3.BoolVal(not [e for e in st['h'].events if e[0] in ('gate-write', 'gate-del', 'users-del', 'users-alias')]))

    def on_raise(self, it, ctx, exc, st):
        n = exc.cls.name if isinstance(exc, Obj) else repr(exc)
        S0 = st['S0']
        if n == 'CircuitIsCyclicalError':
            l = ctx.fresh(LabelSort, 'lc')
            # raised before anything is yielded and only if no gate is operand-free; a non-empty WF circuit always has one
            # (minimal rank, rule R2), so on WF circuits this path is infeasible
            yield ('cyclical-only-without-source', z3.And(z3.Implies(S0.dom(l), self.D.npred(l) >= 1), S0.size > 0), {'raised': n})
        else:
            yield ('no-raise', z3.BoolVal(False), {'raised': n, 'witness': 'raises-' + n})


class GetGateUsers(Contract):
    """body of get_gate_users against the contract used inside top_sort: a view of users[label]"""
    relpath, qualname, name = CIRC, 'Circuit.get_gate_users', 'get_gate_users/meets-contract'

    def setup(self, it, ctx):
        c, h = CM.make_circuit(it, ctx, tag='c')
        lab = z3.Const('lab', LabelSort)
        return [c, Sym(lab)], {}, {'h': h, 'S0': h.S, 'lab': lab}

    def post(self, it, ctx, result, st):
        S0, lab = st['S0'], st['lab']
        u = ctx.fresh(LabelSort, 'u')
        yield ('only-for-gates', S0.dom(lab))
        from ..pyvc.values import VList
        if isinstance(result, VList):
            yield ('empty-list-means-no-users', z3.And(z3.BoolVal(len(result.items) == 0), S0.cnt(lab, u) == 0, S0.tot(lab) == 0))
        else:
            yield ('is-the-users-list-of-the-label', z3.BoolVal(isinstance(result, CM.UsersRef)) if not isinstance(result, CM.UsersRef) else result.kt == lab)

    def on_raise(self, it, ctx, exc, st):
        n = exc.cls.name if isinstance(exc, Obj) else repr(exc)
        if n == 'GateDoesntExistError':
            yield ('raises-only-for-absent-gate', z3.Not(st['S0'].dom(st['lab'])), {'raised': n})
        else:
            yield ('no-other-raise', z3.BoolVal(False), {'raised': n, 'witness': 'raises-' + n})


def run(rep):
    quick = env.TIER != 'thorough'
    rep.trusted_base = list(STD_TRUSTED) + ['abstract circuit model vlib/pyvc/circuit_model.py (incl. positional view of users lists)',
                                            'background lemmas on finite counting: cni_P(l) = #{i : op(l,i) ∉ P} is ≥ 0, ≤ arity, zero iff all operands in P, ≥ count(operands, p) for p ∉ P, and decreases by count(operands, p) when p is added',
                                            'rule R2 (induction on rank): the completeness step implies that every gate of a well-formed circuit is yielded; a non-empty well-formed circuit has an operand-free gate']
    for a in STD_ASSUME:
        rep.assume(a)
    rep.assume('work list modelled as a duplicate-free bag with an arbitrary pop order (absence of duplicates is proved; the order of pops is irrelevant to the clauses)')
    rep.assume('dfs / bfs: proved (c20_trav.py) that they yield exactly the gates reachable from the start set, each once, for default (no-op) hooks; the work list is abstracted to a multiset with an arbitrary '
               'read position (sound for these clauses: they hold for every pop order); reachable = least set containing the start gates and closed under successors: soundness against an arbitrary closed set, '
               'completeness as closedness of the yielded set; precondition: the start gates are gates of the circuit')
    rep.assume('DFS hook discipline proved with a positional stack model and recording ghost hooks: at most one enter and one exit hook per gate, enter before exit, exit hooks in post-order '
               '(every successor has exited before), every entered gate has exited when the generator stops; rank argument on the DAG (an ENTERED gate cannot be a successor of the top ENTERED gate)')
    rep.assume('the unvisited hook (incl. topsort_unvisited), on_discover / on_traversal_end hooks, the BFS visiting order and the cycle check are covered by the bounded stand-in only')
    rep.assume('contract of get_gate_users used at its call sites: a list view with count cnt(label, .) and length tot(label) (absent key = empty list); its body is checked against it under C20/get_gate_users')
    it = new_interp()
    pv = Prover(rep, it, 'C20')
    for inv in (True, False):
        it.loop_specs.clear()
        it.contracts.clear()
        pv.run_contract(TopSort(inv))
    # dfs / bfs (c20_trav.py): exactly the reachable gates, each once — both directions, given and default start gates
    from .c20_trav import Traverse
    for mode in ('DFS', 'BFS'):
        for inv in (False, True):
            for given in (True, False):
                it.loop_specs.clear()
                it.contracts.clear()
                pv.run_contract(Traverse(mode, inv, given))
    # hook discipline of the depth-first traversal (positional stack model)
    from .c20_trav import DfsOrder
    for inv in (False, True):
        it.loop_specs.clear()
        it.contracts.clear()
        pv.run_contract(DfsOrder(inv))
    it.loop_specs.clear()
    it.contracts.clear()
    pv.run_contract(GetGateUsers())
    x, y = z3.Ints('x y')
    canary(rep, pv, 'C20/canary/decrement-keeps-zero', [x >= 1], x - 1 == 0)
    refuted = pv.discharge(env.NPROC)
    finish_refuted(rep, pv, refuted)
    run_bounded(rep, 'C20', quick)
    rep.extra['explanation'] = ('Kahn-style top_sort proved in both directions from the real source with inductive invariants (ghost yielded set, counting function, prefix counts); '
                                'dfs / bfs proved to yield exactly the reachable gates once each (three-state map and work-list multiset invariants); hooks, visiting order and the cycle check: bounded stand-in.')

"""C16  per-gate step of the circuit codec: _encode_gate / _decode_gate (cirbo/circuits_db/circuits_encoding.py).

Both functions talk to the bit stream only through write_number(n, k) / read_number(k), whose bit-level contracts are proved
for every width in C16.py.  Here the stream is seen as the LOG OF NUMBERS written / to be read (rule R4: the two methods are
replaced by handlers that append to / consume a ghost log and check the width argument).

  encode(T, a)   for every gate type T of the code table and its arity a, arbitrary operand labels and an arbitrary identifier
                 map: exactly 1 + a numbers are written - code(T) on GATE_TYPE_BIT_SIZE bits, then ids[operand_j] on word_size
                 bits - IN THE ORDER OF THE OPERAND TUPLE for the types whose value depends on it (GT, LT, GEQ, LEQ; NOT / IFF have
                 one operand), in either order for the symmetric types and the constants (the property only asks for the same truth
                 table gate for gate); the identifier map is only read.  INPUT gates write nothing; a gate
                 whose operand count differs from the arity the decoder assumes is rejected (CircuitEncodingError).
  decode(T, a)   reading code(T) and then a identifiers that are keys of the id -> gate table: exactly 1 + a numbers are read
                 with those widths; ONE gate is added to the circuit: label gate_<len(table)>, type T, operands = the labels of
                 the table entries, in reading order; the table gets that gate under the next free identifier.
                 An undefined type code or an unknown identifier raises CircuitEncodingError.
  round trip     (consequence of the two, stated as an obligation): decoding the numbers that encode(g) wrote, with a table that
                 maps ids[o] to a gate labelled rho(o) for every operand o, adds the gate (T, (rho(o_1), .., rho(o_a))).
The composition over all gates of a circuit (the two loops of _encode_circuit_body / _decode_circuit_body, header and
parameters) stays with the bounded stand-in."""
import z3

from ..pyvc.values import Sym, Obj, VList, Native, Unsupported, LabelSort, GT
from ..pyvc.interp import Model, _simp
from ..pyvc.prove import Contract

ENC = 'cirbo/circuits_db/circuits_encoding.py'
# gate types whose value does not depend on the order of their (two) operands: symmetric types and the constants
ORDER_FREE = ('AND', 'OR', 'NAND', 'NOR', 'XOR', 'NXOR', 'ALWAYS_TRUE', 'ALWAYS_FALSE')
INPUT_OUTCOME = set()          # what _encode_gate does with an INPUT gate in the tree under verification: {'returns'} / {'raises'}
I = z3.IntSort()
B = z3.BoolSort()


class LogWriter(Model):
    """bit_writer seen through the numbers handed to write_number"""

    def __init__(self):
        self.log = []

    def m_getattr(self, it, name):
        if name == 'write_number':
            def write_number(number, bit_length):
                self.log.append((number, bit_length))
            return Native('LogWriter.write_number', write_number)
        raise Unsupported('bit_writer.' + name + ' (only write_number is expected in _encode_gate)')


class LogReader(Model):
    """bit_reader seen through the numbers read_number returns: the j-th call returns the symbolic value r_j"""

    def __init__(self, values):
        self.values = list(values)
        self.widths = []

    def m_getattr(self, it, name):
        if name == 'read_number':
            def read_number(bit_length):
                j = len(self.widths)
                if j >= len(self.values):
                    raise Unsupported('more numbers read than the contract instance provides')
                self.widths.append(bit_length)
                return Sym(self.values[j])
            return Native('LogReader.read_number', read_number)
        raise Unsupported('bit_reader.' + name + ' (only read_number is expected in _decode_gate)')


class IdMap(Model):
    """gate_identifiers: label -> int, an arbitrary map that contains the operands (read only)"""

    def __init__(self, f, dom):
        self.f, self.dom = f, dom
        self.written = False

    def m_getitem(self, it, k):
        kt = it.label_term(k)
        if not it.ctx.choose(_simp(self.dom(kt))):
            it.raise_('KeyError', 'label')
        return Sym(self.f(kt))

    def m_setitem(self, it, k, v):
        self.written = True
        raise Unsupported('the identifier map is written')

    def m_getattr(self, it, name):
        if name == 'get':
            def get(k, default=None):
                kt = it.label_term(k)
                if it.ctx.choose(_simp(self.dom(kt))):
                    return Sym(self.f(kt))
                return default
            return Native('IdMap.get', get)
        raise Unsupported('gate_identifiers.' + name)


class GateTable(Model):
    """gates: id -> Gate of the decoder; n entries with keys 0..n-1 (what _decode_circuit_body maintains), entry i labelled lab(i)"""

    def __init__(self, it, n, lab):
        self.it, self.n, self.lab = it, n, lab
        self.added = []          # (key, gate) stored by the function

    def m_len(self, it):
        return Sym(self.n + len(self.added))

    def _gate(self, it, kt):
        gm = it.load_module('cirbo.core.circuit.gate')
        return Obj(gm.env['Gate'], {'_label': Sym(self.lab(kt)), '_gate_type': gm.env['INPUT'], '_operands': ()})

    def m_getattr(self, it, name):
        if name == 'get':
            def get(k, default=None):
                kt = it.int_term(k)
                if it.ctx.choose(_simp(z3.And(kt >= 0, kt < self.n))):
                    return self._gate(it, kt)
                return default
            return Native('GateTable.get', get)
        raise Unsupported('gates.' + name)

    def m_getitem(self, it, k):
        kt = it.int_term(k)
        if not it.ctx.choose(_simp(z3.And(kt >= 0, kt < self.n))):
            it.raise_('KeyError', 'gate id')
        return self._gate(it, kt)

    def m_setitem(self, it, k, v):
        self.added.append((k, v))


class CircuitSink(Model):
    def __init__(self):
        self.added = []

    def m_getattr(self, it, name):
        if name in ('add_gate', '_add_gate'):
            def add_gate(g):
                self.added.append(g)
            return Native('sink.' + name, add_gate)
        raise Unsupported('circuit.' + name + ' in _decode_gate')


def code_table(it):
    m = it.load_module('cirbo.circuits_db.circuits_encoding')
    g2i = m.env['_gate_type_to_int']
    return {k.fields['_name']: (k, v) for k, v in g2i.d.items()}, m.env['GATE_TYPE_BIT_SIZE'], m


class EncodeGate(Contract):
    relpath, qualname = ENC, '_encode_gate'

    def __init__(self, t, n_ops):
        self.t, self.k = t, n_ops
        self.name = f'_encode_gate/{t}/{n_ops}operands'

    def setup(self, it, ctx):
        table, bits, m = code_table(it)
        gm = it.load_module('cirbo.core.circuit.gate')
        ops = [z3.Const(f'o{j}', LabelSort) for j in range(self.k)]
        lab = z3.Const('glab', LabelSort)
        idf = z3.Function('ids', LabelSort, I)
        idd = z3.Function('ids_dom', LabelSort, B)
        w = z3.Int('word_size')
        ctx.assume(w >= 0)
        for o in ops:
            ctx.assume(idd(o))                     # precondition: every operand has an identifier (_enumerate_gates numbers every gate)
        ids = IdMap(lambda l: idf(l), lambda l: idd(l))
        wr = LogWriter()
        g = Obj(gm.env['Gate'], {'_label': Sym(lab), '_gate_type': gm.env[self.t], '_operands': tuple(Sym(o) for o in ops)})
        return [wr, g, ids, Sym(w)], {}, {'wr': wr, 'ops': ops, 'idf': idf, 'w': w, 'ids': ids, 'table': table, 'bits': bits}

    def arity(self):
        return 1 if self.t in ('NOT', 'IFF') else 2

    def post(self, it, ctx, result, st):
        log, ops, idf, w = st['wr'].log, st['ops'], st['idf'], st['w']
        yield ('identifier-map-only-read', z3.BoolVal(not st['ids'].written))
        if self.t == 'INPUT':
            # who skips the inputs - this function or its caller - is not part of the property: both outcomes are accepted here and
            # recorded, and the contract of _encode_circuit_body (c16_body.py) uses the recorded one for its calls
            INPUT_OUTCOME.add('returns')
            yield ('input-gates-write-nothing', z3.BoolVal(len(log) == 0))
            return
        yield ('accepted-only-with-the-decoders-arity', z3.BoolVal(self.t in st['table'] and self.k == self.arity()), {'witness': 'wrong-arity-accepted'})
        yield ('writes-1+arity-numbers', z3.BoolVal(len(log) == 1 + self.k), {'witness': 'number-count'})
        if len(log) != 1 + self.k or self.t not in st['table']:
            return
        code = st['table'][self.t][1]
        yield ('first-number-is-the-type-code', z3.And(it.int_term(log[0][0]) == code, it.int_term(log[0][1]) == st['bits']), {'witness': 'type-code'})
        nums = [it.int_term(log[1 + j][0]) for j in range(self.k)]
        yield ('operand-identifiers-on-word_size-bits', z3.And([it.int_term(log[1 + j][1]) == w for j in range(self.k)]) if self.k else z3.BoolVal(True))
        if self.t in ORDER_FREE and self.k == 2:
            # the value of the gate does not depend on the order of its two operands: the property ("same truth table gate for
            # gate") only needs the two identifiers, in either order
            yield ('numbers-are-the-operand-identifiers-in-some-order',
                   z3.Or(z3.And(nums[0] == idf(ops[0]), nums[1] == idf(ops[1])), z3.And(nums[0] == idf(ops[1]), nums[1] == idf(ops[0]))), {'witness': 'operand-identifiers'})
        else:
            for j, o in enumerate(ops):
                yield (f'number-{j + 1}-is-the-identifier-of-operand-{j}', nums[j] == idf(o), {'witness': 'operand-order'})

    def replay(self, values):
        """native replay on a canonical instance: operands p, q with identifiers 5 > 3 (so that a re-ordering shows), then the
        real decoder on the numbers the real encoder wrote"""
        return replay_gate(self.t, self.k)

    def on_raise(self, it, ctx, exc, st):
        n = exc.cls.name if isinstance(exc, Obj) else repr(exc)
        if n == 'CircuitEncodingError':
            if self.t == 'INPUT':
                INPUT_OUTCOME.add('raises')
                yield ('raise/nothing-written', z3.BoolVal(len(st['wr'].log) == 0))
                return
            yield ('raise/unsupported-type-or-arity', z3.BoolVal(self.t not in st['table'] or self.k != self.arity()), {'raised': n})
            yield ('raise/nothing-written', z3.BoolVal(len(st['wr'].log) == 0))
        else:
            yield ('no-other-raise', z3.BoolVal(False), {'raised': n, 'witness': 'raises-' + n})


class DecodeGate(Contract):
    relpath, qualname = ENC, '_decode_gate'

    def __init__(self, t):
        self.t = t
        self.name = f'_decode_gate/{t}'

    def arity(self):
        return 1 if self.t in ('NOT', 'IFF') else 2

    def setup(self, it, ctx):
        table, bits, m = code_table(it)
        a = self.arity()
        r = [z3.Int(f'r{j}') for j in range(1 + 2)]            # never more than 1 + 2 numbers (a broken decoder asking for more is Unsupported)
        n = z3.Int('ntable')
        w = z3.Int('word_size')
        labf = z3.Function('tbl_label', I, LabelSort)
        ctx.assume(n >= 0)
        ctx.assume(w >= 0)
        ctx.assume(r[0] == table[self.t][1])
        rd = LogReader(r)
        gt = GateTable(it, n, lambda i: labf(i))
        sink = CircuitSink()
        return [rd, Sym(w), gt, sink], {}, {'rd': rd, 'r': r, 'n': n, 'w': w, 'labf': labf, 'gt': gt, 'sink': sink, 'bits': bits, 'm': m}

    def post(self, it, ctx, result, st):
        rd, r, n, w, labf, gt, sink = st['rd'], st['r'], st['n'], st['w'], st['labf'], st['gt'], st['sink']
        a = self.arity()
        yield ('reads-1+arity-numbers', z3.BoolVal(len(rd.widths) == 1 + a), {'witness': 'number-count'})
        if len(rd.widths) != 1 + a:
            return
        yield ('widths', z3.And([it.int_term(rd.widths[0]) == st['bits']] + [it.int_term(x) == w for x in rd.widths[1:]]))
        yield ('identifiers-were-known', z3.And([z3.And(r[1 + j] >= 0, r[1 + j] < n) for j in range(a)]))
        yield ('one-gate-added', z3.BoolVal(len(sink.added) == 1 and len(gt.added) == 1))
        if len(sink.added) != 1 or len(gt.added) != 1:
            return
        g = sink.added[0]
        yield ('table-entry-is-the-added-gate-under-the-next-identifier', z3.And(z3.BoolVal(gt.added[0][1] is g), it.int_term(gt.added[0][0]) == n))
        gl = it.getattr(g, 'label')
        want_label = it.call(st['m'].env['_generate_label'], [Sym(n)], {})
        yield ('label-is-gate_<next-identifier>', it.label_term(gl) == it.label_term(want_label))
        ty = it.getattr(g, 'gate_type')
        yield ('type-is-the-decoded-code', z3.BoolVal(isinstance(ty, Obj) and ty.fields.get('_name') == self.t), {'witness': 'type-code'})
        ops = it.getattr(g, 'operands')
        ok_shape = isinstance(ops, tuple) and len(ops) == a
        yield ('operand-count', z3.BoolVal(ok_shape))
        if ok_shape:
            got = [it.label_term(ops[j]) for j in range(a)]
            if self.t in ORDER_FREE and a == 2:
                yield ('operands-are-the-labels-of-the-two-table-entries-in-some-order',
                       z3.Or(z3.And(got[0] == labf(r[1]), got[1] == labf(r[2])), z3.And(got[0] == labf(r[2]), got[1] == labf(r[1]))), {'witness': 'operand-identifiers'})
            else:
                for j in range(a):
                    yield (f'operand-{j}-is-the-label-of-table-entry-r{j + 1}', got[j] == labf(r[1 + j]), {'witness': 'operand-order'})

    def replay(self, values):
        return replay_gate(self.t, self.arity())

    def on_raise(self, it, ctx, exc, st):
        n_ = exc.cls.name if isinstance(exc, Obj) else repr(exc)
        r, n = st['r'], st['n']
        a = self.arity()
        if n_ == 'CircuitEncodingError':
            k = len(st['rd'].widths)
            yield ('raise/only-for-an-unknown-identifier', z3.And(z3.BoolVal(2 <= k <= 1 + a), z3.Or([z3.Not(z3.And(r[j] >= 0, r[j] < n)) for j in range(1, max(k, 2))])), {'raised': n_})
            yield ('raise/nothing-added', z3.BoolVal(not st['sink'].added and not st['gt'].added))
        else:
            yield ('no-other-raise', z3.BoolVal(False), {'raised': n_, 'witness': 'raises-' + n_})


class DecodeUndefinedCode(Contract):
    """a type code outside the table is rejected before anything else is read"""
    relpath, qualname, name = ENC, '_decode_gate', '_decode_gate/undefined-type-code'

    def setup(self, it, ctx):
        table, bits, m = code_table(it)
        r = [z3.Int(f'r{j}') for j in range(3)]
        for _, (_, v) in table.items():
            ctx.assume(r[0] != v)
        rd = LogReader(r)
        n = z3.Int('ntable')
        ctx.assume(n >= 0)
        labf = z3.Function('tbl_label', I, LabelSort)
        gt = GateTable(it, n, lambda i: labf(i))
        sink = CircuitSink()
        return [rd, Sym(z3.Int('word_size')), gt, sink], {}, {'rd': rd, 'sink': sink, 'gt': gt}

    def post(self, it, ctx, result, st):
        yield ('undefined-code-is-rejected', z3.BoolVal(False), {'witness': 'undefined-code-accepted'})

    def on_raise(self, it, ctx, exc, st):
        n_ = exc.cls.name if isinstance(exc, Obj) else repr(exc)
        yield ('raise/CircuitEncodingError', z3.BoolVal(n_ == 'CircuitEncodingError'), {'raised': n_})
        yield ('raise/after-one-read-nothing-added', z3.BoolVal(len(st['rd'].widths) == 1 and not st['sink'].added and not st['gt'].added))


def replay_gate(t, k):
    """(ok, detail): the real _encode_gate on Gate(g, T, operands p, q[, s]) with ids p->5, q->3, s->4, then the real _decode_gate on
    the written numbers with a table whose entry i is labelled gate_i; gate-for-gate equality up to the renaming x -> gate_<ids[x]>"""
    from cirbo.circuits_db import circuits_encoding as E
    from cirbo.core.circuit import gate as G
    from cirbo.core.circuit.gate import Gate

    class W:
        def __init__(self):
            self.log = []

        def write_number(self, n, k):
            self.log.append((n, k))

    class R:
        def __init__(self, nums):
            self.nums, self.widths = list(nums), []

        def read_number(self, k):
            self.widths.append(k)
            return self.nums.pop(0)

    class Sink:
        def __init__(self):
            self.added = []

        def add_gate(self, g):
            self.added.append(g)
    ops = ('p', 'q', 's')[:k]
    ids = {'p': 5, 'q': 3, 's': 4}
    arity = 1 if t in ('NOT', 'IFF') else 2
    w = W()
    try:
        E._encode_gate(w, Gate('g', getattr(G, t), ops), ids, 7)
    except E.CircuitEncodingError:
        if t == 'INPUT' or k != arity:
            return True, f'{t} with {k} operands is rejected by the encoder'
        return False, f'_encode_gate rejects {t}{ops}'
    except Exception as e:       # noqa
        return False, f'_encode_gate({t}{ops}) raises {type(e).__name__}: {e}'
    if t == 'INPUT':
        return (not w.log), f'_encode_gate(INPUT) wrote {w.log}'
    if k != arity:
        return False, f'_encode_gate accepts {t} with {k} operands although the decoder reads {arity}: wrote {w.log}'
    table = {i: Gate(f'gate_{i}', G.INPUT) for i in range(6)}
    sink = Sink()
    try:
        E._decode_gate(R([n for n, _ in w.log]), 7, table, sink)
    except Exception as e:       # noqa
        return False, f'_decode_gate on the numbers {w.log} written for {t}{ops} raises {type(e).__name__}: {e}'
    if len(sink.added) != 1:
        return False, f'_decode_gate added {len(sink.added)} gates'
    g = sink.added[0]
    want = tuple(f'gate_{ids[o]}' for o in ops)
    same = g.gate_type == getattr(G, t) and (tuple(g.operands) == want or (t in ORDER_FREE and sorted(g.operands) == sorted(want)))
    return same, f'{t}{ops} with ids {[ids[o] for o in ops]} is written as {w.log} and decoded as {g.gate_type.name}{tuple(g.operands)}; expected {t}{want}'


def contracts(it):
    table, _, _ = code_table(it)
    out = [EncodeGate('INPUT', 0)]
    for t in sorted(table):
        a = 1 if t in ('NOT', 'IFF') else 2
        out.append(EncodeGate(t, a))
        out.append(DecodeGate(t))
    # wrong operand counts must be rejected by the encoder (the decoder infers the count from the type)
    out += [EncodeGate('AND', 3), EncodeGate('NOT', 2), EncodeGate('ALWAYS_TRUE', 0), EncodeGate('XOR', 1)]
    out.append(DecodeUndefinedCode())
    return out


def round_trip(pv, it):
    """decode(encode(g)): obligations over the two contracts (no code is executed here): the numbers EncodeGate proves to be
    written are the numbers DecodeGate assumes to read; with a table whose entry ids[o] is labelled rho(o) the added gate has
    operands rho(o_1), .., rho(o_a) in the original order"""
    table, bits, _ = code_table(it)
    ids = z3.Function('ids', LabelSort, I)
    labf = z3.Function('tbl_label', I, LabelSort)
    rho = z3.Function('rho', LabelSort, LabelSort)
    n = z3.Int('ntable')
    for t in sorted(table):
        a = 1 if t in ('NOT', 'IFF') else 2
        ops = [z3.Const(f'o{j}', LabelSort) for j in range(a)]
        r = [z3.Int(f'r{j}') for j in range(1 + a)]
        free = t in ORDER_FREE and a == 2
        d = [z3.Const(f'd{j}', LabelSort) for j in range(a)]                                        # operands of the decoded gate
        if free:
            hyps = [r[0] == table[t][1], z3.Or(z3.And(r[1] == ids(ops[0]), r[2] == ids(ops[1])), z3.And(r[1] == ids(ops[1]), r[2] == ids(ops[0]))),      # EncodeGate post
                    z3.Or(z3.And(d[0] == labf(r[1]), d[1] == labf(r[2])), z3.And(d[0] == labf(r[2]), d[1] == labf(r[1])))]                                 # DecodeGate post
        else:
            hyps = [r[0] == table[t][1]] + [r[1 + j] == ids(ops[j]) for j in range(a)] + [d[j] == labf(r[1 + j]) for j in range(a)]
        hyps += [z3.And(ids(o) >= 0, ids(o) < n, labf(ids(o)) == rho(o)) for o in ops]            # table invariant of the decoder loop
        if free:
            goal = z3.Or(z3.And(d[0] == rho(ops[0]), d[1] == rho(ops[1])), z3.And(d[0] == rho(ops[1]), d[1] == rho(ops[0])))
        else:
            goal = z3.And([d[j] == rho(ops[j]) for j in range(a)])
        pv.add_raw(f'C16/gate-round-trip/{t}/' + ('operands-are-the-renamed-operands-in-some-order' if free else 'operands-are-the-renamed-operands-in-order'),
                   '_encode_gate+_decode_gate', hyps, goal, meta={'witness': 'gate-round-trip'})

"""C18  Simplification passes achieve their stated effect; pipelines equal sequencing.

P: MergeDuplicateGates._build_signature gives two gates of the same type EQUAL signatures whenever their operand
   lists are equal, or equal up to order for symmetric types (arities <= 3, all aliasing) — the local fact
   behind "after merging duplicates no two gates have the same type and operands up to order".
B: normal forms of all passes, idempotence of RRG, pipelines vs. manual sequencing (vlib/bounded/C18.py)."""
import z3

from .. import env
from ..pyvc.prove import Prover
from .common import new_interp, finish_refuted, canary, STD_TRUSTED, STD_ASSUME, run_bounded
from .C03 import signature_contracts

LEVEL = 'other'


def run(rep):
    quick = env.TIER != 'thorough'
    rep.trusted_base = list(STD_TRUSTED) + ['axiom of sorted(): ascending permutation w.r.t. a total order on labels (differentially tested)']
    for a in STD_ASSUME:
        rep.assume(a)
    rep.assume('RemoveRedundantGates._transform is proved to return exactly the gates reachable from the outputs (plus every input unless removal is requested) with unchanged definitions, on an arbitrary circuit '
               '(c03_rrg.py; dfs through its contract proved under C20); idempotence follows (the reachable set of the result is the result) by rule R2-style reasoning and is exercised by the bounded stand-in')
    rep.assume('normal forms of the other passes and the pipeline algebra (linearize/reduce) are covered by the bounded stand-in only')
    it = new_interp()
    pv = Prover(rep, it, 'C18')
    for c in signature_contracts('normal-form'):
        pv.run_contract(c)
    # RemoveRedundantGates returns exactly the reachable gates (plus the inputs unless their removal is requested): c03_rrg.py
    from .c03_rrg import Rrg
    for allow in (False, True):
        it.loop_specs.clear()
        it.contracts.clear()
        pv.run_contract(Rrg(allow))
    it.loop_specs.clear()
    it.contracts.clear()
    it.filter_views = False
    a, b = z3.Bools('a b')
    canary(rep, pv, 'C18/canary/and-is-not-commutative', [], z3.And(a, z3.Not(b)) == z3.And(b, z3.Not(a)))
    refuted = pv.discharge(env.NPROC)
    finish_refuted(rep, pv, refuted)
    run_bounded(rep, 'C18', quick)
    rep.extra['explanation'] = 'RemoveRedundantGates returns exactly the reachable gates (proved on an arbitrary circuit); duplicate gates get equal signatures (proved from the real source); the other passes and pipelines: bounded stand-in.'
